(* stl.go: ReadFromSTL (GSI block, TTI blocks, ISO 6937 text, rows and runs) and WriteToSTL, with the
   row parser of teletext.go as the STL reader uses it (STL styler).  Tables come from Gen/StlTables.v,
   regenerated from the code on every run.  Definitions only. *)
From Coq Require Import List ZArith NArith Bool.
From Astisub Require Import Kit.Base Kit.Str Kit.Utf8 Kit.Scan Model.Dur Gen.StlTables.
Import ListNotations.
Open Scope N_scope.

(* ---- small helpers ---- *)
Definition stl_sl (off len : nat) (b : str) : str := firstn len (skipn off b).
Definition stl_byte_at (i : nat) (b : str) : N := nth i b 0.
Definition o_some {A} (o : option A) : bool := match o with Some _ => true | None => false end.
Fixpoint slookup {V} (k : str) (m : list (str * V)) : option V :=
  match m with
  | [] => None
  | (k', v) :: r => if str_eqb k k' then Some v else slookup k r
  end.
Fixpoint zlookup {V} (k : Z) (m : list (Z * V)) : option V :=
  match m with
  | [] => None
  | (k', v) :: r => if Z.eqb k k' then Some v else zlookup k r
  end.

(* ================= character codec ================= *)

(* stlCharacterHandler.decode: [acc] = the pending floating accent (its table byte).  Every table string is
   non-empty (table theorem), so "len(h.accent) > 0" is "an accent is pending". *)
Definition is_accent_byte (v : N) : bool := (192 <=? v) && (v <=? 207).
Definition nfc_lookup (a v : N) : str :=
  match alookup a stl_nfc with
  | Some row => match alookup v row with Some s => s | None => [] end
  | None => []
  end.
Definition decode1 (acc : option N) (v : N) : str * option N :=
  match alookup v stl_table with
  | None => ([], acc)
  | Some s =>
    match acc with
    | Some a => (nfc_lookup a v, None)
    | None => if is_accent_byte v then ([], Some v) else (s, None)
    end
  end.
Fixpoint decode_bytes (acc : option N) (bs : str) : str * option N :=
  match bs with
  | [] => ([], acc)
  | v :: r => let '(o, acc1) := decode1 acc v in let '(o2, acc2) := decode_bytes acc1 r in (o ++ o2, acc2)
  end.

(* norm.NFD on code points of the known repertoire K: per-code-point decomposition, then canonical ordering
   (stable sort of each run of non-starters by combining class) *)
Definition nfd_rune (r : N) : list N := match alookup r stl_nfd with Some d => d | None => [r] end.
Definition stl_cccv (r : N) : N := match alookup r stl_ccc with Some c => c | None => 0 end.
(* [ins_mark r o]: [o] is the output so far, reversed *)
Fixpoint ins_mark (r : N) (o : list N) : list N :=
  match o with
  | p :: rest => if stl_cccv r =? 0 then r :: o else if stl_cccv r <? stl_cccv p then p :: ins_mark r rest else r :: o
  | [] => [r]
  end.
Definition canonical_order (l : list N) : list N := rev (fold_left (fun o r => ins_mark r o) l []).
Definition nfd_runes (l : list N) : list N := canonical_order (flat_map nfd_rune l).

(* encodeTextSTL after normalisation, one code point: [o] is the output so far, reversed.  A code point of the
   inverse mapping gives its byte; a floating diacritic goes in front of the last byte written (alone when there
   is none); anything else is truncated to its low byte *)
Definition enc_step (o : list N) (c : N) : list N :=
  match alookup c stl_unicode_mapping_inv with
  | Some b => b :: o
  | None =>
    match alookup c stl_unicode_diacritic_inv with
    | Some d => match o with [] => [d] | l :: o' => l :: d :: o' end
    | None => c mod 256 :: o
    end
  end.
Definition enc_runes (rs : list N) (o : list N) : list N := rev (fold_left enc_step rs o).

(* faithful domain of the text encoder: valid UTF-8 over K, no long run of combining marks (the normaliser
   inserts U+034F after 30 non-starters) *)
Definition known_rune (r : N) : bool := nmem r stl_known_runes.
Fixpoint max_marks (l : list N) (cur best : nat) : nat :=
  match l with
  | [] => Nat.max cur best
  | r :: t => if stl_cccv r =? 0 then max_marks t 0 (Nat.max cur best) else max_marks t (S cur) best
  end.
Definition text_faithful (s : str) : bool :=
  match utf8_decode s with
  | Some rs => forallb known_rune rs && Nat.leb (max_marks (flat_map nfd_rune rs) 0 0) 20
  | None => false
  end.
Definition encode_text_stl (s : str) : str :=
  match utf8_decode s with
  | Some rs => enc_runes (nfd_runes rs) []
  | None => []
  end.

(* ================= rows ================= *)

(* STLItalics / STLUnderline / STLBoxing (nil or a value), TeletextColor (index 0..7), double height/size/width *)
Record sattr_stl := mkSattrStl { a_it : option bool; a_un : option bool; a_bx : option bool;
                          a_col : option N; a_dh : option bool; a_ds : option bool; a_dw : option bool }.
Definition sattr0_stl : sattr_stl := mkSattrStl None None None None None None None.
(* a line item: trimmed text, attributes, TeletextSpacesBefore / After (teletext rows only) *)
Record erun := mkErun { ru_text : str; ru_at : sattr_stl; ru_sb : option N; ru_sa : option N }.

(* stlStyler.parseSpacingAttribute: which attribute (0 italics, 1 underline, 2 boxing) gets which value *)
Definition sty_code (v : N) : option (N * bool) :=
  if v =? 128 then Some (0, true) else if v =? 129 then Some (0, false)
  else if v =? 130 then Some (1, true) else if v =? 131 then Some (1, false)
  else if v =? 132 then Some (2, true) else if v =? 133 then Some (2, false) else None.
(* stlStyler.update: the attribute the styler carries replaces the run's *)
Definition sty_update (a : sattr_stl) (c : N * bool) : sattr_stl :=
  let '(k, b) := c in
  if k =? 0 then mkSattrStl (Some b) (a_un a) (a_bx a) (a_col a) (a_dh a) (a_ds a) (a_dw a)
  else if k =? 1 then mkSattrStl (a_it a) (Some b) (a_bx a) (a_col a) (a_dh a) (a_ds a) (a_dw a)
  else mkSattrStl (a_it a) (a_un a) (Some b) (a_col a) (a_dh a) (a_ds a) (a_dw a).

(* appendOpenSubtitleLineItem; [items] is reversed *)
Definition append_open (items : list erun) (text : str) (a : sattr_stl) : list erun :=
  match trim_space text with
  | [] => items
  | t => mkErun t a None None :: items
  end.

(* parseOpenSubtitleRow.  A fresh styler per byte: a style code always "has changed" (fresh pointers), closes
   the current erun (kept only when not blank) and updates the attributes; [acc] is the character handler's
   pending accent, which outlives the row. *)
Fixpoint open_row (row : str) (items : list erun) (text : str) (a : sattr_stl) (acc : option N)
  : res (list erun * option N) :=
  match row with
  | [] => Ok (rev (append_open items text a), acc)
  | v :: r =>
    if v <=? 31 then Err EParse
    else match sty_code v with
         | Some c => open_row r (append_open items text a) [] (sty_update a c) acc
         | None => let '(o, acc') := decode1 acc v in open_row r items (text ++ o) a acc'
         end
  end.

(* appendTeletextLineItem *)
Fixpoint lead_spaces (s : str) : N :=
  match s with c :: r => if c =? 32 then 1 + lead_spaces r else 0 | [] => 0 end.
Definition stl_append_ttx (items : list erun) (text : str) (a : sattr_stl) : list erun :=
  match trim_space text with
  | [] => items
  | t => mkErun t a (Some (lead_spaces text)) (Some (lead_spaces (rev text))) :: items
  end.

(* parseTeletextRow with the STL styler.  Pointer comparisons: colours are package-level pointers (equal iff the
   same colour); *bool attributes are fresh allocations (different from everything unless both nil). *)
Fixpoint stl_ttx_row (row : str) (items : list erun) (text : str) (a : sattr_stl) (started : bool) (acc : option N)
  : list erun * option N :=
  match row with
  | [] => (rev (stl_append_ttx items text a), acc)
  | v :: r =>
    let color := if v <=? 7 then Some v else None in
    let started' := if v =? 10 then false else if v =? 11 then true else started in
    let dh := if v =? 12 then Some false else if v =? 13 then Some true else None in
    let dw := if v =? 12 then Some false else if v =? 14 then Some true else None in
    let ds := if v =? 12 then Some false else if v =? 15 then Some true else None in
    let sc := if (v <=? 7) || ((10 <=? v) && (v <=? 15)) then None else sty_code v in
    if o_some color || o_some dh || o_some ds || o_some dw || o_some sc then
      let changed := negb (opt_eqb color (a_col a)) || o_some dh || o_some (a_dh a) || o_some ds || o_some (a_ds a)
                     || o_some dw || o_some (a_dw a) || o_some sc || o_some (a_it a) || o_some (a_un a) || o_some (a_bx a) in
      if changed then
        let items' := if started' then stl_append_ttx items text a else items in
        let text' := if started' then [] else text in
        let a1 := mkSattrStl (a_it a) (a_un a) (a_bx a)
                    (match color with Some c => Some c | None => a_col a end)
                    (match dh with Some b => Some b | None => a_dh a end)
                    (match ds with Some b => Some b | None => a_ds a end)
                    (match dw with Some b => Some b | None => a_dw a end) in
        let a2 := match sc with Some c => sty_update a1 c | None => a1 end in
        stl_ttx_row r items' text' a2 started' acc
      else stl_ttx_row r items text a started' acc
    else if started' then let '(o, acc') := decode1 acc v in stl_ttx_row r items (text ++ o) a started' acc'
    else stl_ttx_row r items text a started' acc
  end.

(* ================= TTI block ================= *)
Record tti := mkTti { t_cf : N; t_cs : N; t_ebn : Z; t_jc : N; t_sgn : Z; t_sn : Z; t_text : str;
                      t_in : Z; t_out : Z; t_vp : Z }.

Definition parse_tti (p : str) (fps : Z) : tti :=
  mkTti (stl_byte_at 15 p) (stl_byte_at 4 p) (Z.of_N (stl_byte_at 3 p)) (stl_byte_at 14 p) (Z.of_N (stl_byte_at 0 p))
        (Z.of_N (stl_byte_at 1 p + 256 * stl_byte_at 2 p)) (stl_sl 16 112 p)
        (parse_stl_bytes (stl_sl 5 4 p) fps) (parse_stl_bytes (stl_sl 9 4 p) fps) (Z.of_N (stl_byte_at 13 p)).

Definition zbyte (v : Z) : N := Z.to_N (v mod 256).

(* validateVerticalPosition *)
Definition validate_vp (vp : Z) (dsc : str) : N :=
  let closed := str_eqb dsc stl_s_dscLevel1 || str_eqb dsc stl_s_dscLevel2 in
  let vp1 := if (vp <? 1)%Z && closed then 1%Z else vp in
  let vp2 := if (23 <? vp1)%Z && closed then 23%Z else vp1 in
  zbyte vp2.

(* ttiBlock.bytes; [tcp] = the GSI block's timecode start of programme (items are relative to it, timecodes are not) *)
Definition tti_bytes (fps : Z) (dsc : str) (tcp : Z) (t : tti) : str :=
  [zbyte (t_sgn t); zbyte (t_sn t); zbyte (t_sn t / 256); zbyte (t_ebn t); t_cs t]
  ++ format_stl_bytes (t_in t + tcp) fps ++ format_stl_bytes (t_out t + tcp) fps
  ++ [validate_vp (t_vp t) dsc; t_jc t; t_cf t]
  ++ pad_right_cut 143 112 (encode_text_stl (t_text t)).

(* ================= GSI block ================= *)
Record gsi := mkGsi {
  g_cct : N; g_cpn : N; g_co : str; g_cd : str (* yymmdd, [] = zero time *); g_dsn : Z; g_dsc : str;
  g_ecd : str; g_en : str; g_fps : Z; g_lc : str; g_mnc : Z; g_mnr : Z; g_oet : str; g_opt : str; g_pub : str;
  g_rd : str; g_rn : Z; g_slr : str; g_tcf : Z; g_tcp : Z; g_tcs : str; g_tnd : Z; g_tng : Z; g_tns : Z; g_tnb : Z;
  g_tet : str; g_tpt : str; g_tcd : str; g_tn : str; g_uda : str }.

(* "if v := TrimSpace(field); len(v) > 0 { x, err = Atoi(v) }" *)
Definition num_field (v : str) : res Z :=
  match trim_space v with
  | [] => Ok 0%Z
  | t => match atoi t with Some z => Ok z | None => Err EParse end
  end.

(* time.Parse("060102", v) on a string of digits: two-digit year, month 01..12, day 01..days in the month
   (years 1969..2068: leap iff divisible by 4); the value is kept as its digit string *)
Definition two_digits (s : str) (i : nat) : N :=
  (stl_byte_at i s - 48) * 10 + (stl_byte_at (S i) s - 48).
Definition days_in (yy mm : N) : N :=
  if mm =? 2 then (if yy mod 4 =? 0 then 29 else 28)
  else if (mm =? 4) || (mm =? 6) || (mm =? 9) || (mm =? 11) then 30 else 31.
Definition date_valid (t : str) : bool :=
  Nat.eqb (length t) 6 && forallb is_digit t &&
  let yy := two_digits t 0 in let mm := two_digits t 2 in let dd := two_digits t 4 in
  (1 <=? mm) && (mm <=? 12) && (1 <=? dd) && (dd <=? days_in yy mm).
Definition date_field (v : str) : res str :=
  match trim_space v with
  | [] => Ok []
  | t => if date_valid t then Ok t else Err EParse
  end.
(* faithful domain of the date parser: digits only (the library's year parser also accepts a sign) *)
Definition date_faithful (v : str) : bool := forallb is_digit (trim_space v).

Definition tc_field (v : str) (fps : Z) : res Z :=
  match trim_space v with
  | [] => Ok 0%Z
  | t => if Nat.ltb (length t) 8 then Err EParse
         else match parse_stl t fps with Some d => Ok d | None => Err EParse end
  end.

Definition parse_gsi (b : str) : res gsi :=
  match slookup (stl_sl 3 8 b) stl_framerate with
  | None => Err EParse
  | Some fps =>
    do cd <- date_field (stl_sl 224 6 b);
    do rd <- date_field (stl_sl 230 6 b);
    do rn <- num_field (stl_sl 236 2 b);
    do tnb <- num_field (stl_sl 238 5 b);
    do tns <- num_field (stl_sl 243 5 b);
    do tng <- num_field (stl_sl 248 3 b);
    do mnc <- num_field (stl_sl 251 2 b);
    do mnr <- num_field (stl_sl 253 2 b);
    do tcp <- tc_field (stl_sl 256 8 b) fps;
    do tcf <- tc_field (stl_sl 264 8 b) fps;
    do tnd <- num_field (utf8_encode_rune (stl_byte_at 272 b));   (* string(b[272]): the byte as a code point *)
    do dsn <- num_field (utf8_encode_rune (stl_byte_at 273 b));
    Ok (mkGsi (stl_byte_at 12 b * 256 + stl_byte_at 13 b)
              (stl_byte_at 0 b * 65536 + stl_byte_at 1 b * 256 + stl_byte_at 2 b)
              (trim_space (stl_sl 274 3 b)) cd dsn (trim_space (stl_sl 11 1 b))
              (trim_space (stl_sl 341 32 b)) (trim_space (stl_sl 309 32 b)) fps (trim_space (stl_sl 14 2 b)) mnc mnr
              (trim_space (stl_sl 48 32 b)) (trim_space (stl_sl 16 32 b)) (trim_space (stl_sl 277 32 b))
              rd rn (trim_space (stl_sl 208 16 b)) tcf tcp (trim_space (stl_sl 255 1 b)) tnd tng tns tnb
              (trim_space (stl_sl 112 32 b)) (trim_space (stl_sl 80 32 b)) (trim_space (stl_sl 176 32 b)) (trim_space (stl_sl 144 32 b))
              (trim_space (skipn 448 b)))
  end.
Definition gsi_faithful (b : str) : bool := date_faithful (stl_sl 224 6 b) && date_faithful (stl_sl 230 6 b).

Definition stl_sp : N := 32.
Definition gsi_bytes (g : gsi) : str :=
  [(g_cpn g / 65536) mod 256; (g_cpn g / 256) mod 256; g_cpn g mod 256]
  ++ pad_right_cut stl_sp 8 (match zlookup (g_fps g) stl_framerate_inv with Some f => f | None => [] end)
  ++ pad_right_cut stl_sp 1 (g_dsc g)
  ++ [(g_cct g / 256) mod 256; g_cct g mod 256]
  ++ pad_right_cut stl_sp 2 (g_lc g)
  ++ pad_right_cut stl_sp 32 (g_opt g) ++ pad_right_cut stl_sp 32 (g_oet g)
  ++ pad_right_cut stl_sp 32 (g_tpt g) ++ pad_right_cut stl_sp 32 (g_tet g)
  ++ pad_right_cut stl_sp 32 (g_tn g) ++ pad_right_cut stl_sp 32 (g_tcd g)
  ++ pad_right_cut stl_sp 16 (g_slr g)
  ++ pad_right_cut stl_sp 6 (g_cd g) ++ pad_right_cut stl_sp 6 (g_rd g)
  ++ pad_left_cut 48 2 (itoa_z (g_rn g))
  ++ pad_left_cut 48 5 (itoa_z (g_tnb g)) ++ pad_left_cut 48 5 (itoa_z (g_tns g)) ++ pad_left_cut 48 3 (itoa_z (g_tng g))
  ++ pad_left_cut 48 2 (itoa_z (g_mnc g)) ++ pad_left_cut 48 2 (itoa_z (g_mnr g))
  ++ pad_right_cut stl_sp 1 (g_tcs g)
  ++ pad_right_cut stl_sp 8 (format_stl (g_tcp g) (g_fps g)) ++ pad_right_cut stl_sp 8 (format_stl (g_tcf g) (g_fps g))
  ++ pad_right_cut stl_sp 1 (itoa_z (g_tnd g)) ++ pad_right_cut stl_sp 1 (itoa_z (g_dsn g))
  ++ pad_right_cut stl_sp 3 (g_co g)
  ++ pad_right_cut stl_sp 32 (g_pub g) ++ pad_right_cut stl_sp 32 (g_en g) ++ pad_right_cut stl_sp 32 (g_ecd g)
  ++ repeat stl_sp 651.

(* ================= reader ================= *)
(* an Item: times, STLJustification (the library's enumeration value), STLPosition, the propagated WebVTT
   alignment and line, and the lines of runs *)
Record ritem := mkRitem { ri_st : Z; ri_en : Z; ri_just : N; ri_vp : Z; ri_maxrows : Z; ri_rows : N;
                          ri_align : str; ri_line : str; ri_lines : list (list erun) }.
(* Metadata as ReadFromSTL fills it *)
Record rdoc := mkRdoc {
  rd_fps : Z; rd_co : str; rd_cd : str; rd_dsc : str; rd_ecd : str; rd_en : str; rd_mnc : Z; rd_mnr : Z;
  rd_oet : str; rd_pub : str; rd_rd : str; rd_rn : Z; rd_slr : str; rd_tet : str; rd_tpt : str; rd_tcd : str;
  rd_tn : str; rd_title : str; rd_tcp : Z; rd_lang : str; rd_items : list ritem }.

(* parseSTLJustificationCode *)
Definition parse_jc (c : N) : N :=
  if c =? 0 then stl_c_justificationUnchanged else if c =? 1 then stl_c_justificationLeft
  else if c =? 2 then stl_c_justificationCentered else if c =? 3 then stl_c_justificationRight
  else stl_c_justificationUnchanged.
(* propagateSTLAttributes *)
Definition s_left : str := [108;101;102;116].
Definition s_right : str := [114;105;103;104;116].
Definition vtt_align (j : N) : str :=
  if j =? stl_c_justificationRight then s_right else if j =? stl_c_justificationLeft then s_left else [].
Definition vtt_line (vp maxrows : Z) : str :=
  if (0 <? maxrows)%Z then
    (if (maxrows =? 23)%Z && (0 <? vp)%Z then itoa_z (Z.quot ((vp - 1) * 100) maxrows) else itoa_z (Z.quot (vp * 100) maxrows)) ++ [37]
  else [].

(* the rows of one text field, the character handler's accent threaded through *)
Fixpoint rows_open (rows : list str) (acc : option N) (lines : list (list erun)) : res (list (list erun) * option N) :=
  match rows with
  | [] => Ok (rev lines, acc)
  | row :: r =>
    do x <- open_row row [] [] sattr0_stl acc;
    let '(l, acc') := x in
    rows_open r acc' (match l with [] => lines | _ => l :: lines end)
  end.
Fixpoint rows_ttx (rows : list str) (acc : option N) (lines : list (list erun)) : list (list erun) * option N :=
  match rows with
  | [] => (rev lines, acc)
  | row :: r =>
    (* WriteToSTL omits the start box code: a row without one is read as boxed from its first column *)
    let row' := if nmem 11 row then row else 11 :: row in
    let '(l, acc') := stl_ttx_row row' [] [] sattr0_stl false acc in
    rows_ttx r acc' (match l with [] => lines | _ => l :: lines end)
  end.

Definition item_of (g : gsi) (tcp : Z) (t : tti) (nrows : nat) (lines : list (list erun)) : ritem :=
  let j := parse_jc (t_jc t) in
  mkRitem (t_in t - tcp)%Z (t_out t - tcp)%Z j (t_vp t) (g_mnr g) (N.of_nat nrows)
          (vtt_align j) (vtt_line (t_vp t) (g_mnr g)) lines.

Fixpoint tti_loop (fuel : nat) (data : str) (g : gsi) (tcp : Z) (acc : option N) (items : list ritem) : res (list ritem) :=
  match fuel with
  | O => Err EOther
  | S f =>
    match read_n 128 data [] with
    | RnEOF => Ok (rev items)
    | RnShort => Err EIO
    | RnOk p rest _ =>
      let t := parse_tti p (g_fps g) in
      if (t_ebn t =? 254)%Z then tti_loop f rest g tcp acc items
      else
        let rows := split_byte 138 (t_text t) in
        if str_eqb (g_dsc g) stl_s_dscOpen then
          do x <- rows_open rows acc [];
          let '(lines, acc') := x in
          tti_loop f rest g tcp acc' (item_of g tcp t (length rows) lines :: items)
        else
          let '(lines, acc') := rows_ttx rows acc [] in
          tti_loop f rest g tcp acc' (item_of g tcp t (length rows) lines :: items)
    end
  end.

Definition read_stl (ignore_tcp : bool) (data : str) : res rdoc :=
  match read_n 1024 data [] with
  | RnOk b rest _ =>
    do g <- parse_gsi b;
    if negb (nmem (g_cct g) stl_tables_existing) then Err EParse
    else
      let tcp := if ignore_tcp then 0%Z else g_tcp g in
      do items <- tti_loop (S (length rest)) rest g tcp None [];
      Ok (mkRdoc (g_fps g) (g_co g) (g_cd g) (g_dsc g) (g_ecd g) (g_en g) (g_mnc g) (g_mnr g) (g_oet g) (g_pub g)
                 (g_rd g) (g_rn g) (g_slr g) (g_tet g) (g_tpt g) (g_tcd g) (g_tn g) (g_opt g) tcp
                 (match slookup (g_lc g) stl_language with Some l => l | None => [] end) items)
  | _ => Err EIO
  end.
(* outside it only the Ok/Err/Panic class of the reader is compared *)
Definition read_faithful (data : str) : bool :=
  match read_n 1024 data [] with RnOk b _ _ => gsi_faithful b | _ => true end.

(* ================= writer ================= *)
(* the Metadata fields WriteToSTL looks at *)
Record wmeta := mkWmeta {
  wm_fps : Z; wm_lang : str; wm_title : str; wm_co : str; wm_cd : option str; wm_dsc : str; wm_ecd : str; wm_en : str;
  wm_mnc : option Z; wm_mnr : option Z; wm_oet : str; wm_pub : str; wm_rd : option str; wm_rn : Z; wm_slr : str;
  wm_tcp : Z; wm_tet : str; wm_tpt : str; wm_tcd : str; wm_tn : str }.
(* a LineItem: text, and whether STLItalics / STLUnderline / STLBoxing are set and true *)
Record wrun := mkWrun { wr_text : str; wr_it : bool; wr_un : bool; wr_bx : bool }.
(* an Item: times, *STLJustification (enumeration value) and STLPosition.VerticalPosition when present *)
Record witem := mkWitem { wi_st : Z; wi_en : Z; wi_just : option N; wi_vp : option Z; wi_lines : list (list wrun) }.

(* newGSIBlock; [now] = Now() as yymmdd *)
Definition new_gsi (now : str) (md : option wmeta) (items : list witem) : gsi :=
  let n := Z.of_nat (length items) in
  let tcf := match items with i :: _ => (wi_st i + match md with Some m => wm_tcp m | None => 0 end)%Z | [] => 0%Z end in
  match md with
  | None =>
    mkGsi stl_c_cctLatin stl_c_codePageMultilingual stl_s_countryFrance now 1 stl_s_dscLevel1 [] [] 25 stl_s_languageFrench
          40 23 [] [] [] now 0 [] tcf 0 stl_s_timecodeStatus1 1 1 n n [] [] [] [] []
  | Some m =>
    mkGsi stl_c_cctLatin stl_c_codePageMultilingual
          (match wm_co m with [] => stl_s_countryFrance | c => c end)
          (match wm_cd m with Some d => d | None => now end)
          1
          (match wm_dsc m with [] => stl_s_dscLevel1 | c => c end)
          (wm_ecd m) (wm_en m)
          (if o_some (zlookup (wm_fps m) stl_framerate_inv) then wm_fps m else 25%Z)
          (match slookup (wm_lang m) stl_language_inv with Some c => c | None => stl_s_languageFrench end)
          (match wm_mnc m with Some v => v | None => 40%Z end)
          (match wm_mnr m with Some v => v | None => 23%Z end)
          (wm_oet m) (wm_title m) (wm_pub m)
          (match wm_rd m with Some d => d | None => now end)
          (wm_rn m) (wm_slr m) tcf (wm_tcp m) stl_s_timecodeStatus1 1 1 n n
          (wm_tet m) (wm_tpt m) (wm_tcd m) (wm_tn m) []
  end.

(* LineItem.STLString: string(rune(0x80)) ... are two-byte UTF-8 sequences until encodeTextSTL *)
Definition stl_wrap (o c : N) (s : str) : str := [194; o] ++ s ++ [194; c].
Definition stl_string (r : wrun) : str :=
  let s1 := if wr_it r then stl_wrap 128 129 (wr_text r) else wr_text r in
  let s2 := if wr_un r then stl_wrap 130 131 s1 else s1 in
  if wr_bx r then stl_wrap 132 133 s2 else s2.
Definition stl_item_text (i : witem) : str :=
  join [194; 138] (map (fun l => join [32] (map stl_string l)) (wi_lines i)).

(* stlJustificationCodeFromStyle *)
Definition jc_of (j : option N) : N :=
  match j with
  | None => stl_c_jcLeft
  | Some v => if v =? stl_c_justificationCentered then stl_c_jcCentred
              else if v =? stl_c_justificationLeft then stl_c_jcLeft
              else if v =? stl_c_justificationRight then stl_c_jcRight
              else if v =? stl_c_justificationUnchanged then stl_c_jcUnchanged
              else stl_c_jcLeft
  end.
(* newTTIBlock *)
Definition new_tti (i : witem) (idx : Z) : tti :=
  mkTti 0 0 255 (jc_of (wi_just i)) 0 idx (stl_item_text i) (wi_st i) (wi_en i)
        (match wi_vp i with Some v => v | None => 20%Z end).

Fixpoint tti_blocks (fps : Z) (dsc : str) (tcp : Z) (items : list witem) (idx : Z) : str :=
  match items with
  | [] => []
  | i :: r => tti_bytes fps dsc tcp (new_tti i idx) ++ tti_blocks fps dsc tcp r (idx + 1)
  end.

Definition write_stl (now : str) (md : option wmeta) (items : list witem) : res str :=
  match items with
  | [] => Err ENothingToWrite
  | _ => let g := new_gsi now md items in
         Ok (gsi_bytes g ++ tti_blocks (g_fps g) (g_dsc g) (g_tcp g) items 1)
  end.
(* faithful domain of the writer model: times from 0 to below 256 h (the float arithmetic of the timecode
   formatters is exact there), text over the known repertoire *)
Definition time_faithful (t : Z) : bool := (0 <=? t)%Z && (t <? 256 * hour_ns)%Z.
Definition write_faithful (md : option wmeta) (items : list witem) : bool :=
  let tcp := match md with Some m => wm_tcp m | None => 0%Z end in
  forallb (fun i => time_faithful (wi_st i + tcp) && time_faithful (wi_en i + tcp) && text_faithful (stl_item_text i)) items
  && time_faithful tcp.
