(* teletext.go teletextFullReader: the wrapper ReadFromTeletext puts between the caller's io.Reader and the transport stream
   demuxer (which the library delegates to astits and which detects the packet size from, and re-synchronises with, single
   Reads).  Byte-level contract only: a stream delivering its bytes under any schedule (the model of Kit/Scan.v: sizes of the
   successive reads, 0 allowed; then the rest), ending with end-of-file or failing at an offset (Kit/Scan.v stream_end); the
   end signal may come together with the last bytes or on a read of its own.  Definitions only. *)
From Coq Require Import List NArith Bool Arith.
From Astisub Require Import Kit.Base Kit.Str Kit.Scan.
Import ListNotations.
Local Open Scope nat_scope.

Inductive tf_sig := TfEOF | TfFault.
(* the bytes still to come, the schedule, how the stream ends, end signal together with the last bytes *)
Record tf_stream := mkTfs { tf_avail : str; tf_counts : list nat; tf_end : tf_sig; tf_with : bool }.
(* a failure offset beyond the data never happens: the stream ends with end-of-file *)
Definition tf_of (data : str) (e : stream_end) (counts : list nat) (w : bool) : tf_stream :=
  match e with
  | SEof => mkTfs data counts TfEOF w
  | SFail k => if Nat.leb k (length data) then mkTfs (firstn k data) counts TfFault w else mkTfs data counts TfEOF w
  end.

(* one Read of the underlying stream into a buffer of n >= 1 bytes *)
Definition tf_read (s : tf_stream) (n : nat) : str * option tf_sig * tf_stream :=
  match tf_avail s with
  | [] => ([], Some (tf_end s), s)
  | _ =>
    let c := match tf_counts s with k :: _ => k | [] => length (tf_avail s) end in
    let want := Nat.min c (Nat.min n (length (tf_avail s))) in
    (firstn want (tf_avail s),
     (if Nat.eqb want (length (tf_avail s)) && tf_with s then Some (tf_end s) else None),
     mkTfs (skipn want (tf_avail s)) (tl (tf_counts s)) (tf_end s) (tf_with s))
  end.

(* what the wrapper returns when the stream stops before the buffer is full: end-of-file only with no byte at all
   (io.ErrUnexpectedEOF is turned into nil), the failure always *)
Definition tf_final (e : tf_sig) (b : str) : option tf_sig :=
  match e with TfEOF => match b with [] => Some TfEOF | _ => None end | TfFault => Some TfFault end.

(* io.ReadFull: read until the buffer is full or the stream signals; an error that arrives with the bytes that fill the
   buffer is dropped (the next Read meets it again) *)
Fixpoint tf_fill (fuel : nat) (s : tf_stream) (n : nat) (acc : str) : option (str * option tf_sig * tf_stream) :=
  if Nat.leb n (length acc) then Some (acc, None, s)
  else match fuel with
       | O => None
       | S f =>
         let '(got, e, s') := tf_read s (n - length acc) in
         let acc' := acc ++ got in
         match e with
         | None => tf_fill f s' n acc'
         | Some sg => if Nat.leb n (length acc') then Some (acc', None, s') else Some (acc', tf_final sg acc', s')
         end
       end.
(* teletextFullReader.Read into a buffer of n bytes *)
Definition tf_full_read (s : tf_stream) (n : nat) : option (str * option tf_sig * tf_stream) :=
  tf_fill (length (tf_counts s) + 2) s n [].
(* the successive Reads of the demuxer with buffers of n1, n2, ... bytes: what each returns *)
Fixpoint tf_reads (s : tf_stream) (ns : list nat) : option (list (str * option tf_sig)) :=
  match ns with
  | [] => Some []
  | n :: r =>
    match tf_full_read s n with
    | Some (b, e, s') => match tf_reads s' r with Some l => Some ((b, e) :: l) | None => None end
    | None => None
    end
  end.

(* ---- the one-shot sequence: every request filled while bytes remain ---- *)
Fixpoint tf_oneshot (avail : str) (e : tf_sig) (ns : list nat) : list (str * option tf_sig) :=
  match ns with
  | [] => []
  | n :: r =>
    if Nat.leb n (length avail) then (firstn n avail, None) :: tf_oneshot (skipn n avail) e r
    else (avail, tf_final e avail) :: tf_oneshot [] e r
  end.
