(* subtitles.go Open / Write: the codec is chosen by filepath.Ext(strings.ToLower(name)). *)
From Coq Require Import List NArith Bool.
From Astisub Require Import Kit.Base Kit.Str.
Import ListNotations.
Open Scope N_scope.

Inductive sfmt := FSrt | FSsa | FStl | FTs | FTtml | FVtt.

(* filepath.Ext: the suffix beginning at the last dot of the last path element; empty if there is none *)
Fixpoint ext_rev (r acc : str) : str :=      (* r = reversed name *)
  match r with
  | [] => []
  | c :: t => if c =? 47 then [] else if c =? 46 then c :: acc else ext_rev t (c :: acc)
  end.
Definition ext_of (name : str) : str := ext_rev (rev name) [].

Definition e_srt : str := [46;115;114;116].   Definition e_ssa : str := [46;115;115;97].
Definition e_ass : str := [46;97;115;115].    Definition e_stl : str := [46;115;116;108].
Definition e_ts : str := [46;116;115].        Definition e_ttml : str := [46;116;116;109;108].
Definition e_vtt : str := [46;118;116;116].

Definition fmt_of_ext (e : str) : option sfmt :=
  if str_eqb e e_srt then Some FSrt else if str_eqb e e_ssa then Some FSsa else if str_eqb e e_ass then Some FSsa
  else if str_eqb e e_stl then Some FStl else if str_eqb e e_ts then Some FTs else if str_eqb e e_ttml then Some FTtml
  else if str_eqb e e_vtt then Some FVtt else None.

(* Open: every format; Write: every format but the transport stream *)
Definition reader_for (name : str) : res sfmt :=
  match fmt_of_ext (ext_of (to_lower name)) with Some f => Ok f | None => Err EInvalidExt end.
Definition writer_for (name : str) : res sfmt :=
  match fmt_of_ext (ext_of (to_lower name)) with
  | Some FTs => Err EInvalidExt
  | Some f => Ok f
  | None => Err EInvalidExt
  end.
