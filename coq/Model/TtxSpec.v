(* Specification side of C06, written from ETS 300 706 / EN 300 472 and independent of the library's tables:
   the Hamming 8/4 and odd-parity encoders, bit order, the data-unit / packet / header / row encoders, ground-truth
   page schedules, the multiplexing choices and the cues a schedule denotes.  Definitions only. *)
From Coq Require Import List ZArith NArith Bool.
From Astisub Require Import Kit.Base Kit.Str Kit.GoMap Model.TtxRow Model.Ttx.
Import ListNotations.
Open Scope N_scope.

(* ---- byte-level coding ---- *)
Definition bit (n : N) (i : N) : N := N.land (N.shiftr n i) 1.

(* Hamming 8/4 (ETS 300 706 8.2): bits P1 D1 P2 D2 P3 D3 P4 D4 in transmission order, the first transmitted bit
   being the most significant bit of the byte in the PES payload *)
Definition ham84_enc (n : N) : N :=
  let d1 := bit n 0 in let d2 := bit n 1 in let d3 := bit n 2 in let d4 := bit n 3 in
  let p1 := N.lxor 1 (N.lxor d1 (N.lxor d3 d4)) in
  let p2 := N.lxor 1 (N.lxor d1 (N.lxor d2 d4)) in
  let p3 := N.lxor 1 (N.lxor d1 (N.lxor d2 d3)) in
  let p4 := N.lxor 1 (N.lxor p1 (N.lxor d1 (N.lxor p2 (N.lxor d2 (N.lxor p3 (N.lxor d3 d4)))))) in
  p1 * 128 + d1 * 64 + p2 * 32 + d2 * 16 + p3 * 8 + d3 * 4 + p4 * 2 + d4.

(* the byte with its bits in reverse order *)
Definition brev8 (b : N) : N :=
  bit b 0 * 128 + bit b 1 * 64 + bit b 2 * 32 + bit b 3 * 16 + bit b 4 * 8 + bit b 5 * 4 + bit b 6 * 2 + bit b 7.

Definition ones8 (b : N) : N := bit b 0 + bit b 1 + bit b 2 + bit b 3 + bit b 4 + bit b 5 + bit b 6 + bit b 7.

(* a 7-bit character with odd parity in bit 8, transmitted least significant bit first *)
Definition par_enc (c : N) : N :=
  let c7 := N.land c 127 in
  brev8 (if N.even (ones8 c7) then c7 + 128 else c7).

(* what a transmitted byte denotes: the 7-bit character when the parity is odd, nothing otherwise *)
Definition cell_spec (x : N) : option N :=
  let b := brev8 x in if N.odd (ones8 b) then Some (N.land b 127) else None.

(* Hamming 8/4 decoding as the standard intends it: the nibble whose code word is at distance at most one (single
   errors corrected), none when there is no such nibble (double errors detected) *)
Definition hdist (a b : N) : N := ones8 (N.lxor a b).
Definition nibbles : list N := [0;1;2;3;4;5;6;7;8;9;10;11;12;13;14;15].
Definition ham84_dec (b : N) : option N :=
  if b <? 256 then find (fun n => hdist (ham84_enc n) b <=? 1) nibbles else None.
(* the stored cell of a transmitted byte: failing parity gives 0 *)
Definition cell0 (x : N) : N :=
  if x <? 256 then match cell_spec x with Some c => c | None => 0 end else 0.

(* ---- data units and packets (EN 300 472 4.4, ETS 300 706 7.1) ---- *)
Definition enc_unit (u : N * str) : str := fst u :: N.of_nat (length (snd u)) :: snd u.

(* a teletext packet as the data of a data unit: field/line byte, framing code, address, payload *)
Definition enc_packet (fl mag pkt : N) (payload : str) : str :=
  let h := N.land mag 7 + 8 * pkt in
  fl :: 228 :: ham84_enc (N.land h 15) :: ham84_enc (N.shiftr h 4) :: payload.

(* page header: page units and tens, four sub-code nibbles with the control bits C4..C6, then C7..C10 and
   C11 (magazine serial) C12..C14 (national option) *)
Record hdr := mkHdr {
  h_units : N; h_tens : N;
  h_s1 : N; h_s2 : N; h_s3 : N;
  h_c5 : N;            (* S4 + C5 C6: bit 3 = C6, the subtitle flag *)
  h_c6 : N;            (* C7..C10 *)
  h_c7 : N;            (* bit 0 = C11 serial, bits 1..3 = C12..C14 *)
  h_rest : str         (* the 32 characters of the header row *)
}.
Definition hdr_ok (h : hdr) : bool :=
  (h_units h <? 16) && (h_tens h <? 16) && (h_s1 h <? 16) && (h_s2 h <? 16) && (h_s3 h <? 16) && (h_c5 h <? 16)
  && (h_c6 h <? 16) && (h_c7 h <? 16).
Definition enc_header (h : hdr) : str :=
  [ham84_enc (h_units h); ham84_enc (h_tens h); ham84_enc (h_s1 h); ham84_enc (h_s2 h); ham84_enc (h_s3 h);
   ham84_enc (h_c5 h); ham84_enc (h_c6 h); ham84_enc (h_c7 h)] ++ h_rest h.
Definition h_pn (h : hdr) : Z := Z.of_N (h_tens h * 10 + h_units h).
Definition h_subtitle (h : hdr) : bool := 0 <? N.land (h_c5 h) 8.
Definition h_serial (h : hdr) : bool := 0 <? N.land (h_c7 h) 1.
Definition h_cs (h : hdr) : N := N.shiftr (h_c7 h) 1.

Definition enc_row (cells : list N) : str := map par_enc cells.

(* ---- rows as structured runs ---- *)
(* a segment: the spacing attributes in front of it (colour 0..7, size 12..15) and its character cells *)
Record rseg := mkRseg { sg_codes : list N; sg_cells : list N }.
Record rowspec := mkRowspec {
  rw_pre : list N;             (* cells in front of the start box: anything but spacing attributes and box codes *)
  rw_boxes : nat;              (* further start-box codes after the first *)
  rw_segs : list rseg;
  rw_end : option (list N)     (* Some junk: end box followed by cells that are not spacing attributes or start box *)
}.
Definition is_attr (v : N) : bool := (v <? 8) || ((12 <=? v) && (v <=? 15)).
Definition is_text_cell (v : N) : bool := (32 <=? v) && (v <? 128).
Definition row_cells (r : rowspec) : list N :=
  rw_pre r ++ 11 :: repeat 11 (rw_boxes r) ++ flat_map (fun s => sg_codes s ++ sg_cells s) (rw_segs r)
  ++ match rw_end r with Some j => 10 :: j | None => [] end.

(* the style after a spacing attribute *)
Definition apply_code (s : tsty unit) (v : N) : tsty unit :=
  if v <? 8 then mkTsty (Some v) (ts_dh s) (ts_ds s) (ts_dw s) tt
  else if v =? 12 then mkTsty (ts_color s) (Some false) (Some false) (Some false) tt
  else if v =? 13 then mkTsty (ts_color s) (Some true) (ts_ds s) (ts_dw s) tt
  else if v =? 14 then mkTsty (ts_color s) (ts_dh s) (ts_ds s) (Some true) tt
  else if v =? 15 then mkTsty (ts_color s) (ts_dh s) (Some true) (ts_dw s) tt
  else s.
(* does the attribute begin a new run given the style in force?  A colour code repeating the colour in
   force does not, unless a size attribute is in force *)
Definition code_effective (s : tsty unit) (v : N) : bool :=
  (12 <=? v) || negb (opt_eqb (Some v) (ts_color s)) || t_is_some (ts_dh s) || t_is_some (ts_ds s) || t_is_some (ts_dw s).

(* the text of a segment in character table c *)
Definition seg_text (c : list str) (cells : list N) : str :=
  flat_map (fun v => nth (N.to_nat (v - 32)) c []) cells.

(* the runs a row denotes: one per segment with non-blank text *)
Fixpoint seg_runs (c : list str) (s : tsty unit) (segs : list rseg) : list trunT :=
  match segs with
  | [] => []
  | g :: r =>
    let s' := fold_left apply_code (sg_codes g) s in
    let txt := seg_text c (sg_cells g) in
    match trim_space txt with
    | [] => seg_runs c s' r
    | t => mkTrun t s' (count_lead 32 txt) (count_lead 32 (rev txt)) :: seg_runs c s' r
    end
  end.
Definition row_runs (c : list str) (r : rowspec) : list trunT := seg_runs c (tsty0 unit tt) (rw_segs r).

(* every segment after the first begins with an attribute that starts a new run; cells are text cells *)
Fixpoint segs_ok (first : bool) (s : tsty unit) (segs : list rseg) : bool :=
  match segs with
  | [] => true
  | g :: r =>
    forallb is_attr (sg_codes g) && forallb is_text_cell (sg_cells g)
    && (first || match sg_codes g with v :: _ => code_effective s v | [] => false end)
    && segs_ok false (fold_left apply_code (sg_codes g) s) r
  end.
Definition junk_cell (v : N) : bool := negb (is_attr v) && negb (v =? 11) && negb (v =? 10).
Definition rowspec_ok (r : rowspec) : bool :=
  forallb junk_cell (rw_pre r) && segs_ok true (tsty0 unit tt) (rw_segs r)
  && match rw_end r with Some j => forallb (fun v => negb (is_attr v) && negb (v =? 11)) j | None => true end.
