(* Specification side of C06, written from ETS 300 706 / EN 300 472 and independent of the library's tables:
   the Hamming 8/4 and odd-parity encoders, bit order, the data-unit / packet / header / row encoders, ground-truth
   page schedules, the multiplexing choices and the cues a schedule denotes.  Definitions only. *)
From Coq Require Import List ZArith NArith Bool.
From Astisub Require Import Kit.Base Kit.Str Kit.GoMap Model.TtxRow Model.Ttx Model.TtxStd Model.TtxHam.
Import ListNotations.
Open Scope N_scope.

(* ---- byte-level coding ---- *)
Definition bit (n : N) (i : N) : N := N.land (N.shiftr n i) 1.

(* Hamming 8/4 (ETS 300 706 8.2): bits P1 D1 P2 D2 P3 D3 P4 D4 in transmission order, the first transmitted bit
   being the most significant bit of the byte in the PES payload *)
Definition ham84_enc (n : N) : N :=
  let d1 := bit n 0 in let d2 := bit n 1 in let d3 := bit n 2 in let d4 := bit n 3 in
  let p1 := N.lxor 1 (N.lxor d1 (N.lxor d3 d4)) in
  let p2 := N.lxor 1 (N.lxor d1 (N.lxor d2 d4)) in
  let p3 := N.lxor 1 (N.lxor d1 (N.lxor d2 d3)) in
  let p4 := N.lxor 1 (N.lxor p1 (N.lxor d1 (N.lxor p2 (N.lxor d2 (N.lxor p3 (N.lxor d3 d4)))))) in
  p1 * 128 + d1 * 64 + p2 * 32 + d2 * 16 + p3 * 8 + d3 * 4 + p4 * 2 + d4.

(* the byte with its bits in reverse order *)
Definition brev8 (b : N) : N :=
  bit b 0 * 128 + bit b 1 * 64 + bit b 2 * 32 + bit b 3 * 16 + bit b 4 * 8 + bit b 5 * 4 + bit b 6 * 2 + bit b 7.

Definition ones8 (b : N) : N := bit b 0 + bit b 1 + bit b 2 + bit b 3 + bit b 4 + bit b 5 + bit b 6 + bit b 7.

(* a 7-bit character with odd parity in bit 8, transmitted least significant bit first *)
Definition par_enc (c : N) : N :=
  let c7 := N.land c 127 in
  brev8 (if N.even (ones8 c7) then c7 + 128 else c7).

(* what a transmitted byte denotes: the 7-bit character when the parity is odd, nothing otherwise *)
Definition cell_spec (x : N) : option N :=
  let b := brev8 x in if N.odd (ones8 b) then Some (N.land b 127) else None.

(* Hamming 8/4 decoding as the standard intends it: the nibble whose code word is at distance at most one (single
   errors corrected), none when there is no such nibble (double errors detected) *)
Definition hdist (a b : N) : N := ones8 (N.lxor a b).
Definition nibbles : list N := [0;1;2;3;4;5;6;7;8;9;10;11;12;13;14;15].
Definition ham84_dec (b : N) : option N :=
  if b <? 256 then find (fun n => hdist (ham84_enc n) b <=? 1) nibbles else None.
(* the stored cell of a transmitted byte: failing parity gives 0 *)
Definition cell0 (x : N) : N :=
  if x <? 256 then match cell_spec x with Some c => c | None => 0 end else 0.

(* ---- data units and packets (EN 300 472 4.4, ETS 300 706 7.1) ---- *)
Definition enc_unit (u : N * str) : str := fst u :: N.of_nat (length (snd u)) :: snd u.

(* a teletext packet as the data of a data unit: field/line byte, framing code, address, payload *)
Definition enc_packet (fl mag pkt : N) (payload : str) : str :=
  let h := N.land mag 7 + 8 * pkt in
  fl :: 228 :: ham84_enc (N.land h 15) :: ham84_enc (N.shiftr h 4) :: payload.

(* page header: page units and tens, four sub-code nibbles with the control bits C4..C6, then C7..C10 and
   C11 (magazine serial) C12..C14 (national option) *)
Record hdr := mkHdr {
  h_units : N; h_tens : N;
  h_s1 : N; h_s2 : N; h_s3 : N;
  h_c5 : N;            (* S4 + C5 C6: bit 3 = C6, the subtitle flag *)
  h_c6 : N;            (* C7..C10 *)
  h_c7 : N;            (* bit 0 = C11 serial, bits 1..3 = C12..C14 *)
  h_rest : str         (* the 32 characters of the header row *)
}.
Definition hdr_ok (h : hdr) : bool :=
  (h_units h <? 16) && (h_tens h <? 16) && (h_s1 h <? 16) && (h_s2 h <? 16) && (h_s3 h <? 16) && (h_c5 h <? 16)
  && (h_c6 h <? 16) && (h_c7 h <? 16).
Definition enc_header (h : hdr) : str :=
  [ham84_enc (h_units h); ham84_enc (h_tens h); ham84_enc (h_s1 h); ham84_enc (h_s2 h); ham84_enc (h_s3 h);
   ham84_enc (h_c5 h); ham84_enc (h_c6 h); ham84_enc (h_c7 h)] ++ h_rest h.
(* the page a header announces, as a number: tens*10 + units for decimal pages (the pages a reader can be asked for),
   a code of their own (0x100 + the two hexadecimal digits) for pages with a hexadecimal digit *)
Definition page_code (tens units : N) : Z :=
  Z.of_N (if (9 <? tens) || (9 <? units) then N.lor 256 (N.lor (N.shiftl tens 4) units) else tens * 10 + units).
Definition h_pn (h : hdr) : Z := page_code (h_tens h) (h_units h).
Definition h_subtitle (h : hdr) : bool := 0 <? N.land (h_c5 h) 8.
Definition h_serial (h : hdr) : bool := 0 <? N.land (h_c7 h) 1.
Definition h_cs (h : hdr) : N := N.shiftr (h_c7 h) 1.

Definition enc_row (cells : list N) : str := map par_enc cells.

(* ---- rows as structured runs ---- *)
(* A row is read as: cells in front of the first start box; then, up to the end box (or the end of the row), alternating
   groups of spacing attributes (colour 0..7, size 12..15) and of other cells.  A byte that failed parity is stored as
   0x00, i.e. it reads as the colour attribute "black": it carries no text and, like any colour/size attribute, it ends
   the run in front of it when it changes the style in force. *)
Record rseg := mkRseg { sg_codes : list N; sg_cells : list N }.
Record rowspec := mkRowspec {
  rw_pre : list N;             (* cells in front of the start box: anything but a start box; the spacing attributes among
                                  them apply to the boxed text *)
  rw_boxes : nat;              (* further start-box codes after the first *)
  rw_segs : list rseg;
  rw_end : option (list N)     (* Some junk: end box followed by cells that are not spacing attributes or start box *)
}.
Definition is_attr (v : N) : bool := (v <? 8) || ((12 <=? v) && (v <=? 15)).
(* inside the box every cell that is neither an attribute nor the end box is a text cell: characters 0x20..0x7f give
   text, the other control codes (flash, conceal, mosaics, a repeated start box ...) give none *)
Definition is_text_cell (v : N) : bool := negb (is_attr v) && negb (v =? 10) && (v <? 128).
Definition row_cells (r : rowspec) : list N :=
  rw_pre r ++ 11 :: repeat 11 (rw_boxes r) ++ flat_map (fun s => sg_codes s ++ sg_cells s) (rw_segs r)
  ++ match rw_end r with Some j => 10 :: j | None => [] end.

(* the style after a spacing attribute *)
Definition apply_code (s : tsty unit) (v : N) : tsty unit :=
  if v <? 8 then mkTsty (Some v) (ts_dh s) (ts_ds s) (ts_dw s) tt
  else if v =? 12 then mkTsty (ts_color s) (Some false) (Some false) (Some false) tt
  else if v =? 13 then mkTsty (ts_color s) (Some true) (ts_ds s) (ts_dw s) tt
  else if v =? 14 then mkTsty (ts_color s) (ts_dh s) (ts_ds s) (Some true) tt
  else if v =? 15 then mkTsty (ts_color s) (ts_dh s) (Some true) (ts_dw s) tt
  else s.
(* does the attribute begin a new run given the style in force?  A colour code repeating the colour in
   force does not, unless a size attribute is in force *)
Definition code_effective (s : tsty unit) (v : N) : bool :=
  (12 <=? v) || negb (opt_eqb (Some v) (ts_color s)) || t_is_some (ts_dh s) || t_is_some (ts_ds s) || t_is_some (ts_dw s).

(* the text of a cell and of a group of cells in character table c *)
Definition cell_text (c : list str) (v : N) : str := if v <? 32 then [] else nth (N.to_nat (v - 32)) c [].
Definition seg_text (c : list str) (cells : list N) : str := flat_map (cell_text c) cells.

(* the run made of the text collected so far: trimmed, none when blank *)
Definition run_of (txt : str) (s : tsty unit) : list trunT :=
  match trim_space txt with
  | [] => []
  | t => [mkTrun t s (count_lead 32 txt) (count_lead 32 (rev txt))]
  end.
(* the runs of the groups: a group whose attributes change the style in force ends the run in front of it; otherwise
   (no attribute, or only repetitions of the colour in force) its text continues that run *)
Fixpoint seg_runs (c : list str) (s : tsty unit) (pend : str) (segs : list rseg) : list trunT :=
  match segs with
  | [] => run_of pend s
  | g :: r =>
    if existsb (code_effective s) (sg_codes g)
    then run_of pend s ++ seg_runs c (fold_left apply_code (sg_codes g) s) (seg_text c (sg_cells g)) r
    else seg_runs c s (pend ++ seg_text c (sg_cells g)) r
  end.
Definition pre_style (r : rowspec) : tsty unit := fold_left apply_code (filter is_attr (rw_pre r)) (tsty0 unit tt).
Definition row_runs (c : list str) (r : rowspec) : list trunT := seg_runs c (pre_style r) [] (rw_segs r).

Definition segs_ok (segs : list rseg) : bool :=
  forallb (fun g => forallb is_attr (sg_codes g) && forallb is_text_cell (sg_cells g)) segs.
Definition junk_cell (v : N) : bool := negb (v =? 11).
Definition rowspec_ok (r : rowspec) : bool :=
  forallb junk_cell (rw_pre r) && segs_ok (rw_segs r)
  && match rw_end r with Some j => forallb (fun v => negb (is_attr v) && negb (v =? 11)) j | None => true end.

(* ---- what a data unit is, read with the standard's decoders ---- *)
(* magazine (1..8), packet number and payload of a subtitle data unit carrying a teletext packet *)
Definition unit_addr (u : N * str) : option (N * N * str) :=
  let d := snd u in
  if negb (fst u =? 3) then None else
  if Nat.ltb (length d) 4 then None else
  if negb (nth 1 d 0 =? 228) then None else
  match ham84_dec (nth 2 d 0), ham84_dec (nth 3 d 0) with
  | Some h1, Some h2 =>
    let h := N.land (N.lor (N.shiftl h2 4) h1) 255 in
    Some ((let m := N.land h 7 in if m =? 0 then 8 else m), N.shiftr h 3, skipn 4 d)
  | _, _ => None
  end.
(* page digits of a header packet; None: too short, uncorrectable, or the time-filling page FF *)
Definition hdr_digits (p : str) : option (N * N) :=
  if Nat.ltb (length p) 8 then None else
  match ham84_dec (nth 0 p 0), ham84_dec (nth 1 p 0) with
  | Some u, Some t => if (t =? 15) && (u =? 15) then None else Some (u, t)
  | _, _ => None
  end.
(* page number, serial flag and national option of a header packet that can be acted upon *)
Definition hdr_full (p : str) : option (Z * bool * N) :=
  match hdr_digits p with
  | None => None
  | Some (u, t) =>
    match ham84_dec (nth 7 p 0) with
    | None => None
    | Some cb => Some (page_code t u, 0 <? N.land cb 1, N.shiftr cb 1)
    end
  end.
(* does a header carry the subtitle flag (C6)?  None: the control byte is uncorrectable *)
Definition hdr_c6 (p : str) : option bool :=
  match ham84_dec (nth 5 p 0) with Some cb => Some (0 <? N.land cb 8) | None => None end.

(* an X/28 or M/29 payload that leaves the character set designation alone *)
(* the first triplet of an X/28 or M/29 packet: three bytes protected by Hamming 24/18 (Model/TtxHam.v), each stored in
   the PES payload with its first transmitted bit in the most significant position (EN 300 472) *)
Definition triplet_of (p : str) : option N :=
  ham2418_dec (brev8 (N.land (nth 0 p 0) 255)) (brev8 (N.land (nth 1 p 0) 255)) (brev8 (N.land (nth 2 p 0) 255)).
(* an X/28 or M/29 payload that leaves the character set designation alone: no designation code, one other than 0 and 4,
   no complete triplet, a triplet with an uncorrectable (double) error, or an X/28 packet of another format than 1 *)
Definition triplet_inert (pkt : N) (p : str) : bool :=
  Nat.ltb (length p) 1 ||
  match ham84_dec (nth 0 p 0) with
  | None => true
  | Some dc => (negb (dc =? 0) && negb (dc =? 4)) || Nat.ltb (length (tl p)) 3
               || match triplet_of (tl p) with
                  | None => true
                  | Some t => (pkt =? 28) && (0 <? N.land t 15)
                  end
  end.

(* the character set designation bits of a first triplet, as the reader keys its table with them *)
Definition triplet_key (t : N) : N := N.land (N.shiftr (N.land t 16256) 10) 255.
(* an X/28 (format 1) or M/29 packet of the selected magazine with designation code 0 or 4 and a first triplet that
   decodes (no error, or a single corrected one): it designates a character set through the data bits 8..14 of the triplet *)
Definition desig_ok (mag0 : N) (u : N * str) : bool :=
  match unit_addr u with
  | Some (mag, pkt, p) =>
    (mag =? mag0) && ((pkt =? 28) || (pkt =? 29)) && negb (Nat.ltb (length p) 1)
    && match ham84_dec (nth 0 p 0) with
       | Some dc => ((dc =? 0) || (dc =? 4)) && negb (Nat.ltb (length (tl p)) 3)
                    && match triplet_of (tl p) with
                       | Some t => negb ((pkt =? 28) && (0 <? N.land t 15))
                       | None => false
                       end
       | None => false
       end
  | None => false
  end.
(* its packet number and the 18 data bits of its first triplet *)
Definition desig_of (u : N * str) : N * N :=
  match unit_addr u with
  | Some (_, pkt, p) => (pkt, match triplet_of (tl p) with Some t => t | None => 0 end)
  | None => (0, 0)
  end.
(* one that keeps the default designation *)
Definition neutral_unit (mag0 : N) (u : N * str) : bool := desig_ok mag0 u && (triplet_key (snd (desig_of u)) =? 0).

(* The designations on record: (last X/28 triplet, last M/29 triplet).  While our page is being received both kinds are
   recorded; otherwise only M/29 (an X/28 belongs to a page, and no page of ours is open). *)
Definition dstate : Type := (option N * option N)%type.
Definition desig_recv (mag0 : N) (st : dstate) (u : N * str) : dstate :=
  if desig_ok mag0 u then (if fst (desig_of u) =? 28 then (Some (snd (desig_of u)), snd st) else (fst st, Some (snd (desig_of u)))) else st.
Definition desig_idle (mag0 : N) (st : dstate) (u : N * str) : dstate :=
  if desig_ok mag0 u then (if fst (desig_of u) =? 28 then st else (fst st, Some (snd (desig_of u)))) else st.
(* the triplet that decides the character set: the X/28 one if any was recorded, else the M/29 one, else the default *)
Definition dstate_triplet (st : dstate) : N :=
  match fst st with Some t => t | None => match snd st with Some t => t | None => 0 end end.

(* classes of data units relative to the selected page (mag0, pn0) *)
Definition is_our_header (mag0 : N) (pn0 : Z) (cs : N) (u : N * str) : bool :=
  match unit_addr u with
  | Some (mag, pkt, p) =>
    (mag =? mag0) && (pkt =? 0) &&
    match hdr_full p with Some (pn, _, c) => (pn =? pn0)%Z && (c =? cs) | None => false end
  | None => false
  end.
Definition is_our_row (mag0 : N) (row : N) (cells : list N) (u : N * str) : bool :=
  match unit_addr u with
  | Some (mag, pkt, p) =>
    (mag =? mag0) && (pkt =? row) && (1 <=? pkt) && (pkt <=? 25) && negb (Nat.ltb (length p) 40)
    && str_eqb (map cell0 (firstn 40 p)) cells
  | None => false
  end.
(* the header of another page that ends the reception of ours: same magazine, or any magazine in serial mode *)
Definition is_terminator (mag0 : N) (pn0 : Z) (u : N * str) : bool :=
  match unit_addr u with
  | Some (mag, pkt, p) =>
    (pkt =? 0) && match hdr_full p with Some (pn, serial, _) => negb (pn =? pn0)%Z && (serial || (mag =? mag0)) | None => false end
  | None => false
  end.
(* units that cannot matter while the page is selected, whether it is being received or not: non-subtitle and
   stuffing units, wrong framing code, too short, uncorrectable address; headers that cannot be acted upon; headers
   of other magazines in parallel mode or with our page number; packets 1..25 of other magazines (or too short);
   X/26, X/27, X/30, X/31 of any magazine; X/28 and M/29 of other magazines or inert *)
Definition benign (mag0 : N) (pn0 : Z) (u : N * str) : bool :=
  match unit_addr u with
  | None => true
  | Some (mag, pkt, p) =>
    if pkt =? 0 then
      match hdr_full p with
      | None => true
      | Some (pn, serial, _) => negb (mag =? mag0) && ((pn =? pn0)%Z || negb serial)
      end
    else if pkt <=? 25 then negb (mag =? mag0) || Nat.ltb (length p) 40
    else if (pkt =? 28) || (pkt =? 29) then negb (mag =? mag0) || triplet_inert pkt p
    else true
  end.
(* units that cannot matter while our page is not being received: anything but its header (and M/29 designations) *)
Definition dead_ok (mag0 : N) (pn0 : Z) (u : N * str) : bool :=
  match unit_addr u with
  | None => true
  | Some (mag, pkt, p) =>
    if pkt =? 0 then
      match hdr_full p with
      | None => true
      | Some (pn, _, _) => negb ((mag =? mag0) && (pn =? pn0)%Z)
      end
    else if pkt =? 29 then negb (mag =? mag0) || triplet_inert pkt p
    else true
  end.
(* before a page has been selected (auto-detection): anything but a header carrying the subtitle flag *)
Definition unselected_ok (u : N * str) : bool :=
  match unit_addr u with
  | None => true
  | Some (mag, pkt, p) =>
    if pkt =? 0 then
      match hdr_digits p with
      | None => true
      | Some _ => match hdr_c6 p with Some true => false | _ => true end
      end
    else true
  end.

(* ---- ground-truth page schedules ---- *)
(* one transmitted instance of the page: presentation time of the PES packet that carries its header, national
   option, rows (row number, structured row of 40 cells) *)
Record inst := mkInst { i_t : Z; i_cs : N; i_rows : list (N * rowspec) }.
Record sched := mkSched { s_mag : N; s_pn : Z; s_insts : list inst }.

(* the character table of national option cs under the default designation: the G0 set with the option's 13
   characters substituted, as the generated tables have it *)
(* The meaning of a character cell is read off the STANDARD's tables (Model/TtxStd.v, written by hand from ETS 300 706)
   wherever they are complete -- every Latin designation except the Turkish sub-set -- and off the library's own table
   (Gen/TtxTables.v) for the rest (Turkish, Cyrillic, Greek: asserted only in part; reserved designations; Arabic and Hebrew:
   not implemented).  Proofs/TtxStdProofs.v shows that the library's tables agree with every asserted standard entry. *)
Definition g_table (tr cs : N) : list str :=
  match std_text_table (triplet_key tr) cs with
  | Some t => t
  | None => match charset_for tr cs with Ok c => c | _ => [] end
  end.
Definition g0_table (cs : N) : list str := g_table 0 cs.

(* the lines of an instance: its rows in row order, each row's runs, rows without text dropped *)
Fixpoint lines_for (c : list str) (rows : list (N * rowspec)) (keys : list N) : list (list trunT) :=
  match keys with
  | [] => []
  | k :: r =>
    match alookup k rows with
    | Some sp => match row_runs c sp with [] => lines_for c rows r | runs => runs :: lines_for c rows r end
    | None => lines_for c rows r
    end
  end.
Definition inst_lines (c : list str) (rows : list (N * rowspec)) : list (list trunT) :=
  lines_for c rows (nsort (map fst rows)).

(* the cues a schedule denotes: one per instance with rows, from its presentation time to the next instance's
   (the last presentation time for the final one), relative to the first presentation time *)
(* tr: the first triplet of the character set designation in force when the pages are parsed, which the reader does after
   the whole stream has been read: the LAST designation received applies to every page, earlier ones included (0 = none
   received: default designation) *)
Fixpoint cues_from (tr : N) (first last : Z) (l : list inst) : list tcue :=
  match l with
  | [] => []
  | i :: r =>
    let en := match r with j :: _ => i_t j | [] => last end in
    match i_rows i with
    | [] => cues_from tr first last r
    | _ => mkTcue (i_t i - first) (en - first) (inst_lines (g_table tr (i_cs i)) (i_rows i)) :: cues_from tr first last r
    end
  end.
Definition cues_of (s : sched) (first last : Z) (tr : N) : list tcue := cues_from tr first last (s_insts s).

(* ---- multiplexing choices ---- *)
Definition tunit := (Z * (N * str))%type.     (* a data unit with the time of the PES packet it travels in *)
Record imux := mkImux {
  im_hdr : N * str;                           (* the unit carrying the instance's header *)
  im_body : list (Z * (bool * (N * str)));    (* while receiving: (true, u) the next row, (false, u) a unit that cannot matter *)
  im_tail : option (tunit * list tunit)       (* the header of another page ending the reception, then anything but our header *)
}.
Record mux := mkMux { mx_pre : list tunit; mx_insts : list imux }.

Definition inst_events (im : inst * imux) : list tunit :=
  let (i, m) := im in
  (i_t i, im_hdr m) :: map (fun x => (fst x, snd (snd x))) (im_body m)
  ++ match im_tail m with Some (tm, dead) => tm :: dead | None => [] end.
Definition events (s : sched) (m : mux) : list tunit :=
  mx_pre m ++ flat_map inst_events (combine (s_insts s) (mx_insts m)).

Fixpoint body_ok (mag0 : N) (pn0 : Z) (rows : list (N * rowspec)) (body : list (Z * (bool * (N * str)))) : bool :=
  match body with
  | [] => match rows with [] => true | _ => false end
  | (_, (true, u)) :: r =>
    match rows with
    | (row, sp) :: rs => is_our_row mag0 row (row_cells sp) u && body_ok mag0 pn0 rs r
    | [] => false
    end
  | (_, (false, u)) :: r => (benign mag0 pn0 u || desig_ok mag0 u) && body_ok mag0 pn0 rows r
  end.
Fixpoint nodupN (l : list N) : bool := match l with [] => true | x :: r => negb (nmem x r) && nodupN r end.
Definition inst_mux_ok (mag0 : N) (pn0 : Z) (im : inst * imux) : bool :=
  let (i, m) := im in
  is_our_header mag0 pn0 (i_cs i) (im_hdr m)
  && nodupN (map fst (i_rows i)) && forallb (fun r => rowspec_ok (snd r) && (fst r <? 256)) (i_rows i)
  && body_ok mag0 pn0 (i_rows i) (im_body m)
  && match im_tail m with
     | Some (tm, dead) => is_terminator mag0 pn0 (snd tm) && forallb (fun x => dead_ok mag0 pn0 (snd x) || desig_ok mag0 (snd x)) dead
     | None => true
     end.
(* the decidable class of multiplexings, for a reader that is given the page *)
Definition mux_ok (s : sched) (m : mux) : bool :=
  (1 <=? s_mag s) && (s_mag s <=? 8) && (0 <=? s_pn s)%Z && (s_pn s <=? 99)%Z
  && Nat.eqb (length (s_insts s)) (length (mx_insts m))
  && forallb (fun x => dead_ok (s_mag s) (s_pn s) (snd x) || desig_ok (s_mag s) (snd x)) (mx_pre m)
  && forallb (inst_mux_ok (s_mag s) (s_pn s)) (combine (s_insts s) (mx_insts m)).
(* and for a reader that has to find the page: nothing carrying the subtitle flag in front of our first header,
   which carries it *)
Definition mux_ok_auto (s : sched) (m : mux) : bool :=
  (1 <=? s_mag s) && (s_mag s <=? 8) && (0 <=? s_pn s)%Z && (s_pn s <=? 99)%Z
  && Nat.eqb (length (s_insts s)) (length (mx_insts m))
  && forallb (fun x => unselected_ok (snd x)) (mx_pre m)
  && match mx_insts m with
     | im :: _ => match unit_addr (im_hdr im) with Some (_, _, p) => match hdr_c6 p with Some true => true | _ => false end | None => false end
     | [] => true
     end
  && forallb (inst_mux_ok (s_mag s) (s_pn s)) (combine (s_insts s) (mx_insts m)).

(* the designation in force after the whole stream (the page is given: M/29 packets count from the start; the page is
   auto-detected: nothing counts before the first header of ours has selected the magazine) *)
Definition desig_inst (mag0 : N) (st : dstate) (im : imux) : dstate :=
  let st1 := fold_left (fun a x => desig_recv mag0 a (snd (snd x))) (im_body im) st in
  match im_tail im with
  | Some (_, dead) => fold_left (fun a x => desig_idle mag0 a (snd x)) dead st1
  | None => st1
  end.
Definition desig_final (auto : bool) (mag0 : N) (m : mux) : N :=
  let st0 := if auto then (None, None) else fold_left (fun a x => desig_idle mag0 a (snd x)) (mx_pre m) (None, None) in
  dstate_triplet (fold_left (desig_inst mag0) (mx_insts m) st0).

(* the delivered list.  What the demuxer hands over for one PES packet of the teletext PID is one of:
   - PUnits t ident us trail: an EBU teletext payload (data identifier 0x10..0x1f) with presentation time t carrying the
     complete data units us, possibly followed by a truncated last unit (trail: fewer than two bytes, or a length byte
     that runs past the end of the payload);
   - PNoTime payload: a PES packet for which no time can be computed (the zero time): dropped altogether, it does not
     even move the first/last presentation time;
   - PInert t payload: an empty payload, or one whose data identifier is outside 0x10..0x1f: nothing of it is read, but
     its time takes part in the first and last presentation time, as in the code.
   The units of the PUnits packets, in order, are the events of the schedule and multiplexing. *)
Inductive pes :=
| PUnits (t : Z) (ident : N) (us : list (N * str)) (trail : str)
| PNoTime (payload : str)
| PInert (t : Z) (payload : str).
Definition enc_pes (p : pes) : option Z * str :=
  match p with
  | PUnits t ident us trail => (Some t, ident :: concat (map enc_unit us) ++ trail)
  | PNoTime payload => (None, payload)
  | PInert t payload => (Some t, payload)
  end.
Definition pes_units (p : pes) : list tunit :=
  match p with PUnits t _ us _ => map (fun u => (t, u)) us | _ => [] end.
Definition trail_ok (g : str) : bool :=
  match g with _ :: len :: rest => Nat.ltb (length rest) (N.to_nat len) | _ => true end.
Definition pes_ok (p : pes) : bool :=
  match p with
  | PUnits _ ident _ trail => (16 <=? ident) && (ident <=? 31) && trail_ok trail
  | PNoTime _ => true
  | PInert _ payload => match payload with [] => true | ident :: _ => negb ((16 <=? ident) && (ident <=? 31)) end
  end.
Definition pes_time (p : pes) : option Z :=
  match p with PUnits t _ _ _ => Some t | PNoTime _ => None | PInert t _ => Some t end.
(* first / last presentation time: minimum / maximum over the packets that have a time *)
Fixpoint tmin (l : list pes) (acc : option Z) : option Z :=
  match l with
  | [] => acc
  | p :: r => tmin r (match pes_time p with
                      | Some t => Some (match acc with Some x => if (t <? x)%Z then t else x | None => t end)
                      | None => acc end)
  end.
Fixpoint tmax (l : list pes) (acc : option Z) : option Z :=
  match l with
  | [] => acc
  | p :: r => tmax r (match pes_time p with
                      | Some t => Some (match acc with Some x => if (x <? t)%Z then t else x | None => t end)
                      | None => acc end)
  end.
