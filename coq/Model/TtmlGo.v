(* WriteToTTML's bytes with EscapeText modelled exactly (U+FFFD for characters that are not XML-legal and for
   invalid UTF-8), and the legality of a document value: the domain on which it coincides with [write_ttml_bytes]
   and on which the written document can denote the value at all.  Definitions only. *)
From Coq Require Import List ZArith NArith Bool.
From Astisub Require Import Kit.Base Kit.Str Kit.Xml Kit.XmlEsc Model.Dur Model.Ttml.
Import ListNotations.

Definition write_ttml_bytes_go (ind : str) (d : tdoc) : res str :=
  do t <- write_ttml d; Ok (print_node_go print_name ind 0 t).

Definition legal_ostr (o : option str) : bool := match o with Some s => xml_legal s | None => true end.
Definition legal_attrs (a : tattrs) : bool := forallb legal_ostr (ta_s a).
Definition legal_style (s : tstyle) : bool := xml_legal (ts_id s) && legal_ostr (ts_ref s) && legal_attrs (ts_attrs s).
Definition legal_run (r : trun) : bool := xml_legal (tr_txt r) && legal_ostr (tr_style r) && legal_attrs (tr_attrs r).
Definition legal_item (it : titem) : bool :=
  legal_ostr (ti_region it) && legal_ostr (ti_style it) && legal_attrs (ti_attrs it)
  && forallb (forallb legal_run) (ti_lines it).
Definition legal_doc (d : tdoc) : bool :=
  match td_meta d with Some m => xml_legal (tm_title m) && xml_legal (tm_copyright m) | None => true end
  && forallb (fun kv => legal_style (snd kv)) (td_styles d) && forallb (fun kv => legal_style (snd kv)) (td_regions d)
  && forallb legal_item (td_items d).
