(* Teletext in the plain view of C07 (Model/Plain.v): teletext is a source format only.  The "document" of the codec is
   the delivered list of the reader model (Model/Ttx.v): (time, PES payload) pairs.
   ttx_enc writes a plain cue list the way a subtitle inserter would: one instance of page 888 per cue at its start time
   (header with the subtitle flag, national option 0, parallel mode; one row per line at rows 1, 2, ...: two start boxes,
   the text, an end box, padding), and at its end an erase page (a header without rows) unless the next cue begins at
   that very time; one PES packet per instance.  ttx_dec is the reader with page auto-detection (what the library does
   for a .ts file without options) followed by the plain view of its cues.  Definitions only. *)
From Coq Require Import List ZArith NArith Bool.
From Astisub Require Import Kit.Base Kit.Str Model.TtxRow Model.Ttx Model.TtxSpec Model.Plain.
Import ListNotations.
Open Scope N_scope.

(* the document type of the teletext codec *)
Definition ttx_doc : Type := list (option Z * str).

(* page 888: magazine 8 (sent as 0), tens 8, units 8; S4/C6 = 8: subtitle flag; C11..C14 = 0: parallel mode, option 0 *)
Definition ttx_hdr : hdr := mkHdr 8 8 0 0 0 8 0 0 (repeat (par_enc 32) 32).
Definition ttx_hdr_unit : N * str := (3, enc_packet 231 8 0 (enc_header ttx_hdr)).
Definition ttx_row_unit (row : N) (cells : list N) : N * str := (3, enc_packet 231 8 row (enc_row cells)).

(* a line of text as a row: start box twice, one cell per byte, end box, spaces up to 40 cells *)
Definition line_row (t : str) : rowspec := mkRowspec [] 1 [mkRseg [] t] (Some (repeat 32 (37 - length t))).
Fixpoint number (k : N) (l : list rowspec) : list (N * rowspec) :=
  match l with [] => [] | r :: t => (k, r) :: number (k + 1) t end.
Definition inst_of (t : Z) (ls : list str) : inst := mkInst t 0 (number 1 (map line_row ls)).
Definition erase_at (t : Z) : inst := mkInst t 0 [].

(* the schedule a plain cue list denotes *)
Fixpoint insts_of_plain (p : plain) : list inst :=
  match p with
  | [] => []
  | (s, e, ls) :: r =>
    inst_of s ls ::
    (match r with
     | (s', _, _) :: _ => if (e =? s')%Z then [] else [erase_at e]
     | [] => [erase_at e]
     end) ++ insts_of_plain r
  end.
Definition sched_of_plain (p : plain) : sched := mkSched 8 88 (insts_of_plain p).

(* its plainest multiplexing: nothing but our own units, every unit of an instance in one PES packet with its time *)
Definition imux_of (i : inst) : imux :=
  mkImux ttx_hdr_unit (map (fun r => (i_t i, (true, ttx_row_unit (fst r) (row_cells (snd r))))) (i_rows i)) None.
Definition mux_of_plain (p : plain) : mux := mkMux [] (map imux_of (insts_of_plain p)).
Definition pes_of (i : inst) : pes :=
  PUnits (i_t i) 16 (ttx_hdr_unit :: map (fun r => ttx_row_unit (fst r) (row_cells (snd r))) (i_rows i)) [].

Definition ttx_enc (p : plain) : res ttx_doc := Ok (map enc_pes (map pes_of (insts_of_plain p))).

(* the plain view of the reader's cues: per line the texts of its runs put together *)
Definition ttx_to_plain (cs : list tcue) : plain :=
  map (fun c => (c_st c, c_en c, map (fun runs => concat (map (fun r => tr_text r) runs)) (c_lines c))) cs.
Definition ttx_dec (d : ttx_doc) : res plain :=
  match ttx_feed 0 d with Ok cs => Ok (ttx_to_plain cs) | Err k => Err k | Panic q => Panic q end.

(* ---- representability ---- *)
(* a byte that is a G0 cell decoding to itself under national option 0 (letters, digits and the punctuation that the
   English option leaves alone) *)
Definition ident_cell (b : N) : bool :=
  (32 <=? b) && (b <? 128) && str_eqb (nth (N.to_nat (b - 32)) (g0_table 0) []) [b].
(* a line: 1..37 such bytes (40 cells with the two start boxes and the end box), no space at either end (the reader trims) *)
Definition line_okb (t : str) : bool :=
  negb (Nat.eqb (length t) 0) && Nat.leb (length t) 37 && forallb ident_cell t
  && negb (hd 0 t =? 32) && negb (last t 0 =? 32).
(* a cue: 0 <= start <= end on the millisecond grid, 1..24 lines *)
Definition cue_okb (c : pcue) : bool :=
  let '(s, e, ls) := c in
  (0 <=? s)%Z && (s <=? e)%Z && (s mod 1000000 =? 0)%Z && (e mod 1000000 =? 0)%Z
  && negb (Nat.eqb (length ls) 0) && Nat.leb (length ls) 24 && forallb line_okb ls.
(* one page on screen at a time: a cue ends before (or when) the next begins *)
Fixpoint chain_okb (p : plain) : bool :=
  match p with
  | (_, e, _) :: (((s', _, _) :: _) as r) => (e <=? s')%Z && chain_okb r
  | _ => true
  end.
(* times are relative to the first presentation time of the stream: the first cue starts at 0 *)
Definition ttx_plain_okb (p : plain) : bool :=
  match p with (s, _, _) :: _ => (s =? 0)%Z | [] => true end && forallb cue_okb p && chain_okb p.
Definition ttx_plain_ok (p : plain) : Prop := ttx_plain_okb p = true.
