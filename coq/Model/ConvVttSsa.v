(* Conversion WebVTT -> SSA/ASS as the library does it for STYLED sources (C07): ReadFromWebVTT fills the shared cue list,
   WriteToSSA writes what it looks at.  Transcribed from webvtt.go (ReadFromWebVTT, parseTextWebVTT), subtitles.go
   (propagateWebVTTAttributes copies WebVTT attributes to the SubRip ones only) and ssa.go (WriteToSSA, newSSAScriptInfo,
   newSSAStyleFromStyle, newSSAEventFromItem):

     what WriteToSSA reads                     what ReadFromWebVTT put there
     ----------------------------------------  ------------------------------------------------------------------------
     Metadata: Comments, Title, SSA fields     Metadata is nil, or holds the timestamp map only: an empty script info
                                               block (NOTE comments live on the items, the SSA writer ignores them)
     Metadata.SSAScriptType = v4.00+ ?         no: [V4 Styles] header, first event column Marked
     Styles map                                empty, or - when the file has a STYLE block - the one entry
                                               astisub-webvtt-default-style-id, whose InlineStyle holds WebVTTStyles only:
                                               a styles section with the format  Name  and one row with that name
     Item.StartAt / EndAt                      the cue times
     Item.Style                                nil: empty Style column
     Item.InlineStyle: SSAEffect, SSALayer,    non-nil (cue settings only): empty Effect column, Marked=0, margins 0
       SSAMargin*, SSAMarked
     Line.VoiceName                            the annotation of the first voice tag of the line; the Name column is the
                                               last non-empty one among the lines of the cue
     LineItem.InlineStyle.SSAEffect            InlineStyle is nil, or non-nil with the tag stack only: no override block
     LineItem.Text                             the (unescaped) text of the run; tags, classes, inline timestamps, cue
                                               settings, regions and comments do not reach the SSA writer

   So: per cue one Dialogue row, times to the centisecond, Text = per line the run texts one after the other, lines
   joined by the two bytes backslash n.  Definitions only (proofs: Proofs/ConvVttSsaProofs.v). *)
From Coq Require Import List ZArith NArith Bool.
From Astisub Require Import Kit.Base Kit.Str Model.Vtt Model.Ssa Model.Conv.
Import ListNotations.

(* a run: InlineStyle nil (no tag open) or non-nil with an empty SSAEffect *)
Definition vttssa_run (r : vrun) : arun :=
  mkArun (vr_text r) (match vr_tags r with Some _ => Some [] | None => None end).
Definition vttssa_line (l : vline) : aline := mkAline (vl_voice l) (map vttssa_run (vl_runs l)).
Definition aevattr0 : aevattr := mkAevattr [] None None None None None.
(* Item.Style is nil for every cue the WebVTT reader returns *)
Definition vttssa_item (i : vitem) : aitem :=
  mkAitem (vi_st i) (vi_en i) None (match vi_set i with Some _ => Some aevattr0 | None => None end)
          (map vttssa_line (vi_lines i)).
(* the styles map: the reader's keys are the styles' IDs; no SSA attribute is set *)
Definition vttssa_styles (m : list (str * option (list str))) : list (str * option astyle) :=
  map (fun p : str * option (list str) => (fst p, Some (set_name (fst p) astyle0))) m.
Definition conv_vtt_ssa (d : vdoc) : adoc :=
  mkAdoc (match vd_tsmap d with Some _ => Some ainfo0 | None => None end)
         (vttssa_styles (vd_styles d)) (map vttssa_item (vd_items d)).

(* file to file; the SSA writer ranges over the styles map *)
Definition convert_vtt_ssa (data : str) : res str :=
  match read_vtt data with
  | Ok d => write_ssa (conv_vtt_ssa d) (style_keys (conv_vtt_ssa d))
  | Err k => Err k
  | Panic p => Panic p
  end.

(* The same cue list with the runs of every line put together: the SSA writer joins the run texts of a line without
   separator and none of these runs has an override block, so that is the document its bytes denote (the SSA reader returns
   one run for a line without override block).  The representability hypothesis of C07_vtt_to_ssa_styled is stated on
   this form. *)
Definition vttssa_line_m (l : vline) : aline := mkAline (vl_voice l) [mkArun (vline_text l) None].
Definition vttssa_item_m (i : vitem) : aitem :=
  mkAitem (vi_st i) (vi_en i) None (match vi_set i with Some _ => Some aevattr0 | None => None end)
          (map vttssa_line_m (vi_lines i)).
Definition conv_vtt_ssa_m (d : vdoc) : adoc :=
  mkAdoc (match vd_tsmap d with Some _ => Some ainfo0 | None => None end)
         (vttssa_styles (vd_styles d)) (map vttssa_item_m (vd_items d)).
