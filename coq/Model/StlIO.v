(* stl.go under delivery schedules and I/O faults (C17, C18): ReadFromSTL with the blocks obtained through readNBytes
   (io.ReadFull) under an arbitrary schedule of read sizes; the same on a stream that fails (an error that is not
   end-of-file) after the bytes it could deliver; WriteToSTL as its sequence of Write calls.  Definitions only. *)
From Coq Require Import List ZArith NArith Bool.
From Astisub Require Import Kit.Base Kit.Str Kit.Scan Kit.IOW Model.Dur Model.Stl Gen.StlTables.
Import ListNotations.

(* one TTI block processed: shared by the loops below (what tti_loop does between two block reads) *)
Definition tti_step (g : gsi) (tcp : Z) (acc : option N) (items : list ritem) (p : str) : res (option N * list ritem) :=
  let t := parse_tti p (g_fps g) in
  if (t_ebn t =? 254)%Z then Ok (acc, items)
  else
    let rows := split_byte 138 (t_text t) in
    if str_eqb (g_dsc g) stl_s_dscOpen then
      do x <- rows_open rows acc [];
      let '(lines, acc') := x in Ok (acc', item_of g tcp t (length rows) lines :: items)
    else
      let '(lines, acc') := rows_ttx rows acc [] in Ok (acc', item_of g tcp t (length rows) lines :: items).

(* [counts]: sizes of the successive reads; each readNBytes continues in the schedule where the previous one stopped *)
Fixpoint tti_loop_sched (fuel : nat) (data : str) (counts : list nat) (g : gsi) (tcp : Z) (acc : option N) (items : list ritem)
  : res (list ritem) :=
  match fuel with
  | O => Err EOther
  | S f =>
    match read_n 128 data counts with
    | RnEOF => Ok (rev items)
    | RnShort => Err EIO
    | RnOk p rest cs =>
      do x <- tti_step g tcp acc items p;
      let '(acc', items') := x in tti_loop_sched f rest cs g tcp acc' items'
    end
  end.
Definition stl_doc_of (g : gsi) (tcp : Z) (items : list ritem) : rdoc :=
  mkRdoc (g_fps g) (g_co g) (g_cd g) (g_dsc g) (g_ecd g) (g_en g) (g_mnc g) (g_mnr g) (g_oet g) (g_pub g)
         (g_rd g) (g_rn g) (g_slr g) (g_tet g) (g_tpt g) (g_tcd g) (g_tn g) (g_opt g) tcp
         (match slookup (g_lc g) stl_language with Some l => l | None => [] end) items.
Definition read_stl_sched (ignore_tcp : bool) (data : str) (counts : list nat) : res rdoc :=
  match read_n 1024 data counts with
  | RnOk b rest cs =>
    do g <- parse_gsi b;
    if negb (nmem (g_cct g) stl_tables_existing) then Err EParse
    else
      let tcp := if ignore_tcp then 0%Z else g_tcp g in
      do items <- tti_loop_sched (S (length rest)) rest cs g tcp None [];
      Ok (stl_doc_of g tcp items)
  | _ => Err EIO
  end.

(* a stream that delivers [data] under [counts] and then fails with an error that is not end-of-file: io.ReadFull
   returns that error both when no byte of the block arrived and when the block is incomplete; readNBytes passes it on
   (only io.EOF ends the TTI loop normally) *)
Fixpoint tti_loop_fail (fuel : nat) (data : str) (counts : list nat) (g : gsi) (tcp : Z) (acc : option N) (items : list ritem)
  : res (list ritem) :=
  match fuel with
  | O => Err EOther
  | S f =>
    match read_n 128 data counts with
    | RnEOF => Err EIO
    | RnShort => Err EIO
    | RnOk p rest cs =>
      do x <- tti_step g tcp acc items p;
      let '(acc', items') := x in tti_loop_fail f rest cs g tcp acc' items'
    end
  end.
Definition read_stl_fail (ignore_tcp : bool) (data : str) (counts : list nat) : res rdoc :=
  match read_n 1024 data counts with
  | RnOk b rest cs =>
    do g <- parse_gsi b;
    if negb (nmem (g_cct g) stl_tables_existing) then Err EParse
    else
      let tcp := if ignore_tcp then 0%Z else g_tcp g in
      do items <- tti_loop_fail (S (length rest)) rest cs g tcp None [];
      Ok (stl_doc_of g tcp items)
  | _ => Err EIO
  end.
(* the stream fails after [k] bytes of [data] *)
Definition read_stl_fail_at (ignore_tcp : bool) (data : str) (k : nat) (counts : list nat) : res rdoc :=
  read_stl_fail ignore_tcp (firstn k data) counts.

(* WriteToSTL: one Write for the GSI block, then one per TTI block, each checked *)
Fixpoint tti_block_list (fps : Z) (dsc : str) (tcp : Z) (items : list witem) (idx : Z) : list str :=
  match items with
  | [] => []
  | i :: r => tti_bytes fps dsc tcp (new_tti i idx) :: tti_block_list fps dsc tcp r (idx + 1)
  end.
Definition stl_writes (now : str) (md : option wmeta) (items : list witem) : res (list str) :=
  match items with
  | [] => Err ENothingToWrite
  | _ => let g := new_gsi now md items in
         Ok (gsi_bytes g :: tti_block_list (g_fps g) (g_dsc g) (g_tcp g) items 1)
  end.
Definition write_stl_to (now : str) (md : option wmeta) (items : list witem) (d : dest) : res nat :=
  match stl_writes now md items with Ok ws => run_writes ws d 0 | Err k => Err k | Panic p => Panic p end.

(* The failing Read may also return its error TOGETHER WITH the last bytes it delivers (Read returns (n, err) with n > 0;
   io.Reader allows it, and nothing obliges the stream to repeat the error afterwards: it may report end-of-file or go on).
   readNBytes returns at the first error of a Read call whether or not bytes came with it (repo fix "STL block reader keeps
   a read error that arrives together with the last bytes of a block"; io.ReadFull alone drops an error that comes with
   the last requested bytes), so ReadFromSTL never calls Read again after a failing one and what the stream would do next
   plays no role.  [_wd]: [data] is what the stream delivers in all, the Read that delivers its last byte fails: when a
   block is completed by the last byte of [data], the error is returned before the block is looked at. *)
Fixpoint tti_loop_fail_wd (fuel : nat) (data : str) (counts : list nat) (g : gsi) (tcp : Z) (acc : option N) (items : list ritem)
  : res (list ritem) :=
  match fuel with
  | O => Err EOther
  | S f =>
    match read_n 128 data counts with
    | RnEOF => Err EIO
    | RnShort => Err EIO
    | RnOk p rest cs =>
      match rest with
      | [] => Err EIO
      | _ => do x <- tti_step g tcp acc items p;
             let '(acc', items') := x in tti_loop_fail_wd f rest cs g tcp acc' items'
      end
    end
  end.
Definition read_stl_fail_wd (ignore_tcp : bool) (data : str) (counts : list nat) : res rdoc :=
  match read_n 1024 data counts with
  | RnOk b rest cs =>
    match rest with
    | [] => Err EIO
    | _ =>
      do g <- parse_gsi b;
      if negb (nmem (g_cct g) stl_tables_existing) then Err EParse
      else
        let tcp := if ignore_tcp then 0%Z else g_tcp g in
        do items <- tti_loop_fail_wd (S (length rest)) rest cs g tcp None [];
        Ok (stl_doc_of g tcp items)
    end
  | _ => Err EIO
  end.
Definition read_stl_fail_at_wd (ignore_tcp : bool) (data : str) (k : nat) (counts : list nat) : res rdoc :=
  read_stl_fail_wd ignore_tcp (firstn k data) counts.
