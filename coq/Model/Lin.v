(* ApplyLinearCorrection (subtitles.go), in the code's evaluation order. *)
From Coq Require Import List ZArith NArith Bool.
From Astisub Require Import Kit.Base Kit.Float64 Model.Ops.
Import ListNotations.
Open Scope Z_scope.

Definition lin_a (a1 d1 a2 d2 : Z) : f64 := fdiv (of_Z (d2 - d1)) (of_Z (a2 - a1)).
Definition lin_b (a1 d1 a2 d2 : Z) : Z := to_Z (fsub (of_Z d1) (fmul (lin_a a1 d1 a2 d2) (of_Z a1))).
Definition lin (a1 d1 a2 d2 t : Z) : Z := to_Z (fmul (lin_a a1 d1 a2 d2) (of_Z t)) + lin_b a1 d1 a2 d2.
Definition linear_correction (a1 d1 a2 d2 : Z) (l : list item) : list item :=
  map (fun x => set_st (set_en x (lin a1 d1 a2 d2 (en x))) (lin a1 d1 a2 d2 (st x))) l.

(* the float path of formatDuration's fraction: floor(float64(n)/1e6/10^(3-k)) *)
Definition frac_float (k : nat) (n : Z) : Z :=
  let q := fdiv (of_Z n) (of_Z 1000000) in
  floor_Z (fdiv q (of_Z (10 ^ (3 - Z.of_nat k)))).
