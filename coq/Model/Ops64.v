(* The cue-list operations with Go's int64 arithmetic (time.Duration wraps around): every +, - of subtitles.go done with
   [add_i64] / [sub_i64], % with Go's truncating remainder.  Order, Merge, Unfragment, Optimize and RemoveStyling only
   compare and copy times: their models in Model/Ops.v ARE their int64 models.  Definitions only; Proofs/Ops64Proofs.v
   shows that inside stated ranges these equal the unbounded models of Model/Ops.v and Model/Lin.v. *)
From Coq Require Import List ZArith NArith Bool.
From Flocq Require Import Core BinarySingleNaN.
From Astisub Require Import Kit.Base Kit.Int64 Kit.Float64 Model.Ops Model.Lin.
Import ListNotations.
Open Scope Z_scope.

(* ---- Add: EndAt += d; StartAt += d; then the tests on the wrapped values ---- *)
Definition shift1_64 (d : Z) (x : item) : option item :=
  let e := add_i64 (en x) d in
  let s := add_i64 (st x) d in
  if (e <=? 0) && (s <=? 0) then None
  else Some (set_st (set_en x e) (if s <=? 0 then 0 else s)).
Fixpoint add_dur64 (d : Z) (l : list item) : list item :=
  match l with
  | [] => []
  | x :: r => match shift1_64 d x with
              | None => add_dur64 d r
              | Some x' => x' :: add_dur64 d r
              end
  end.

(* ---- ForceDuration: the only arithmetic is the filler's start, d - time.Millisecond ---- *)
Definition dummy_item64 (u : N) (d : Z) : item :=
  mkItem u (sub_i64 d 1000000) d [mkLine [mkRun dots None false] []] None None false.
Definition force_duration64 (d : Z) (dummy : bool) (u : N) (l : list item) : list item :=
  if duration l =? d then l
  else
    let l1 := if d <? duration l then trim d l else l in
    if dummy && (duration l1 <? d) then l1 ++ [dummy_item64 u d] else l1.

(* ---- Fragment: fragmentEndAt = StartAt - StartAt % f; if <= StartAt { += f }; for ; < EndAt; += f ----
   The Go loop has no bound: when [+= f] wraps it may run (practically) for ever.  [pieces_loop64 fuel]: None = still
   inside the loop after [fuel] tests of the loop condition. *)
Definition next_mult64 (f s : Z) : Z :=
  let b := sub_i64 s (rem_i64 s f) in
  if b <=? s then add_i64 b f else b.
Fixpoint pieces_loop64 (fuel : nat) (f : Z) (x : item) (b : Z) : option (list item) :=
  match fuel with
  | O => None
  | S k => if b <? en x
           then match pieces_loop64 k f (set_st x b) (add_i64 b f) with
                | Some r => Some (set_uid (set_en x b) 0%N :: r)
                | None => None
                end
           else Some [x]
  end.
Definition pieces64 (fuel : nat) (f : Z) (x : item) : option (list item) :=
  pieces_loop64 fuel f x (next_mult64 f (st x)).
Fixpoint flat_pieces64 (fuel : nat) (f : Z) (l : list item) : option (list item) :=
  match l with
  | [] => Some []
  | x :: r => match pieces64 fuel f x, flat_pieces64 fuel f r with
              | Some p, Some q => Some (p ++ q)
              | _, _ => None
              end
  end.
Definition fragment64 (fuel : nat) (f : Z) (l : list item) : option (list item) :=
  if f <=? 0 then Some l
  else match flat_pieces64 fuel f l with Some p => Some (order p) | None => None end.

(* ---- ApplyLinearCorrection: desired2-desired1 and actual2-actual1 are int64 subtractions; time.Duration(float64) is
   the truncating conversion, whose result for a value outside int64 (or NaN) is implementation-defined in Go - on amd64
   (CVTTSD2SQ) it is the "integer indefinite" value MinInt64, which is what [f2i64] returns; the final + b wraps ---- *)
Definition f2i64 (x : f64) : Z :=
  if is_finite x then (let z := to_Z x in if in_i64b z then z else i64_min) else i64_min.
Definition lin_a64 (a1 d1 a2 d2 : Z) : f64 := fdiv (of_Z (sub_i64 d2 d1)) (of_Z (sub_i64 a2 a1)).
Definition lin_b64 (a1 d1 a2 d2 : Z) : Z := f2i64 (fsub (of_Z d1) (fmul (lin_a64 a1 d1 a2 d2) (of_Z a1))).
Definition lin64 (a1 d1 a2 d2 t : Z) : Z := add_i64 (f2i64 (fmul (lin_a64 a1 d1 a2 d2) (of_Z t))) (lin_b64 a1 d1 a2 d2).
Definition linear_correction64 (a1 d1 a2 d2 : Z) (l : list item) : list item :=
  map (fun x => set_st (set_en x (lin64 a1 d1 a2 d2 (en x))) (lin64 a1 d1 a2 d2 (st x))) l.
