(* Executable models of the cue-list operations of subtitles.go.
   No proofs here: this file must keep compiling (and extracting) when a proof breaks. *)
From Coq Require Import List ZArith NArith Bool.
From Astisub Require Import Kit.Base.
Import ListNotations.
Open Scope Z_scope.

(* ---- cue model ------------------------------------------------------------------------- *)
Record run := mkRun { r_text : str; r_sty : option N; r_inl : bool }.
Record line := mkLine { l_runs : list run; l_voice : str }.
Record item := mkItem {
  uid : N;                 (* pointer identity of the *Item *)
  st : Z; en : Z;          (* StartAt / EndAt, nanoseconds *)
  i_lines : list line;
  i_reg : option N;        (* ID of the region pointed to *)
  i_sty : option N;        (* ID of the style pointed to *)
  i_inl : bool             (* InlineStyle != nil *)
}.
Definition set_st (x : item) (v : Z) := mkItem (uid x) v (en x) (i_lines x) (i_reg x) (i_sty x) (i_inl x).
Definition set_en (x : item) (v : Z) := mkItem (uid x) (st x) v (i_lines x) (i_reg x) (i_sty x) (i_inl x).
Definition set_uid (x : item) (u : N) := mkItem u (st x) (en x) (i_lines x) (i_reg x) (i_sty x) (i_inl x).

Record style := mkStyle { s_id : N; s_parent : option N; s_inl : bool }.
Record region := mkRegion { g_id : N; g_sty : option N; g_inl : bool }.
Record subs := mkSubs {
  items : list item;
  regions : option (list (N * region));   (* None = nil map *)
  styles : option (list (N * style))
}.

(* Item.String(): lines joined by " - ", run texts concatenated *)
Definition line_text (l : line) : str := concat (map r_text (l_runs l)).
Definition sep_dash : str := [32; 45; 32]%N.
Fixpoint join (sep : str) (l : list str) : str :=
  match l with
  | [] => []
  | [x] => x
  | x :: r => x ++ sep ++ join sep r
  end.
Definition item_text (x : item) : str := join sep_dash (map line_text (i_lines x)).

(* ---- Add ------------------------------------------------------------------------------- *)
Definition shift1 (d : Z) (x : item) : option item :=
  let e := en x + d in
  let s := st x + d in
  if (e <=? 0) && (s <=? 0) then None
  else Some (set_st (set_en x e) (if s <=? 0 then 0 else s)).

(* the idx loop: process the element at idx; delete it (and stay) or keep it (and move on) *)
Fixpoint add_dur (d : Z) (l : list item) : list item :=
  match l with
  | [] => []
  | x :: r => match shift1 d x with
              | None => add_dur d r
              | Some x' => x' :: add_dur d r
              end
  end.

(* ---- Order ----------------------------------------------------------------------------- *)
Fixpoint insert (x : item) (l : list item) : list item :=
  match l with
  | [] => [x]
  | y :: r => if st x <=? st y then x :: l else y :: insert x r
  end.
Definition order (l : list item) : list item := fold_right insert [] l.

(* ---- Merge ----------------------------------------------------------------------------- *)
Definition add_absent {V} (key : V -> N) (m : list (N * V)) (vs : list V) : list (N * V) :=
  fold_left (fun m v => if amem (key v) m then m else m ++ [(key v, v)]) vs m.
Definition map_or_empty {V} (m : option (list (N * V))) : list (N * V) :=
  match m with Some l => l | None => [] end.
(* [pr], [ps]: iteration orders of the argument's two maps (values in range order) *)
Definition merge (a b : subs) (pr : list region) (ps : list style) : subs :=
  mkSubs (order (items a ++ items b))
         (Some (add_absent g_id (map_or_empty (regions a)) pr))
         (Some (add_absent s_id (map_or_empty (styles a)) ps)).

(* ---- ForceDuration --------------------------------------------------------------------- *)
Definition duration (l : list item) : Z := match l with [] => 0 | _ => en (last l (mkItem 0 0 0 [] None None false)) end.
Fixpoint trim (d : Z) (l : list item) : list item :=
  match l with
  | [] => []
  | x :: r => if d <=? st x then []
              else (if d <? en x then set_en x d else x) :: trim d r
  end.
Definition dots : str := [46; 46; 46]%N.
Definition dummy_item (u : N) (d : Z) : item :=
  mkItem u (d - 1000000) d [mkLine [mkRun dots None false] []] None None false.
Definition force_duration (d : Z) (dummy : bool) (u : N) (l : list item) : list item :=
  if duration l =? d then l
  else
    let l1 := if d <? duration l then trim d l else l in
    if dummy && (duration l1 <? d) then l1 ++ [dummy_item u d] else l1.

(* ---- Fragment (per-cue cutting, then Order) ---------------------------------------------- *)
(* first multiple of f strictly greater than s (0 < f); Go's % truncates toward zero: Z.rem *)
Definition next_mult (f s : Z) : Z :=
  let b := s - Z.rem s f in
  if b <=? s then b + f else b.
(* pieces of [s,e) cut at b, b+f, ... while < e; fuel bounds the number of cuts.
   Every piece but the last is a copy (fresh identity: uid 0), the last piece is the original
   pointer with its StartAt moved. *)
Fixpoint pieces_loop (fuel : nat) (f : Z) (x : item) (b : Z) : list item :=
  match fuel with
  | O => [x]
  | S k => if b <? en x then set_uid (set_en x b) 0%N :: pieces_loop k f (set_st x b) (b + f)
           else [x]
  end.
Definition pieces (f : Z) (x : item) : list item :=
  pieces_loop (Z.to_nat ((en x - st x) / f + 2)) f x (next_mult f (st x)).
Definition fragment (f : Z) (l : list item) : list item :=
  if f <=? 0 then l else order (flat_map (pieces f) l).

(* ---- Unfragment ------------------------------------------------------------------------ *)
Fixpoint absorb (x : item) (rest : list item) : item * list item :=
  match rest with
  | [] => (x, [])
  | y :: ys =>
    if str_eqb (item_text x) (item_text y) && (st y <=? en x)
    then absorb (if en x <? en y then set_en x (en y) else x) ys
    else if en x <? st y then (x, rest)
    else let (x', ys') := absorb x ys in (x', y :: ys')
  end.
Fixpoint unfrag (fuel : nat) (l : list item) : list item :=
  match fuel, l with
  | S k, x :: rest => let (x', rest') := absorb x rest in x' :: unfrag k rest'
  | _, _ => l
  end.
Definition unfragment (l : list item) : list item :=
  let l' := order l in unfrag (length l') l'.

(* ---- Optimize -------------------------------------------------------------------------- *)
Definition opt_list (o : option N) : list N := match o with Some x => [x] | None => [] end.
Definition item_style_refs (x : item) : list N :=
  opt_list (i_sty x) ++ flat_map (fun l => flat_map (fun r => opt_list (r_sty r)) (l_runs l)) (i_lines x).
Definition used_regions (l : list item) : list N := flat_map (fun x => opt_list (i_reg x)) l.
(* styles referenced by used regions; the map is ranged over its values and tested on the value's ID *)
Definition region_style_refs (used : list N) (rs : list (N * region)) : list N :=
  flat_map (fun kv => if nmem (g_id (snd kv)) used then opt_list (g_sty (snd kv)) else []) rs.
(* mark a style and walk up its parent chain until an already marked style is met *)
Fixpoint mark_chain (fuel : nat) (ss : list (N * style)) (id : N) (used : list N) : list N :=
  match fuel with
  | O => used
  | S k => if nmem id used then used
           else match find (fun kv => N.eqb (s_id (snd kv)) id) ss with
                | Some kv => match s_parent (snd kv) with
                             | Some p => mark_chain k ss p (id :: used)
                             | None => id :: used
                             end
                | None => id :: used
                end
  end.
Definition mark_all (ss : list (N * style)) (roots : list N) : list N :=
  fold_left (fun used id => mark_chain (S (length ss)) ss id used) roots [].
Definition optimize (s : subs) : subs :=
  match items s with
  | [] => s
  | _ =>
    let ur := used_regions (items s) in
    let rs := map_or_empty (regions s) in
    let ss := map_or_empty (styles s) in
    let roots := flat_map item_style_refs (items s) ++ region_style_refs ur rs in
    let us := mark_all ss roots in
    mkSubs (items s)
           (match regions s with None => None | Some _ => Some (filter (fun kv => nmem (g_id (snd kv)) ur) rs) end)
           (match styles s with None => None | Some _ => Some (filter (fun kv => nmem (s_id (snd kv)) us) ss) end)
  end.

(* ---- RemoveStyling --------------------------------------------------------------------- *)
Definition strip_run (r : run) : run := mkRun (r_text r) None false.
Definition strip_line (l : line) : line := mkLine (map strip_run (l_runs l)) (l_voice l).
Definition strip_item (x : item) : item := mkItem (uid x) (st x) (en x) (map strip_line (i_lines x)) None None false.
Definition remove_styling (s : subs) : subs := mkSubs (map strip_item (items s)) (Some []) (Some []).
