(* stl.go, checked transcription: the same reader and writer as Model/Stl.v with every run-time panic site of the Go
   code spelled out as a CHECKED operation behind the code's own guard: slice index b[i], slicing b[lo:hi], nil
   dereference *p, integer division a / b, type assertion v.(T) on a value fetched from a BiMap.  The failure of a
   checked operation is [Panic site]; site = the line number in stl.go (10000 + line for subtitles.go, 20000 + line for
   teletext.go).  Proofs/StlChk.v shows that no site is reachable and that these functions agree with the
   pattern-matching transcription of Model/Stl.v, on which the fidelity theorems are stated; it also shows that
   dropping a guard makes [Panic] reachable.  Definitions only. *)
From Coq Require Import List ZArith NArith Bool Arith.
From Astisub Require Import Kit.Base Kit.Str Kit.Utf8 Kit.Scan Kit.Chk Model.Dur Model.Stl Gen.StlTables.
Import ListNotations.
Open Scope N_scope.

(* ================= checked primitives beyond Kit/Chk.v ================= *)
(* b[lo:hi]: panics unless lo <= hi <= len(b) (a slice of a slice could go up to cap(b); every slice below is cut from
   a slice whose capacity is its length, or is re-sliced within its length) *)
Definition slice (b : str) (lo hi : nat) (site : N) : res str :=
  if Nat.leb lo hi && Nat.leb hi (length b) then Ok (firstn (hi - lo) (skipn lo b)) else Panic site.
(* a / b on ints: panics when b = 0, truncates toward zero otherwise *)
Definition div_c (a b : Z) (site : N) : res Z :=
  if (b =? 0)%Z then Panic site else Ok (Z.quot a b).
(* v.(T) on an interface value whose dynamic type has tag [t] (0 string, 1 int, 2 byte; None = no such key probed):
   panics unless the dynamic type is the asserted one *)
Definition assert_tag (t : option N) (want : N) (site : N) : res unit :=
  match t with
  | Some g => if g =? want then Ok tt else Panic site
  | None => Panic site
  end.
Definition tag_string : N := 0.
Definition tag_int : N := 1.
Definition tag_byte : N := 2.

(* ================= READER ================= *)

(* ---- stlCharacterHandler.decode (871-887) ----
   873  vi, ok := h.m.Get(k)
   874  if !ok { return }                       <- the guard
   877  v := vi.(string)                        <- type assertion
   the rest is Model.Stl.decode1 *)
Definition decode1_c (acc : option N) (v : N) : res (str * option N) :=
  match alookup v stl_table with
  | None => Ok ([], acc)
  | Some s =>
    do _ <- assert_tag (alookup v stl_table_tags) tag_string 877;
    Ok (match acc with
        | Some a => (nfc_lookup a v, None)
        | None => if is_accent_byte v then ([], Some v) else (s, None)
        end)
  end.

(* ---- stlFramesToNanoseconds (642-644) ----
   643  return (1e9*frames + framerate - 1) / framerate        no guard in the function: the callers pass a frame rate of
        stlFramerateMapping (25 or 30) *)
Definition frames_ns_c (frames fps : Z) : res Z := div_c (second_ns * frames + fps - 1) fps 643.

(* ---- parseDurationSTLBytes (845-847) ----
   846  b[0] ... b[1] ... b[2] ... stlFramesToNanoseconds(int(uint8(b[3])), framerate)
        the callers pass the 4-byte slices p[5:9] and p[9:13] (775, 776) *)
Definition parse_stl_bytes_c (b : str) (fps : Z) : res Z :=
  do h <- index b 0 846;
  do m <- index b 1 846;
  do s <- index b 2 846;
  do f <- index b 3 846;
  do fr <- frames_ns_c (Z.of_N f) fps;
  Ok (Z.of_N h * hour_ns + Z.of_N m * minute_ns + Z.of_N s * second_ns + fr)%Z.

(* ---- parseDurationSTL (600-638) ----
   602  if len(i) < 8 { err = ...; return }     <- the guard of the four slices
   608  i[0:2]   615  i[2:4]   622  i[4:6]   629  i[6:8]   each followed by Atoi and its error return
   636  ... stlFramesToNanoseconds(frames, framerate) *)
Definition parse_stl_c (s : str) (fps : Z) : res Z :=
  if Nat.ltb (length s) 8 then Err EParse else
  do hs <- slice s 0 2 608;
  match atoi hs with
  | None => Err EParse
  | Some h =>
    do ms <- slice s 2 4 615;
    match atoi ms with
    | None => Err EParse
    | Some m =>
      do ss <- slice s 4 6 622;
      match atoi ss with
      | None => Err EParse
      | Some sec =>
        do fs <- slice s 6 8 629;
        match atoi fs with
        | None => Err EParse
        | Some f =>
          do fr <- frames_ns_c f fps;
          Ok (h * hour_ns + m * minute_ns + sec * second_ns + fr)%Z
        end
      end
    end
  end.
(* "if v := strings.TrimSpace(string(b[256:264])); len(v) > 0 { ..., err = parseDurationSTL(v, g.framerate) }" *)
Definition tc_field_c (v : str) (fps : Z) : res Z :=
  match trim_space v with
  | [] => Ok 0%Z
  | t => parse_stl_c t fps
  end.

(* ---- parseTTIBlock (766-778) ----
   the block comes from readNBytes(i, stlBlockSizeTTI) (242), which returns exactly 128 bytes or an error (305-320):
   that is the guard of every access below.
   768 p[15]  769 p[4]  770 p[3]  771 p[14]  772 p[0]  773 p[1:3] (binary.LittleEndian.Uint16 reads [0] and [1] of it)
   774 p[16:128]  775 p[5:9]  776 p[9:13]  777 p[13] *)
Definition parse_tti_c (p : str) (fps : Z) : res tti :=
  do cf <- index p 15 768;
  do cs <- index p 4 769;
  do ebn <- index p 3 770;
  do jc <- index p 14 771;
  do sgn <- index p 0 772;
  do snb <- slice p 1 3 773;
  do sn0 <- index snb 0 773;
  do sn1 <- index snb 1 773;
  do text <- slice p 16 128 774;
  do bin <- slice p 5 9 775;
  do tin <- parse_stl_bytes_c bin fps;
  do bout <- slice p 9 13 776;
  do tout <- parse_stl_bytes_c bout fps;
  do vp <- index p 13 777;
  Ok (mkTti cf cs (Z.of_N ebn) jc (Z.of_N sgn) (Z.of_N (sn0 + 256 * sn1)) text tin tout (Z.of_N vp)).

(* ---- parseGSIBlock (428-554) ----
   the block comes from readNBytes(i, stlBlockSizeGSI) (192): exactly 1024 bytes or an error; that is the guard of every
   access below.  Go's order is kept (the struct literal 430-448 first, then 451 ...), so that the FIRST failing site is
   the one reported.  binary.BigEndian.Uint16 reads [0], [1] of b[12:14]; Uint32 reads the constant 0 and [0], [1], [2]
   of b[0:3]. *)
Definition parse_gsi_c (b : str) : res gsi :=
  do f_cct <- slice b 12 14 431;
  do cct_h <- index f_cct 0 431;
  do cct_l <- index f_cct 1 431;
  do f_co <- slice b 274 277 432;
  do f_cpn <- slice b 0 3 433;
  do cpn0 <- index f_cpn 0 433;
  do cpn1 <- index f_cpn 1 433;
  do cpn2 <- index f_cpn 2 433;
  do f_dsc <- index b 11 434;
  do f_en <- slice b 309 341 435;
  do f_ecd <- slice b 341 373 436;
  do f_lc <- slice b 14 16 437;
  do f_oet <- slice b 48 80 438;
  do f_opt <- slice b 16 48 439;
  do f_pub <- slice b 277 309 440;
  do f_slr <- slice b 208 224 441;
  do f_tcs <- index b 255 442;
  do f_tpt <- slice b 80 112 443;
  do f_tet <- slice b 112 144 444;
  do f_tcd <- slice b 176 208 445;
  do f_tn <- slice b 144 176 446;
  do f_uda <- slice_from b 448 447;
  (* 451  if v, ok := stlFramerateMapping.Get(string(b[3:11])); ok { g.framerate = v.(int) } else { ... b[3:11] ...; return } *)
  do f_dfc <- slice b 3 11 451;
  match slookup f_dfc stl_framerate with
  | None => do _ <- slice b 3 11 454; Err EParse
  | Some fps =>
    do _ <- assert_tag (slookup f_dfc stl_framerate_tags) tag_int 452;
    do f_cd <- slice b 224 230 459;   do cd <- date_field f_cd;
    do f_rd <- slice b 230 236 467;   do rd <- date_field f_rd;
    do f_rn <- slice b 236 238 475;   do rn <- num_field f_rn;
    do f_tnb <- slice b 238 243 483;  do tnb <- num_field f_tnb;
    do f_tns <- slice b 243 248 491;  do tns <- num_field f_tns;
    do f_tng <- slice b 248 251 499;  do tng <- num_field f_tng;
    do f_mnc <- slice b 251 253 507;  do mnc <- num_field f_mnc;
    do f_mnr <- slice b 253 255 515;  do mnr <- num_field f_mnr;
    do f_tcp <- slice b 256 264 523;  do tcp <- tc_field_c f_tcp fps;
    do f_tcf <- slice b 264 272 531;  do tcf <- tc_field_c f_tcf fps;
    do f_tnd <- index b 272 539;      do tnd <- num_field (utf8_encode_rune f_tnd);
    do f_dsn <- index b 273 547;      do dsn <- num_field (utf8_encode_rune f_dsn);
    Ok (mkGsi (cct_h * 256 + cct_l) (cpn0 * 65536 + cpn1 * 256 + cpn2)
              (trim_space f_co) cd dsn (trim_space [f_dsc])
              (trim_space f_ecd) (trim_space f_en) fps (trim_space f_lc) mnc mnr
              (trim_space f_oet) (trim_space f_opt) (trim_space f_pub)
              rd rn (trim_space f_slr) tcf tcp (trim_space [f_tcs]) tnd tng tns tnb
              (trim_space f_tet) (trim_space f_tpt) (trim_space f_tcd) (trim_space f_tn)
              (trim_space f_uda))
  end.

(* ---- StyleAttributes.propagateSTLAttributes (subtitles.go 352-375), on the attributes ReadFromSTL builds at 267-270:
   STLJustification: &justification, STLPosition: &position, both non-nil; they are [Some] values here.
   10353  if sa.STLJustification != nil {          <- guard
   10354    switch *sa.STLJustification {          <- dereference *)
Definition vtt_align_c (j : option N) : res str :=
  if is_some j then do v <- deref j 10354; Ok (vtt_align v) else Ok [].
(* 10364  if sa.STLPosition != nil && sa.STLPosition.MaxRows > 0 {      <- guards: non-nil, then non-zero divisor
   10366    ... sa.STLPosition.VerticalPosition*100/sa.STLPosition.MaxRows
   10371    if sa.STLPosition.MaxRows == 23 && sa.STLPosition.VerticalPosition > 0 {
   10372      ... (sa.STLPosition.VerticalPosition-1)*100/sa.STLPosition.MaxRows
   [pos] = the pointed-to (VerticalPosition, MaxRows) *)
Definition vtt_line_c (pos : option (Z * Z)) : res str :=
  if is_some pos then
    do p <- deref pos 10364;
    let '(vp, maxrows) := p in
    if (0 <? maxrows)%Z then
      do l1 <- div_c (vp * 100) maxrows 10366;
      if (maxrows =? 23)%Z && (0 <? vp)%Z then
        do l2 <- div_c ((vp - 1) * 100) maxrows 10372; Ok (itoa_z l2 ++ [37])
      else Ok (itoa_z l1 ++ [37])
    else Ok []
  else Ok [].

(* ---- appendOpenSubtitleLineItem (1135-1152); [sty] = li.InlineStyle, a pointer
   1137  if len(strings.TrimSpace(li.Text)) > 0 {
   1139    if li.InlineStyle == nil { li.InlineStyle = &StyleAttributes{} }     <- guard
   1145    s.propagateStyleAttributes(li.InlineStyle)     -> sa.propagateSTLAttributes reads sa.STLJustification
                                                          (subtitles.go 353): dereference of li.InlineStyle *)
Definition append_open_c (items : list erun) (text : str) (sty : option sattr_stl) : res (list erun) :=
  match trim_space text with
  | [] => Ok items
  | t =>
    let sty' := if is_some sty then sty else Some sattr0_stl in
    do a <- deref sty' 10353;
    Ok (mkErun t a None None :: items)
  end.

(* ---- parseOpenSubtitleRow (1087-1133); [sty] = li.InlineStyle: &StyleAttributes{} at 1090, re-created at 1114-1116
   1098  if isTeletextControlCode(v) { return errors.New(...) }
   1108  if s.hasChanged(li.InlineStyle) {        reads sa.STLBoxing ... (921): dereference; with a fresh styler per byte
                                                  a style code always "has changed" (Model.Stl.open_row)
   1109    if len(li.Text) > 0 {
   1111      appendOpenSubtitleLineItem(&l, li, s)
   1114      sa := &StyleAttributes{}
   1115      *sa = *li.InlineStyle                dereference
   1116      li = LineItem{InlineStyle: sa}
   1118    s.update(li.InlineStyle)               reads and writes sa.STLBoxing ... (929-937): dereference
   1122  li.Text += string(d.decode(v)) *)
Fixpoint open_row_c (row : str) (items : list erun) (text : str) (sty : option sattr_stl) (acc : option N)
  : res (list erun * option N) :=
  match row with
  | [] => do items' <- append_open_c items text sty; Ok (rev items', acc)
  | v :: r =>
    if v <=? 31 then Err EParse
    else match sty_code v with
         | Some c =>
           do _ <- deref sty 1108;
           do x <- (if Nat.ltb 0 (length text) then
                      do items' <- append_open_c items text sty;
                      do a1 <- deref sty 1115;
                      Ok (items', [], Some a1)
                    else Ok (items, text, sty));
           let '(items', text', sty') := x in
           do a2 <- deref sty' 1118;
           open_row_c r items' text' (Some (sty_update a2 c)) acc
         | None =>
           do x <- decode1_c acc v;
           let '(o, acc') := x in open_row_c r items (text ++ o) sty acc'
         end
  end.

(* 1090  var li = LineItem{InlineStyle: &StyleAttributes{}} *)
Fixpoint rows_open_c (rows : list str) (acc : option N) (lines : list (list erun)) : res (list (list erun) * option N) :=
  match rows with
  | [] => Ok (rev lines, acc)
  | row :: r =>
    do x <- open_row_c row [] [] (Some sattr0_stl) acc;
    let '(l, acc') := x in
    rows_open_c r acc' (match l with [] => lines | _ => l :: lines end)
  end.

(* ---- parseTeletextRow with the STL styler: Model.Stl.stl_ttx_row with the character decoding (teletext.go 993,
   "li.Text += string(d.decode(v))") through the checked decoder.  The pointer accesses of parseTeletextRow itself
   belong to teletext.go and are not re-transcribed here. *)
Fixpoint stl_ttx_row_c (row : str) (items : list erun) (text : str) (a : sattr_stl) (started : bool) (acc : option N)
  : res (list erun * option N) :=
  match row with
  | [] => Ok (rev (stl_append_ttx items text a), acc)
  | v :: r =>
    let color := if v <=? 7 then Some v else None in
    let started' := if v =? 10 then false else if v =? 11 then true else started in
    let dh := if v =? 12 then Some false else if v =? 13 then Some true else None in
    let dw := if v =? 12 then Some false else if v =? 14 then Some true else None in
    let ds := if v =? 12 then Some false else if v =? 15 then Some true else None in
    let sc := if (v <=? 7) || ((10 <=? v) && (v <=? 15)) then None else sty_code v in
    if o_some color || o_some dh || o_some ds || o_some dw || o_some sc then
      let changed := negb (opt_eqb color (a_col a)) || o_some dh || o_some (a_dh a) || o_some ds || o_some (a_ds a)
                     || o_some dw || o_some (a_dw a) || o_some sc || o_some (a_it a) || o_some (a_un a) || o_some (a_bx a) in
      if changed then
        let items' := if started' then stl_append_ttx items text a else items in
        let text' := if started' then [] else text in
        let a1 := mkSattrStl (a_it a) (a_un a) (a_bx a)
                    (match color with Some c => Some c | None => a_col a end)
                    (match dh with Some b => Some b | None => a_dh a end)
                    (match ds with Some b => Some b | None => a_ds a end)
                    (match dw with Some b => Some b | None => a_dw a end) in
        let a2 := match sc with Some c => sty_update a1 c | None => a1 end in
        stl_ttx_row_c r items' text' a2 started' acc
      else stl_ttx_row_c r items text a started' acc
    else if started' then
      do x <- decode1_c acc v;
      let '(o, acc') := x in stl_ttx_row_c r items (text ++ o) a started' acc'
    else stl_ttx_row_c r items text a started' acc
  end.
Fixpoint rows_ttx_c (rows : list str) (acc : option N) (lines : list (list erun)) : res (list (list erun) * option N) :=
  match rows with
  | [] => Ok (rev lines, acc)
  | row :: r =>
    let row' := if nmem 11 row then row else 11 :: row in
    do x <- stl_ttx_row_c row' [] [] sattr0_stl false acc;
    let '(l, acc') := x in
    rows_ttx_c r acc' (match l with [] => lines | _ => l :: lines end)
  end.

(* ---- one turn of the TTI loop of ReadFromSTL (251-298)
   251  t = parseTTIBlock(b, g.framerate)
   254  if t.extensionBlockNumber == extensionBlockNumberReservedUserData { continue }
   267  styleAttributes := StyleAttributes{STLJustification: &justification, STLPosition: &position}
   271  styleAttributes.propagateSTLAttributes()
   275  o.Metadata.STLTimecodeStartOfProgramme: o.Metadata is the fresh &Metadata{...} of 212
   281  the rows *)
Definition tti_step_c (g : gsi) (tcp : Z) (acc : option N) (items : list ritem) (p : str) : res (option N * list ritem) :=
  do t <- parse_tti_c p (g_fps g);
  if (t_ebn t =? 254)%Z then Ok (acc, items)
  else
    let rows := split_byte 138 (t_text t) in
    let j := parse_jc (t_jc t) in
    do al <- vtt_align_c (Some j);
    do ln <- vtt_line_c (Some (t_vp t, g_mnr g));
    let mk := fun lines => mkRitem (t_in t - tcp)%Z (t_out t - tcp)%Z j (t_vp t) (g_mnr g) (N.of_nat (length rows)) al ln lines in
    if str_eqb (g_dsc g) stl_s_dscOpen then
      do x <- rows_open_c rows acc [];
      let '(lines, acc') := x in Ok (acc', mk lines :: items)
    else
      do x <- rows_ttx_c rows acc [];
      let '(lines, acc') := x in Ok (acc', mk lines :: items).

(* 240-300: for { b, err = readNBytes(i, stlBlockSizeTTI); io.EOF ends the loop, any other error is returned }
   (named tti_loop_chk: Proofs/FuelStl.v already has a tti_loop_c) *)
Fixpoint tti_loop_chk (fuel : nat) (data : str) (g : gsi) (tcp : Z) (acc : option N) (items : list ritem) : res (list ritem) :=
  match fuel with
  | O => Err EOther
  | S f =>
    match read_n 128 data [] with
    | RnEOF => Ok (rev items)
    | RnShort => Err EIO
    | RnOk p rest _ =>
      do x <- tti_step_c g tcp acc items p;
      let '(acc', items') := x in tti_loop_chk f rest g tcp acc' items'
    end
  end.

(* ---- ReadFromSTL (186-302)
   192  b, err = readNBytes(i, stlBlockSizeGSI)        exactly 1024 bytes or an error
   198  g, err = parseGSIBlock(b)
   205  newSTLCharacterHandler(g.characterCodeTableNumber)   error when the table does not exist
   235  if v, ok := stlLanguageMapping.Get(g.languageCode); ok {     <- guard
   236    o.Metadata.Language = v.(string)                           <- type assertion *)
Definition read_stl_c (ignore_tcp : bool) (data : str) : res rdoc :=
  match read_n 1024 data [] with
  | RnOk b rest _ =>
    do g <- parse_gsi_c b;
    if negb (nmem (g_cct g) stl_tables_existing) then Err EParse
    else
      let tcp := if ignore_tcp then 0%Z else g_tcp g in
      do lang <- match slookup (g_lc g) stl_language with
                 | Some l => do _ <- assert_tag (slookup (g_lc g) stl_language_tags) tag_string 236; Ok l
                 | None => Ok []
                 end;
      do items <- tti_loop_chk (S (length rest)) rest g tcp None [];
      Ok (mkRdoc (g_fps g) (g_co g) (g_cd g) (g_dsc g) (g_ecd g) (g_en g) (g_mnc g) (g_mnr g) (g_oet g) (g_pub g)
                 (g_rd g) (g_rn g) (g_slr g) (g_tet g) (g_tpt g) (g_tcd g) (g_tn g) (g_opt g) tcp lang items)
  | _ => Err EIO
  end.

(* ================= WRITER ================= *)

Definition gsi_with_tcf (g : gsi) (tcf : Z) : gsi :=
  mkGsi (g_cct g) (g_cpn g) (g_co g) (g_cd g) (g_dsn g) (g_dsc g) (g_ecd g) (g_en g) (g_fps g) (g_lc g) (g_mnc g) (g_mnr g)
        (g_oet g) (g_opt g) (g_pub g) (g_rd g) (g_rn g) (g_slr g) tcf (g_tcp g) (g_tcs g) (g_tnd g) (g_tng g) (g_tns g)
        (g_tnb g) (g_tet g) (g_tpt g) (g_tcd g) (g_tn g) (g_uda g).

(* the block of 359-378 (defaults) *)
Definition gsi_default (now : str) (n : Z) : gsi :=
  mkGsi stl_c_cctLatin stl_c_codePageMultilingual stl_s_countryFrance now 1 stl_s_dscLevel1 [] [] 25 stl_s_languageFrench
        40 23 [] [] [] now 0 [] 0 0 stl_s_timecodeStatus1 1 1 n n [] [] [] [] [].

(* the block of 382-418, on the dereferenced *s.Metadata
   382  if s.Metadata.STLCreationDate != nil {                               <- guard
   383    g.creationDate = *s.Metadata.STLCreationDate
   396  if v, ok := stlLanguageMapping.GetInverse(s.Metadata.Language); ok {  <- guard
   397    g.languageCode = v.(string)
   400  if s.Metadata.STLMaximumNumberOfDisplayableCharactersInAnyTextRow != nil {   <- guard
   401    ... = *s.Metadata.STLMaximumNumberOfDisplayableCharactersInAnyTextRow
   403  if s.Metadata.STLMaximumNumberOfDisplayableRows != nil {             <- guard
   404    ... = *s.Metadata.STLMaximumNumberOfDisplayableRows
   408  if s.Metadata.STLRevisionDate != nil {                               <- guard
   409    g.revisionDate = *s.Metadata.STLRevisionDate *)
Definition gsi_add_meta_c (now : str) (n : Z) (m : wmeta) : res gsi :=
  do cd <- (if is_some (wm_cd m) then deref (wm_cd m) 383 else Ok now);
  do lc <- match slookup (wm_lang m) stl_language_inv with
           | Some c => do _ <- assert_tag (slookup (wm_lang m) stl_language_inv_tags) tag_string 397; Ok c
           | None => Ok stl_s_languageFrench
           end;
  do mnc <- (if is_some (wm_mnc m) then deref (wm_mnc m) 401 else Ok 40%Z);
  do mnr <- (if is_some (wm_mnr m) then deref (wm_mnr m) 404 else Ok 23%Z);
  do rd <- (if is_some (wm_rd m) then deref (wm_rd m) 409 else Ok now);
  Ok (mkGsi stl_c_cctLatin stl_c_codePageMultilingual
            (match wm_co m with [] => stl_s_countryFrance | c => c end)
            cd 1
            (match wm_dsc m with [] => stl_s_dscLevel1 | c => c end)
            (wm_ecd m) (wm_en m)
            (if o_some (zlookup (wm_fps m) stl_framerate_inv) then wm_fps m else 25%Z)
            lc mnc mnr
            (wm_oet m) (wm_title m) (wm_pub m)
            rd (wm_rn m) (wm_slr m) 0%Z (wm_tcp m) stl_s_timecodeStatus1 1 1 n n
            (wm_tet m) (wm_tpt m) (wm_tcd m) (wm_tn m) []).

(* ---- newGSIBlock (357-425); [md] = s.Metadata, a pointer
   381  if s.Metadata != nil {                      <- guard of every s.Metadata.X of 382-418 (first one: 382)
   421  if len(s.Items) > 0 {                       <- guard
   422    g.timecodeFirstInCue = s.Items[0].StartAt + g.timecodeStartOfProgramme *)
Definition new_gsi_c (now : str) (md : option wmeta) (items : list witem) : res gsi :=
  let n := Z.of_nat (length items) in
  do g1 <- (if is_some md then do m <- deref md 382; gsi_add_meta_c now n m else Ok (gsi_default now n));
  if Nat.ltb 0 (length items) then
    do i0 <- index items 0 422;
    Ok (gsi_with_tcf g1 (wi_st i0 + g_tcp g1)%Z)
  else Ok g1.

(* ---- gsiBlock.bytes (557-597)
   558  bs := make([]byte, 4)
   559  binary.BigEndian.PutUint32(bs, b.codePageNumber)
   560  ... bs[1:] ...
   563  if v, ok := stlFramerateMapping.GetInverse(b.framerate); ok {    <- guard
   564    f = v.(string)
   568  binary.BigEndian.PutUint16(bs, b.characterCodeTableNumber)
   569  ... bs[:2] ... *)
Definition gsi_bytes_c (g : gsi) : res str :=
  let bs := [(g_cpn g / 16777216) mod 256; (g_cpn g / 65536) mod 256; (g_cpn g / 256) mod 256; g_cpn g mod 256] in
  do cpn <- slice_from bs 1 560;
  do f <- match zlookup (g_fps g) stl_framerate_inv with
          | Some f => do _ <- assert_tag (zlookup (g_fps g) stl_framerate_inv_tags) tag_string 564; Ok f
          | None => Ok []
          end;
  let bs' := set_nth (set_nth bs 0 ((g_cct g / 256) mod 256)) 1 (g_cct g mod 256) in
  do cct <- slice_to bs' 2 569;
  Ok (pad_right_cut stl_sp 3 cpn
  ++ pad_right_cut stl_sp 8 f
  ++ pad_right_cut stl_sp 1 (g_dsc g)
  ++ pad_right_cut stl_sp 2 cct
  ++ pad_right_cut stl_sp 2 (g_lc g)
  ++ pad_right_cut stl_sp 32 (g_opt g) ++ pad_right_cut stl_sp 32 (g_oet g)
  ++ pad_right_cut stl_sp 32 (g_tpt g) ++ pad_right_cut stl_sp 32 (g_tet g)
  ++ pad_right_cut stl_sp 32 (g_tn g) ++ pad_right_cut stl_sp 32 (g_tcd g)
  ++ pad_right_cut stl_sp 16 (g_slr g)
  ++ pad_right_cut stl_sp 6 (g_cd g) ++ pad_right_cut stl_sp 6 (g_rd g)
  ++ pad_left_cut 48 2 (itoa_z (g_rn g))
  ++ pad_left_cut 48 5 (itoa_z (g_tnb g)) ++ pad_left_cut 48 5 (itoa_z (g_tns g)) ++ pad_left_cut 48 3 (itoa_z (g_tng g))
  ++ pad_left_cut 48 2 (itoa_z (g_mnc g)) ++ pad_left_cut 48 2 (itoa_z (g_mnr g))
  ++ pad_right_cut stl_sp 1 (g_tcs g)
  ++ pad_right_cut stl_sp 8 (format_stl (g_tcp g) (g_fps g)) ++ pad_right_cut stl_sp 8 (format_stl (g_tcf g) (g_fps g))
  ++ pad_right_cut stl_sp 1 (itoa_z (g_tnd g)) ++ pad_right_cut stl_sp 1 (itoa_z (g_dsn g))
  ++ pad_right_cut stl_sp 3 (g_co g)
  ++ pad_right_cut stl_sp 32 (g_pub g) ++ pad_right_cut stl_sp 32 (g_en g) ++ pad_right_cut stl_sp 32 (g_ecd g)
  ++ repeat stl_sp 651).

(* ---- stlJustificationCodeFromStyle (723-739); [j] = sa.STLJustification behind sa, None when either pointer is nil
   724  if sa == nil || sa.STLJustification == nil { return stlJustificationCodeLeftJustifiedText }     <- guard
   727  switch *sa.STLJustification { *)
Definition jc_of_c (j : option N) : res N :=
  if negb (is_some j) then Ok stl_c_jcLeft
  else
    do v <- deref j 727;
    Ok (if v =? stl_c_justificationCentered then stl_c_jcCentred
        else if v =? stl_c_justificationLeft then stl_c_jcLeft
        else if v =? stl_c_justificationRight then stl_c_jcRight
        else if v =? stl_c_justificationUnchanged then stl_c_jcUnchanged
        else stl_c_jcLeft).
(* ---- stlVerticalPositionFromStyle (741-747)
   742  if sa != nil && sa.STLPosition != nil {       <- guard
   743    return sa.STLPosition.VerticalPosition
   745    return 20 *)
Definition vp_of_c (vp : option Z) : res Z :=
  if is_some vp then deref vp 743 else Ok 20%Z.

(* ---- encodeTextSTL (1049-1062), one code point; [o] is the output so far, REVERSED: o[len(o)-1] is its head,
   o[:len(o)-1] its tail
   1052  if v, ok := stlUnicodeMapping.GetInverse(string(c)); ok {           <- guard
   1053    o = append(o, v.(byte))
   1054  } else if v, ok := stlUnicodeDiacritic.GetInverse(string(c)); ok {  <- guard
   1056    if len(o) == 0 {                                                  <- guard of 1060
   1057      o = append(o, v.(byte)); continue
   1060    o = append(o[:len(o)-1], v.(byte), o[len(o)-1]) *)
Definition enc_step_c (o : list N) (c : N) : res (list N) :=
  match alookup c stl_unicode_mapping_inv with
  | Some b => do _ <- assert_tag (alookup c stl_unicode_mapping_inv_tags) tag_byte 1053; Ok (b :: o)
  | None =>
    match alookup c stl_unicode_diacritic_inv with
    | Some d =>
      if Nat.eqb (length o) 0 then
        do _ <- assert_tag (alookup c stl_unicode_diacritic_inv_tags) tag_byte 1057; Ok (d :: o)
      else
        do o' <- slice_from o 1 1060;
        do _ <- assert_tag (alookup c stl_unicode_diacritic_inv_tags) tag_byte 1060;
        do l <- index o 0 1060;
        Ok (l :: d :: o')
    | None => Ok (c mod 256 :: o)
    end
  end.
Fixpoint enc_fold_c (rs : list N) (o : list N) : res (list N) :=
  match rs with
  | [] => Ok o
  | c :: r => do o' <- enc_step_c o c; enc_fold_c r o'
  end.
Definition encode_text_stl_c (s : str) : res str :=
  match utf8_decode s with
  | Some rs => do o <- enc_fold_c (nfd_runes rs) []; Ok (rev o)
  | None => Ok []
  end.

(* ---- ttiBlock.bytes (782-797): no slicing; the text through the checked encoder (795) *)
Definition tti_bytes_c (fps : Z) (dsc : str) (tcp : Z) (t : tti) : res str :=
  do txt <- encode_text_stl_c (t_text t);
  Ok ([zbyte (t_sgn t); zbyte (t_sn t); zbyte (t_sn t / 256); zbyte (t_ebn t); t_cs t]
      ++ format_stl_bytes (t_in t + tcp) fps ++ format_stl_bytes (t_out t + tcp) fps
      ++ [validate_vp (t_vp t) dsc; t_jc t; t_cf t]
      ++ pad_right_cut 143 112 txt).

(* ---- newTTIBlock (696-721): 702 stlJustificationCodeFromStyle(i.InlineStyle), 707 stlVerticalPositionFromStyle *)
Definition new_tti_c (i : witem) (idx : Z) : res tti :=
  do jc <- jc_of_c (wi_just i);
  do vp <- vp_of_c (wi_vp i);
  Ok (mkTti 0 0 255 jc 0 idx (stl_item_text i) (wi_st i) (wi_en i) vp).

Fixpoint tti_blocks_c (fps : Z) (dsc : str) (tcp : Z) (items : list witem) (idx : Z) : res str :=
  match items with
  | [] => Ok []
  | i :: r =>
    do t <- new_tti_c i idx;
    do bs <- tti_bytes_c fps dsc tcp t;
    do rest <- tti_blocks_c fps dsc tcp r (idx + 1);
    Ok (bs ++ rest)
  end.

(* ---- WriteToSTL (941-964)
   943  if len(s.Items) == 0 { err = ErrNoSubtitlesToWrite; return }
   949  g = newGSIBlock(s); o.Write(g.bytes())
   956  for idx, item := range s.Items { o.Write(newTTIBlock(item, idx+1).bytes(g)) } *)
Definition write_stl_c (now : str) (md : option wmeta) (items : list witem) : res str :=
  if Nat.eqb (length items) 0 then Err ENothingToWrite
  else
    do g <- new_gsi_c now md items;
    do gb <- gsi_bytes_c g;
    do tb <- tti_blocks_c (g_fps g) (g_dsc g) (g_tcp g) items 1;
    Ok (gb ++ tb).

(* ================= the same functions with a guard dropped (Proofs/StlChk.v: [Panic] becomes reachable) ================= *)
(* newGSIBlock without "if s.Metadata != nil" (381) *)
Definition new_gsi_unguarded (now : str) (md : option wmeta) (items : list witem) : res gsi :=
  let n := Z.of_nat (length items) in
  do g1 <- (do m <- deref md 382; gsi_add_meta_c now n m);
  if Nat.ltb 0 (length items) then
    do i0 <- index items 0 422;
    Ok (gsi_with_tcf g1 (wi_st i0 + g_tcp g1)%Z)
  else Ok g1.
(* newGSIBlock without "if len(s.Items) > 0" (421) *)
Definition new_gsi_unguarded_items (now : str) (md : option wmeta) (items : list witem) : res gsi :=
  let n := Z.of_nat (length items) in
  do g1 <- (if is_some md then do m <- deref md 382; gsi_add_meta_c now n m else Ok (gsi_default now n));
  do i0 <- index items 0 422;
  Ok (gsi_with_tcf g1 (wi_st i0 + g_tcp g1)%Z).
(* encodeTextSTL without "if len(o) == 0" (1056) *)
Definition enc_step_unguarded (o : list N) (c : N) : res (list N) :=
  match alookup c stl_unicode_mapping_inv with
  | Some b => do _ <- assert_tag (alookup c stl_unicode_mapping_inv_tags) tag_byte 1053; Ok (b :: o)
  | None =>
    match alookup c stl_unicode_diacritic_inv with
    | Some d =>
      do o' <- slice_from o 1 1060;
      do _ <- assert_tag (alookup c stl_unicode_diacritic_inv_tags) tag_byte 1060;
      do l <- index o 0 1060;
      Ok (l :: d :: o')
    | None => Ok (c mod 256 :: o)
    end
  end.
(* parseDurationSTL without "if len(i) < 8" (602) *)
Definition parse_stl_unguarded (s : str) (fps : Z) : res Z :=
  do hs <- slice s 0 2 608;
  match atoi hs with
  | None => Err EParse
  | Some h =>
    do ms <- slice s 2 4 615;
    match atoi ms with
    | None => Err EParse
    | Some m =>
      do ss <- slice s 4 6 622;
      match atoi ss with
      | None => Err EParse
      | Some sec =>
        do fs <- slice s 6 8 629;
        match atoi fs with
        | None => Err EParse
        | Some f =>
          do fr <- frames_ns_c f fps;
          Ok (h * hour_ns + m * minute_ns + sec * second_ns + fr)%Z
        end
      end
    end
  end.
(* propagateSTLAttributes without "sa.STLPosition.MaxRows > 0" (10364) *)
Definition vtt_line_unguarded (pos : option (Z * Z)) : res str :=
  if is_some pos then
    do p <- deref pos 10364;
    let '(vp, maxrows) := p in
    do l1 <- div_c (vp * 100) maxrows 10366;
    if (maxrows =? 23)%Z && (0 <? vp)%Z then
      do l2 <- div_c ((vp - 1) * 100) maxrows 10372; Ok (itoa_z l2 ++ [37])
    else Ok (itoa_z l1 ++ [37])
  else Ok [].
