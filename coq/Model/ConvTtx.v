(* Styled teletext sources into the five written formats, as the library does it (C07).  The teletext reader leaves, per
   run, the trimmed text and an inline style with TeletextColor / TeletextDoubleHeight,Size,Width / TeletextSpacesBefore,After;
   propagateTeletextAttributes (subtitles.go) turns the colour into TTMLColor "#rrggbb".  What each writer looks at:
   - WriteToSRT: the text of every run, one after the other (SRTColor/SRTBold.. are not set by the teletext reader);
   - WriteToSSA: the same (no SSAEffect);
   - WriteToWebVTT: TTMLColor as a class <c.NAME> for the five colours it knows (cyan, yellow, red, magenta, lime: of the
     teletext colours green #008000, blue, white and black have none), runs one after the other;
   - WriteToTTML: one <span> per run, tts:color from TTMLColor;
   - WriteToSTL: the runs of a line joined with a space (no colour: STL attributes only).
   None of them looks at the double height/width/size attributes or at the space counts.  Definitions only. *)
From Coq Require Import List ZArith NArith Bool.
From Astisub Require Import Kit.Base Kit.Str Model.TtxRow Model.Ttx Model.Plain Model.PlainTtx.
From Astisub Require Import Model.Srt Model.Vtt Model.Ssa Model.Stl Model.Ttml Model.PlainSsa Model.PlainStl Model.PlainTtml.
Import ListNotations.
Open Scope N_scope.

(* Color.TTMLString of the eight teletext colours, with the leading '#': %.6x of red<<16 | green<<8 | blue *)
Definition ttx_color_hex (c : N) : str :=
  35 :: (if c =? 0 then [48;48;48;48;48;48]          (* black *)
         else if c =? 1 then [102;102;48;48;48;48]     (* red ff0000 *)
         else if c =? 2 then [48;48;56;48;48;48]       (* green 008000 *)
         else if c =? 3 then [102;102;102;102;48;48]   (* yellow ffff00 *)
         else if c =? 4 then [48;48;48;48;102;102]     (* blue 0000ff *)
         else if c =? 5 then [102;102;48;48;102;102]   (* magenta ff00ff *)
         else if c =? 6 then [48;48;102;102;102;102]   (* cyan 00ffff *)
         else [102;102;102;102;102;102]).              (* white ffffff *)
Definition ttx_run_color (r : trunT) : option str :=
  match ts_color (tr_sty r) with Some c => Some (ttx_color_hex c) | None => None end.

(* ---- SubRip ---- *)
Definition conv_ttx_srt (cs : list tcue) : list sitem :=
  map (fun c => mkSitem 0 (c_st c) (c_en c) (map (map (fun r : trunT => mkSrun (tr_text r) (Some sa0) 0)) (c_lines c))) cs.
(* ---- WebVTT ---- *)
Definition conv_ttx_vtt (cs : list tcue) : vdoc :=
  mkVdoc (map (fun c => mkVitem 0 (c_st c) (c_en c) [] None None None
                 (map (fun l => mkVline (map (fun r : trunT => mkVrun (tr_text r) (Some []) 0%Z (ttx_run_color r)) l) []) (c_lines c))) cs)
         [] [] None.
(* ---- SSA ---- *)
Definition conv_ttx_ssa (cs : list tcue) : adoc :=
  mkAdoc None []
         (map (fun c => mkAitem (c_st c) (c_en c) None None
                 (map (fun l => mkAline [] (map (fun r : trunT => mkArun (tr_text r) None) l)) (c_lines c))) cs).
(* ---- EBU STL ---- *)
Definition conv_ttx_stl (cs : list tcue) : list witem :=
  map (fun c => mkWitem (c_st c) (c_en c) None None
                 (map (map (fun r : trunT => mkWrun (tr_text r) false false false)) (c_lines c))) cs.
(* ---- TTML ---- *)
Fixpoint ttx_set_nth {A} (n : nat) (v : A) (l : list A) : list A :=
  match l, n with
  | [], _ => []
  | _ :: r, O => v :: r
  | x :: r, S n' => x :: ttx_set_nth n' v r
  end.
(* tts:color is the second of the style attributes *)
Definition ttx_ttml_attrs (r : trunT) : tattrs :=
  match ttx_run_color r with
  | Some c => mkTA (ttx_set_nth 1 (Some c) (ta_s no_attrs)) None
  | None => no_attrs
  end.
Definition conv_ttx_ttml (cs : list tcue) : tdoc :=
  mkDoc None [] []
        (map (fun c => mkItem (c_st c) (c_en c) None None no_attrs
                (map (map (fun r : trunT => mkRun (tr_text r) None (ttx_ttml_attrs r))) (c_lines c))) cs).

(* ---- delivered list -> destination bytes ---- *)
Definition with_ttx_cues {A} (f : list tcue -> res A) (d : ttx_doc) : res A :=
  match ttx_feed 0 d with Ok cs => f cs | Err k => Err k | Panic q => Panic q end.
Definition convert_ttx_srt : ttx_doc -> res str := with_ttx_cues (fun cs => write_srt (conv_ttx_srt cs)).
Definition convert_ttx_vtt : ttx_doc -> res str := with_ttx_cues (fun cs => write_vtt0 (conv_ttx_vtt cs)).
Definition convert_ttx_ssa : ttx_doc -> res str := with_ttx_cues (fun cs => write_ssa (conv_ttx_ssa cs) []).
Definition convert_ttx_stl : ttx_doc -> res str := with_ttx_cues (fun cs => write_stl stl_plain_now None (conv_ttx_stl cs)).
Definition convert_ttx_ttml : ttx_doc -> res str := with_ttx_cues (fun cs => write_ttml_bytes ttml_default_indent (conv_ttx_ttml cs)).
