(* Conversion with operations in between (C07): file -> reader -> sequence of the documented operations
   (sync, fragment, unfragment, merge, optimize, linear correction, order) -> writer -> file, composed from the
   codec models (Model/Srt.v, Model/Vtt.v, Model/Conv.v) and the operation models (Model/Ops.v, Model/Lin.v).

   The operations work on the shared cue list: they look at StartAt/EndAt, at Item.String() (Unfragment) and at
   the style/region references (Optimize); everything else of a cue is opaque content that they copy or keep
   (Fragment copies the struct, so a piece shares the Lines of the cue it was cut from).  The generic item of
   Model/Ops.v carries that content as a *tag*: [i_sty] holds the index of the source cue in a content table
   (SubRip and WebVTT readers never set Item.Style, so the field is free), [back] puts the content back under the
   times the operations computed.  Definitions only. *)
From Coq Require Import List ZArith NArith Bool.
From Astisub Require Import Kit.Base Kit.Str Kit.Scan Kit.Float64 Model.Dur Model.Ops Model.Lin Model.Srt Model.Vtt Model.Conv.
Import ListNotations.

Inductive cop :=
| CAdd (d : Z)
| CFragment (f : Z)
| CUnfragment
| COrder
| COptimize
| CLin (a1 d1 a2 d2 : Z)
| CMerge (other : list sitem).

(* ---- SubRip cues as generic items ---- *)
Definition g_run (r : srun) : run := mkRun (sr_text r) None (match sr_sty r with Some _ => true | None => false end).
Definition g_line (l : list srun) : line := mkLine (map g_run l) [].
Definition g_item (k : nat) (it : sitem) : item :=
  mkItem (N.of_nat (S k)) (si_st it) (si_en it) (map g_line (si_lines it)) None (Some (N.of_nat k)) false.
Fixpoint g_items (k : nat) (l : list sitem) : list item :=
  match l with [] => [] | it :: r => g_item k it :: g_items (S k) r end.

(* state: content table, cue list *)
Definition cstate : Type := list sitem * list item.

Definition apply_cop (o : cop) (s : cstate) : cstate :=
  let '(D, xs) := s in
  match o with
  | CAdd d => (D, add_dur d xs)
  | CFragment f => (D, fragment f xs)
  | CUnfragment => (D, unfragment xs)
  | COrder => (D, order xs)
  | COptimize => (D, items (optimize (mkSubs xs None None)))
  | CLin a1 d1 a2 d2 => (D, linear_correction a1 d1 a2 d2 xs)
  | CMerge other => (D ++ other, items (merge (mkSubs xs None None) (mkSubs (g_items (length D) other) None None) [] []))
  end.

Definition back (D : list sitem) (x : item) : sitem :=
  match i_sty x with
  | Some k => match nth_error D (N.to_nat k) with
              | Some it => mkSitem (si_idx it) (st x) (en x) (si_lines it)
              | None => mkSitem 0 (st x) (en x) []
              end
  | None => mkSitem 0 (st x) (en x) []
  end.

Definition run_cops (ops : list cop) (l : list sitem) : cstate := fold_left (fun s o => apply_cop o s) ops (l, g_items 0 l).
Definition srt_ops (ops : list cop) (l : list sitem) : list sitem :=
  let '(D, xs) := run_cops ops l in map (back D) xs.

(* file to file: SubRip source, operations, SubRip / WebVTT destination *)
Definition convert_srt_ops_srt (ops : list cop) (data : str) : res str :=
  match read_srt data with
  | Ok l => write_srt (srt_ops ops l)
  | Err k => Err k
  | Panic p => Panic p
  end.
Definition convert_srt_ops_vtt (ops : list cop) (data : str) : res str :=
  match read_srt data with
  | Ok l => write_vtt (conv_sv (srt_ops ops l)) [] []
  | Err k => Err k
  | Panic p => Panic p
  end.
