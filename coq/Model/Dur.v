(* Timestamp codec: subtitles.go formatDuration / parseDuration, the per-format wrappers, and the
   STL timecodes of stl.go.  Durations are Z nanoseconds.  No proofs in this file. *)
From Coq Require Import List ZArith NArith Bool.
From Astisub Require Import Kit.Base Kit.Str.
Import ListNotations.
Open Scope Z_scope.

Definition hour_ns : Z := 3600000000000.
Definition minute_ns : Z := 60000000000.
Definition second_ns : Z := 1000000000.
Definition ms_ns : Z := 1000000.
Definition colon : byte := 58%N.
Definition comma : byte := 44%N.
Definition dot : byte := 46%N.

(* "0" prefix when < 10, then Itoa *)
Definition two (v : Z) : str := (if v <? 10 then [48%N] else []) ++ itoa_z v.

(* 10^(9-k): the integer meaning of float64(n)/1e6/10^(3-k) followed by Floor (see Float64 lemmas) *)
Definition frac_div (k : nat) : Z := 10 ^ (9 - Z.of_nat k).

Definition format_duration (t : Z) (sep : str) (k : nat) : str :=
  let hours := Z.quot t hour_ns in
  let minutes := Z.quot (Z.rem t hour_ns) minute_ns in
  let seconds := Z.quot (Z.rem t minute_ns) second_ns in
  let frac := Z.rem t second_ns / frac_div k in     (* Floor: rounds toward -oo *)
  two hours ++ [colon] ++ two minutes ++ [colon] ++ two seconds ++ sep ++ pad_left 48%N k (itoa_z frac).

(* int(math.Pow10(e)) : 0 for negative exponents *)
Definition pow10_int (e : Z) : Z := if e <? 0 then 0 else 10 ^ e.

Definition parse_hms (s : str) : option (Z * Z * Z) :=
  match split_byte colon (trim_space s) with
  | [pm; ps] =>
    match atoi (trim_space ps), atoi (trim_space pm) with
    | Some sec, Some mn => Some (0, mn, sec)
    | _, _ => None
    end
  | [ph; pm; ps] =>
    match atoi (trim_space ps), atoi (trim_space pm) with
    | Some sec, Some mn =>
      match ph with
      | [] => Some (0, mn, sec)
      | _ => match atoi (trim_space ph) with Some h => Some (h, mn, sec) | None => None end
      end
    | _, _ => None
    end
  | _ => None
  end.

Definition parse_duration (s : str) (sep : byte) (k : nat) : option Z :=
  let parts := split_byte sep s in
  match rev parts with
  | lastp :: ((_ :: _) as front_rev) =>
    let f := trim_space lastp in
    if Nat.ltb 3 (length f) then None
    else match atoi f with
         | None => None
         | Some ms =>
           let ms' := ms * pow10_int (Z.of_nat k - Z.of_nat (length f)) in
           match parse_hms (join [sep] (rev front_rev)) with
           | Some (h, mn, sec) => Some (ms' * ms_ns + sec * second_ns + mn * minute_ns + h * hour_ns)
           | None => None
           end
         end
  | _ =>
    match parse_hms s with
    | Some (h, mn, sec) => Some (sec * second_ns + mn * minute_ns + h * hour_ns)
    | None => None
    end
  end.

(* per-format wrappers *)
Definition format_srt (t : Z) : str := format_duration t [comma] 3.
Definition parse_srt (s : str) : option Z :=
  match parse_duration s comma 3 with Some v => Some v | None => parse_duration s dot 3 end.
Definition format_vtt (t : Z) : str := format_duration t [dot] 3.
Definition parse_vtt (s : str) : option Z := parse_duration s dot 3.
Definition format_ssa (t : Z) : str := format_duration t [dot] 2.
Definition parse_ssa (s : str) : option Z := parse_duration s dot 3.
Definition format_ttml (t : Z) : str := format_duration t [dot] 3.

(* ---- STL ---- *)
(* formatDurationSTL: HHMMSSFF, frames = remaining ns * fps / 1e9 (integer) *)
Definition stl_fields (t fps : Z) : Z * Z * Z * Z :=
  let h := Z.quot t hour_ns in
  let t1 := t - h * hour_ns in
  let m := Z.quot t1 minute_ns in
  let t2 := t1 - m * minute_ns in
  let s := Z.quot t2 second_ns in
  let t3 := t2 - s * second_ns in
  (h, m, s, Z.quot (t3 * fps) second_ns).
Definition format_stl (t fps : Z) : str :=
  let '(h, m, s, f) := stl_fields t fps in two h ++ two m ++ two s ++ two f.
Definition format_stl_bytes (t fps : Z) : list N :=
  let '(h, m, s, f) := stl_fields t fps in map (fun v => Z.to_N (v mod 256)) [h; m; s; f].
(* stlFramesToNanoseconds: (1e9 * frames + fps - 1) / fps, Go integer division *)
Definition frames_ns (frames fps : Z) : Z := Z.quot (second_ns * frames + fps - 1) fps.
Definition parse_stl_bytes (b : list N) (fps : Z) : Z :=
  match b with
  | [h; m; s; f] => Z.of_N h * hour_ns + Z.of_N m * minute_ns + Z.of_N s * second_ns + frames_ns (Z.of_N f) fps
  | _ => 0
  end.
Definition sub2 (s : str) (i : nat) : str := firstn 2 (skipn i s).
Definition parse_stl (s : str) (fps : Z) : option Z :=
  match atoi (sub2 s 0), atoi (sub2 s 2), atoi (sub2 s 4), atoi (sub2 s 6) with
  | Some h, Some m, Some sec, Some f => Some (h * hour_ns + m * minute_ns + sec * second_ns + frames_ns f fps)
  | _, _, _, _ => None
  end.
