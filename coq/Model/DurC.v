(* subtitles.go parseDuration, checked transcription: the slice accesses behind their length tests as explicit panic
   sites (line numbers of subtitles.go).  Proofs/DurChk.v: no site is reachable; agreement with Model.Dur.parse_duration. *)
From Coq Require Import List ZArith NArith Bool Arith.
From Astisub Require Import Kit.Base Kit.Str Kit.Chk Model.Dur.
Import ListNotations.
Open Scope Z_scope.

(* parts = Split(TrimSpace(s), ":"); len 2: parts[1], parts[0]; len 3: parts[2], parts[1], parts[0]; else error *)
Definition parse_hms_c (s : str) : res (option (Z * Z * Z)) :=
  let parts := split_byte colon (trim_space s) in
  if Nat.eqb (length parts) 2 then
    do ps <- index parts 1 824; do pm <- index parts 0 825;
    Ok (match atoi (trim_space ps), atoi (trim_space pm) with
        | Some sec, Some mn => Some (0, mn, sec)
        | _, _ => None
        end)
  else if Nat.eqb (length parts) 3 then
    do ps <- index parts 2 827; do pm <- index parts 1 828; do ph <- index parts 0 829;
    Ok (match atoi (trim_space ps), atoi (trim_space pm) with
        | Some sec, Some mn =>
          match ph with
          | [] => Some (0, mn, sec)
          | _ => match atoi (trim_space ph) with Some h => Some (h, mn, sec) | None => None end
          end
        | _, _ => None
        end)
  else Ok None.
(* parts := Split(i, sep); if len(parts) >= 2 { parts[len(parts)-1]; parts[:len(parts)-1] } *)
(* [index parts (length parts - 1) 803] panics on the empty list ([index [] 0]), so 803 is sound as written;
   parts[:len(parts)-1] is [slice_to_pred] (Kit/Chk.v), Panic 815 on the empty list as Go's [:-1].  strings.Split never
   returns an empty slice for a non-empty separator, so what the guard len(parts) >= 2 protects against is not a panic but
   the one-part case (no separator): the guard-dropped variant of Proofs/DurChk.v makes that visible with a split
   result that can be empty. *)
Definition parse_duration_c (s : str) (sep : byte) (k : nat) : res (option Z) :=
  let parts := split_byte sep s in
  if Nat.leb 2 (length parts) then
    do lastp <- index parts (length parts - 1) 803;
    let f := trim_space lastp in
    if Nat.ltb 3 (length f) then Ok None
    else match atoi f with
         | None => Ok None
         | Some ms =>
           let ms' := ms * pow10_int (Z.of_nat k - Z.of_nat (length f)) in
           do front <- slice_to_pred parts 815;
           do hms <- parse_hms_c (join [sep] front);
           Ok (match hms with
               | Some (h, mn, sec) => Some (ms' * ms_ns + sec * second_ns + mn * minute_ns + h * hour_ns)
               | None => None
               end)
         end
  else
    do hms <- parse_hms_c s;
    Ok (match hms with
        | Some (h, mn, sec) => Some (sec * second_ns + mn * minute_ns + h * hour_ns)
        | None => None
        end).
