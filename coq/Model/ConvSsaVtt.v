(* Conversion SSA/ASS -> WebVTT as the library does it for STYLED sources (C07): ReadFromSSA fills the shared cue list,
   WriteToWebVTT writes what it looks at.  Transcribed from ssa.go (ReadFromSSAWithOptions, ssaEvent.item, ssaStyle.style,
   ssaScriptInfo.metadata), subtitles.go (propagateSSAAttributes is empty) and webvtt.go (WriteToWebVTT, Line.webVTTBytes,
   LineItem.webVTTBytes):

     what WriteToWebVTT reads                  what ReadFromSSA put there
     ----------------------------------------  ------------------------------------------------------------------------
     Metadata.WebVTTTimestampMap               nil (metadata() sets Comments, Title and the SSA fields only)
     Styles[id].InlineStyle.WebVTTStyles       every SSA style has a non-nil InlineStyle with SSA fields only: no line
     Regions                                   empty map
     Item.Comments                             nil
     Item.StartAt / EndAt                      the Start / End columns
     Item.InlineStyle: WebVTTAlign, Line,      non-nil (Effect, Layer, margins, Marked only): all five are empty strings
       Position, Size, Vertical
     Item.Style.InlineStyle, same five         the referenced SSA style, if any: empty strings as well
     Item.Region                               nil
     Line.VoiceName                            the Name column, on every line of the event
     LineItem.InlineStyle.TTMLColor            nil
     LineItem.InlineStyle.WebVTTTags           nil (a run that follows an override block has a non-nil InlineStyle with
                                               SSAEffect only, which the WebVTT writer does not look at)
     LineItem.StartAt                          0
     LineItem.Text                             the text between the override blocks

   So: one numbered cue per Dialogue event, times to the millisecond, every line prefixed by the voice tag when the
   Name column is not empty, then the run texts (escaped) one after the other; no STYLE block although the styles map
   is not empty.  Definitions only (proofs: Proofs/ConvSsaVttProofs.v). *)
From Coq Require Import List ZArith NArith Bool.
From Astisub Require Import Kit.Base Kit.Str Model.Ssa Model.Vtt.
Import ListNotations.

(* a run: InlineStyle nil (no override block before it) or non-nil without tags *)
Definition ssavtt_run (r : arun) : vrun :=
  mkVrun (ar_text r) (match ar_eff r with Some _ => Some [] | None => None end) 0%Z None.
Definition ssavtt_line (l : aline) : vline := mkVline (map ssavtt_run (al_runs l)) (al_voice l).
(* Item.Index is left at 0 by the SSA reader (the WebVTT writer numbers the cues itself) *)
Definition ssavtt_item (i : aitem) : vitem :=
  mkVitem 0 (ai_start i) (ai_end i) [] None
          (match ai_inl i with Some _ => Some vset0 | None => None end)
          (match ai_style i with Some _ => Some vset0 | None => None end)
          (map ssavtt_line (ai_lines i)).
(* the styles map: same keys, no WebVTT style line under any of them *)
Definition ssavtt_styles (m : list (str * option astyle)) : list (str * option (list str)) :=
  map (fun p : str * option astyle => (fst p, match snd p with Some _ => Some [] | None => None end)) m.
Definition conv_ssa_vtt (d : adoc) : vdoc :=
  mkVdoc (map ssavtt_item (ad_items d)) [] (ssavtt_styles (ad_styles d)) None.

(* file to file; the WebVTT writer ranges over the styles map (keys of the SSA styles) and the empty regions map *)
Definition convert_ssa_vtt (data : str) : res str :=
  match read_ssa data with
  | Ok d => write_vtt (conv_ssa_vtt d) (style_keys d) []
  | Err k => Err k
  | Panic p => Panic p
  end.

(* The same cue list with the runs of every line put together: the WebVTT writer emits nothing between two runs that
   carry neither tags nor a timestamp nor a colour, so that is the document its bytes denote (the WebVTT reader returns
   one run per stretch of text).  The representability hypothesis of C07_ssa_to_vtt_styled is stated on this form. *)
Definition ssavtt_line_text (l : aline) : str := concat (map ar_text (al_runs l)).
Definition ssavtt_line_m (l : aline) : vline := mkVline [mkVrun (ssavtt_line_text l) None 0%Z None] (al_voice l).
Definition ssavtt_item_m (i : aitem) : vitem :=
  mkVitem 0 (ai_start i) (ai_end i) [] None
          (match ai_inl i with Some _ => Some vset0 | None => None end)
          (match ai_style i with Some _ => Some vset0 | None => None end)
          (map ssavtt_line_m (ai_lines i)).
Definition conv_ssa_vtt_m (d : adoc) : vdoc :=
  mkVdoc (map ssavtt_item_m (ad_items d)) [] (ssavtt_styles (ad_styles d)) None.
(* escapeHTML works on each run separately: putting the texts together before escaping gives the same bytes unless a run
   ends with the byte 0xC2 and the next one starts with 0xA0 (the two halves of a no-break space: impossible when every
   run text is valid UTF-8, 0xC2 being a lead byte) *)
Definition ends_c2 (t : str) : bool := (last t 0 =? 194)%N.
Definition ssavtt_join_ok (d : adoc) : bool :=
  forallb (fun i => forallb (fun l => forallb (fun r => negb (ends_c2 (ar_text r))) (al_runs l)) (ai_lines i)) (ad_items d).
