(* srt.go: ReadFromSRT (over the scanner's tokens), parseTextSrt, WriteToSRT.  Definitions only. *)
From Coq Require Import List ZArith NArith Bool.
From Astisub Require Import Kit.Base Kit.Str Kit.Html Kit.Scan Model.Dur.
Import ListNotations.
Open Scope N_scope.

(* running style attributes (SRTBold, SRTItalics, SRTUnderline, SRTColor) *)
Record sa := mkSa { sa_b : bool; sa_i : bool; sa_u : bool; sa_col : option str }.
Definition sa0 : sa := mkSa false false false None.
Definition sa_styled (a : sa) : bool := sa_b a || sa_i a || sa_u a || match sa_col a with Some _ => true | None => false end.

(* a run: Text and InlineStyle (nil, or the four SRT attributes plus position for the writer) *)
Record srun := mkSrun { sr_text : str; sr_sty : option sa; sr_pos : N }.
Record sitem := mkSitem { si_idx : Z; si_st : Z; si_en : Z; si_lines : list (list srun) }.

(* ---- escaping: strings.NewReplacer over the three pairs ---- *)
Fixpoint first_match (pairs : list (str * str)) (s : str) : option (str * str) :=
  match pairs with
  | [] => None
  | (o, n) :: ps => match prefix o s with Some rest => Some (n, rest) | None => first_match ps s end
  end.
Fixpoint replace_fuel (fuel : nat) (pairs : list (str * str)) (s : str) : str :=
  match fuel with
  | O => s
  | S f =>
    match s with
    | [] => []
    | c :: t => match first_match pairs s with
                | Some (n, rest) => n ++ replace_fuel f pairs rest
                | None => c :: replace_fuel f pairs t
                end
    end
  end.
Definition replace_all (pairs : list (str * str)) (s : str) : str := replace_fuel (S (length s)) pairs s.
Definition e_amp : str := [38;97;109;112;59].
Definition e_lt : str := [38;108;116;59].
Definition e_nbsp : str := [38;110;98;115;112;59].
Definition nbsp : str := [194;160].
Definition esc_pairs : list (str * str) := [([38], e_amp); ([60], e_lt); (nbsp, e_nbsp)].
Definition unesc_pairs : list (str * str) := [(e_amp, [38]); (e_lt, [60]); (e_nbsp, nbsp)].
Definition escape_html : str -> str := replace_all esc_pairs.
Definition unescape_html : str -> str := replace_all unesc_pairs.

(* ---- parseTextSrt ---- *)
Definition n_b : str := [98].  Definition n_i : str := [105].  Definition n_u : str := [117].
Definition n_font : str := [102;111;110;116].  Definition n_color : str := [99;111;108;111;114].

Definition sa_start (a : sa) (name : str) (attrs : list (str * str)) : sa :=
  if str_eqb name n_b then mkSa true (sa_i a) (sa_u a) (sa_col a)
  else if str_eqb name n_i then mkSa (sa_b a) true (sa_u a) (sa_col a)
  else if str_eqb name n_u then mkSa (sa_b a) (sa_i a) true (sa_col a)
  else if str_eqb name n_font then
    match attr_get n_color attrs with Some c => mkSa (sa_b a) (sa_i a) (sa_u a) (Some c) | None => a end
  else a.
Definition sa_end (a : sa) (name : str) : sa :=
  if str_eqb name n_b then mkSa false (sa_i a) (sa_u a) (sa_col a)
  else if str_eqb name n_i then mkSa (sa_b a) false (sa_u a) (sa_col a)
  else if str_eqb name n_u then mkSa (sa_b a) (sa_i a) false (sa_col a)
  else if str_eqb name n_font then mkSa (sa_b a) (sa_i a) (sa_u a) None
  else a.

Fixpoint parse_toks (ts : list htok) (a : sa) (acc : list srun) : list srun * sa :=
  match ts with
  | [] => (rev acc, a)
  | HText raw :: r =>
      match trim_space raw with
      | [] => parse_toks r a acc
      | _ => parse_toks r a (mkSrun (unescape_html raw) (if sa_styled a then Some a else None) 0 :: acc)
      end
  | HStart n attrs _ :: r => parse_toks r (sa_start a n attrs) acc
  | HEnd n _ :: r => parse_toks r (sa_end a n) acc
  | HSelfClose _ _ _ :: r => parse_toks r a acc
  | HComment _ :: r => parse_toks r a acc
  end.
Definition parse_text_srt (line : str) (a : sa) : list srun * sa :=
  match trim_space line with
  | [] => ([mkSrun [] None 0], a)
  | _ => parse_toks (tokenize line) a []
  end.

(* ---- ReadFromSRT ---- *)
Definition arrow : str := [45;45;62].
Definition bom : str := [239;187;191].
Definition run_texts (l : list srun) : str := concat (map sr_text l).

(* strip trailing empty-text runs of a line *)
Fixpoint strip_runs_rev (rs : list srun) : list srun :=
  match rs with
  | r :: t => match sr_text r with [] => strip_runs_rev t | _ => rs end
  | [] => []
  end.
(* "remove trailing empty lines": from the last line to the first; a line left without runs truncates the list there *)
Fixpoint strip_lines (ls : list (list srun)) : list (list srun) :=
  match ls with
  | [] => []
  | l :: rest =>
      let rest' := strip_lines rest in
      match l with
      | [] => l :: rest'
      | _ => match rev (strip_runs_rev (rev l)) with
             | [] => []
             | l' => l' :: rest'
             end
      end
  end.
(* closes the previous cue: its last line, if its text is not empty, is the next cue's index *)
Definition finalize (ls : list (list srun)) : list (list srun) * str :=
  match rev ls with
  | [] => ([], [])
  | lastl :: before =>
    match run_texts lastl with
    | [] => (strip_lines ls, [])
    | index => (strip_lines (rev before), index)
    end
  end.
(* end of input: nothing is an index, trailing empty lines go *)
Definition finalize_eof (ls : list (list srun)) : list (list srun) := strip_lines ls.

Record rstate := mkR { r_done : list sitem; r_cur : option sitem; r_sa : sa; r_pre : list (list srun) }.

(* utf8.ValidString *)
Fixpoint utf8_valid_fuel (fuel : nat) (s : str) : bool :=
  match fuel with
  | O => true
  | S f =>
    match s with
    | [] => true
    | c :: t =>
      if c <? 128 then utf8_valid_fuel f t
      else if (194 <=? c) && (c <=? 223) then
        match t with c1 :: t1 => (128 <=? c1) && (c1 <=? 191) && utf8_valid_fuel f t1 | _ => false end
      else if (224 <=? c) && (c <=? 239) then
        match t with
        | c1 :: c2 :: t2 =>
          let lo := if c =? 224 then 160 else 128 in
          let hi := if c =? 237 then 159 else 191 in
          (lo <=? c1) && (c1 <=? hi) && (128 <=? c2) && (c2 <=? 191) && utf8_valid_fuel f t2
        | _ => false
        end
      else if (240 <=? c) && (c <=? 244) then
        match t with
        | c1 :: c2 :: c3 :: t3 =>
          let lo := if c =? 240 then 144 else 128 in
          let hi := if c =? 244 then 143 else 191 in
          (lo <=? c1) && (c1 <=? hi) && (128 <=? c2) && (c2 <=? 191) && (128 <=? c3) && (c3 <=? 191) && utf8_valid_fuel f t3
        | _ => false
        end
      else false
    end
  end.
Definition utf8_valid (s : str) : bool := utf8_valid_fuel (S (length s)) s.

Definition close_cur (s : rstate) (fl : list (list srun)) : list sitem :=
  match r_cur s with
  | Some it => r_done s ++ [mkSitem (si_idx it) (si_st it) (si_en it) fl]
  | None => r_done s
  end.

Definition srt_step (s : rstate) (first : bool) (raw : str) : res rstate :=
  let line0 := trim_space raw in
  if negb (utf8_valid line0) then Err EParse else
  let line := if first then trim_prefix bom line0 else line0 in
  if contains arrow line then
    let curlines := match r_cur s with Some it => si_lines it | None => r_pre s end in
    let '(fl, index) := finalize curlines in
    let done' := close_cur s fl in
    match Str.split arrow line with
    | l :: r :: _ =>
      match fields r with
      | [] => Err EParse                     (* nothing after "-->" *)
      | e :: _ =>
        match parse_srt l, parse_srt e with
        | Some d0, Some d1 =>
          let idx := match index with [] => 0%Z | _ => atoi_val index end in
          Ok (mkR done' (Some (mkSitem idx d0 d1 [])) sa0 [])
        | _, _ => Err EParse
        end
      end
    | _ => Err EParse
    end
  else
    let '(rs, a') := parse_text_srt line (r_sa s) in
    match rs with
    | [] => Ok (mkR (r_done s) (r_cur s) a' (r_pre s))
    | _ =>
      match r_cur s with
      | Some it => Ok (mkR (r_done s) (Some (mkSitem (si_idx it) (si_st it) (si_en it) (si_lines it ++ [rs]))) a' (r_pre s))
      | None => Ok (mkR (r_done s) None a' (r_pre s ++ [rs]))
      end
    end.

Fixpoint srt_run (s : rstate) (first : bool) (ls : list str) : res rstate :=
  match ls with
  | [] => Ok s
  | l :: r => match srt_step s first l with
              | Ok s' => srt_run s' false r
              | Err k => Err k
              | Panic p => Panic p
              end
  end.
(* [scan_err]: the scanner stopped on a read error or an over-long line *)
Definition read_srt_lines (ls : list str) (scan_err : bool) : res (list sitem) :=
  match srt_run (mkR [] None sa0 []) true ls with
  | Ok s =>
    if scan_err then Err EIO
    else Ok (match r_cur s with
             | Some it => r_done s ++ [mkSitem (si_idx it) (si_st it) (si_en it) (finalize_eof (si_lines it))]
             | None => r_done s
             end)
  | Err k => Err k
  | Panic p => Panic p
  end.
Definition read_srt (data : str) : res (list sitem) := read_srt_lines (lines data) false.

(* ---- WriteToSRT ---- *)
Definition s_font_open : str := [60;102;111;110;116;32;99;111;108;111;114;61;34].   (* opening of the font tag up to the quote *)
Definition s_font_close : str := [60;47;102;111;110;116;62].
Definition tag_open (c : N) : str := [60; c; 62].
Definition tag_close (c : N) : str := [60; 47; c; 62].
Definition run_bytes (r : srun) : str :=
  let '(color, b, i, u) := match sr_sty r with
                           | Some a => (match sa_col a with Some c => c | None => [] end, sa_b a, sa_i a, sa_u a)
                           | None => ([], false, false, false)
                           end in
  (match color with [] => [] | _ => s_font_open ++ color ++ [34; 62] end) ++
  (if b then tag_open 98 else []) ++ (if i then tag_open 105 else []) ++ (if u then tag_open 117 else []) ++
  (if sr_pos r =? 0 then [] else [123;92;97;110] ++ itoa (sr_pos r) ++ [125]) ++
  escape_html (sr_text r) ++
  (if u then tag_close 117 else []) ++ (if i then tag_close 105 else []) ++ (if b then tag_close 98 else []) ++
  (match color with [] => [] | _ => s_font_close end).
Definition line_bytes (l : list srun) : str := concat (map run_bytes l) ++ [10].
Definition arrow_sp : str := [32;45;45;62;32].
Fixpoint items_bytes (k : nat) (l : list sitem) : str :=
  match l with
  | [] => []
  | it :: r =>
    itoa (N.of_nat (S k)) ++ [10] ++ format_srt (si_st it) ++ arrow_sp ++ format_srt (si_en it) ++ [10] ++
    concat (map line_bytes (si_lines it)) ++ [10] ++ items_bytes (S k) r
  end.
Definition write_srt (l : list sitem) : res str :=
  match l with
  | [] => Err ENothingToWrite
  | _ => Ok (bom ++ removelast (items_bytes 0 l))
  end.
