(* TTML through the plain view (C07), at byte level: the writer's bytes with the default indent option, read back
   by the XML parser model (Kit/XmlParse.v) followed by the tree reader.  Definitions only. *)
From Coq Require Import List ZArith NArith Bool.
From Astisub Require Import Kit.Base Kit.Str Kit.Xml Kit.XmlParse Kit.XmlParse2 Kit.XmlEsc Model.Dur Model.Ttml Model.TtmlGo Model.Plain.
Import ListNotations.

(* WriteToTTMLOptions{Indent: "    "} *)
Definition ttml_default_indent : str := [32; 32; 32; 32]%N.
(* the unstyled document a text-only cue list amounts to: no metadata, no styles, no regions, one run per line *)
Definition ttml_of_plain (p : plain) : tdoc :=
  mkDoc None [] []
        (map (fun c : pcue => let '(s, e, ls) := c in
                mkItem s e None None no_attrs (map (fun t => [mkRun t None no_attrs]) ls)) p).
Definition ttml_line_text (l : list trun) : str := concat (map tr_txt l).
Definition ttml_to_plain (d : tdoc) : plain :=
  map (fun it => (ti_st it, ti_en it, map ttml_line_text (ti_lines it))) (td_items d).
(* ReadFromTTML on bytes of the XML subset the encoder emits *)
Definition read_ttml_bytes (data : str) : res tdoc :=
  match xml_parse data with Some t => read_ttml t | None => Err EParse end.
(* the bytes as Go's encoder writes them (xml.EscapeText exactly: Kit/XmlEsc.v) *)
Definition ttml_enc (p : plain) : res str := write_ttml_bytes_go ttml_default_indent (ttml_of_plain p).
Definition ttml_dec : str -> res plain := dec_with read_ttml_bytes ttml_to_plain.

(* the same decoder over the XML parser model for hand-written documents (Kit/XmlParse2.v: prolog, both quote styles,
   self-closing tags, character references, comments): what the plain view uses for TTML sources *)
Definition read_ttml_bytes2 (data : str) : res tdoc :=
  match xml_parse2 data with Some t => read_ttml t | None => Err EParse end.
Definition ttml_dec2 : str -> res plain := dec_with read_ttml_bytes2 ttml_to_plain.
