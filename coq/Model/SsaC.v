(* ssa.go, checked transcription: the same reader and writer as Model/Ssa.v with every run-time panic site of the Go
   code (slice index, slicing, nil dereference, call of a nil func value, store into a nil map) spelled out as a
   checked access (Kit/Chk.v) behind the code's own guard.  Site numbers are the line numbers of ssa.go.
   Proofs/SsaChk.v shows that no site is reachable and that these functions agree with the pattern-matching
   transcription of Model/Ssa.v, on which the fidelity theorems of C04 are stated.  The table of all sites with the
   guard that dominates each one is in notes/C04.md (Real panic sites (C08) -- ssa.go).
   Not re-transcribed (library contracts): the index pairs of regexp.FindAllStringIndex (ssaRegexpEffect) and the
   slices of the line taken at these indices (the pieces of [segments]); map look-ups, len and range (never panic, also
   on a nil map); strconv / strings / fmt / sort.  Definitions only. *)
From Coq Require Import List ZArith NArith Bool Arith.
From Astisub Require Import Kit.Base Kit.Str Kit.Scan Kit.Chk Model.Dur Model.DurC Model.Ssa.
Import ListNotations.
Open Scope N_scope.

(* ---------------------------------------------------------------- checked accesses used here *)
(* l[a:b]: 0 <= a <= b <= len(l) *)
Definition slice_range {A} (l : list A) (a b : nat) (site : N) : res (list A) :=
  do t <- slice_to l b site; slice_from t a site.
(* the Go int n-1 used as an index or slice bound ([idx_pred], Panic when n = 0): now in Kit/Chk.v, shared with the
   SubRip / WebVTT / parseDuration transcriptions *)

(* SSAOptions: two func values, either of which may be nil; calling a nil func value panics.  The callbacks only
   observe the line (they return nothing), so a non-nil one is [Some tt]. *)
Record ssa_opts := mkSsaOpts { so_unknown : option unit; so_invalid : option unit }.
(* if opts.OnUnknownSectionName != nil { opts.OnUnknownSectionName(line) } *)
Definition on_unknown_c (o : ssa_opts) : res unit :=
  if is_some (so_unknown o) then deref (so_unknown o) 176 else Ok tt.
(* if opts.OnInvalidLine != nil { opts.OnInvalidLine(line) } *)
Definition on_invalid_c (o : ssa_opts) : res unit :=
  if is_some (so_invalid o) then deref (so_invalid o) 198 else Ok tt.

(* ---------------------------------------------------------------- newColorFromSSAColor *)
(* if strings.HasPrefix(i, "&H") { s = i[2:]; base = 16 } *)
Definition parse_color_c (item : str) : res (option acolor) :=
  if Nat.eqb (length item) 0 then Ok None
  else
    do sb <- (if has_prefix amp_h item then do s <- slice_from item 2 289; Ok (s, true) else Ok (item, false));
    let '(s, hex) := sb in
    match (if hex then parse_int_hex s else atoi s) with
    | Some i => Ok (Some (color_of_int i))
    | None => Err EParse
    end.

(* ---------------------------------------------------------------- newSSAStyleFromString *)
(* one column; only the colour columns reach a site (the slice above).  The other columns: the results of strconv are
   used behind err == nil, the stores go through s = &ssaStyle{} (L546) *)
Definition style_cell_c (attr item : str) (s : astyle) : res astyle :=
  match sattr_of_name attr with
  | Some (AC a) => do c <- parse_color_c item; Ok (cset a c s)
  | _ => style_cell attr item s
  end.
(* for idx, item := range items { if attr, ok = format[idx]; !ok { error } ... }: no index expression on items *)
Fixpoint style_loop_c (fmt : list str) (idx : nat) (items : list str) (s : astyle) : res astyle :=
  match items with
  | [] => Ok s
  | item :: r =>
    match nth_error fmt idx with
    | None => Err EParse
    | Some attr => do s' <- style_cell_c attr item s; style_loop_c fmt (S idx) r s'
    end
  end.
(* With more items than the format has columns the loop ends in the error of L551-554 at idx = len(format), unless an
   earlier column has already failed: an error either way.  Model/Ssa.v answers Err EParse without looking at the
   columns, and so does this transcription (an error kind, not a panic site, is at stake). *)
Definition style_from_string_c (content : str) (fmt : list str) : res astyle :=
  let items := split_byte comma content in
  if Nat.ltb (length items) (length fmt) then Err EParse
  else if Nat.ltb (length fmt) (length items) then Err EParse
  else style_loop_c fmt 0 items astyle0.

(* ---------------------------------------------------------------- newSSAEventFromString *)
(* parseDurationSSA = parseDuration(i, ".", 3): the checked transcription of Model/DurC.v *)
Definition parse_time_c (item : str) : res (option Z) :=
  do r <- parse_duration_c item dot 3;
  Ok (match r with Some t => Some (wrap64 t) | None => None end).
(* one column; only Start / End reach sites (inside parseDuration) *)
Definition event_cell_c (attr item : str) (e : aevent) : res aevent :=
  match eattr_of_name attr with
  | Some EStart =>
    do d <- parse_time_c item;
    match d with
    | Some d => Ok (mkAevent (av_category e) (av_effect e) (av_end e) (av_layer e) (av_marked e) (av_ml e) (av_mr e) (av_mv e)
                             (av_name e) d (av_style e) (av_text e))
    | None => Err EParse
    end
  | Some EEnd =>
    do d <- parse_time_c item;
    match d with
    | Some d => Ok (mkAevent (av_category e) (av_effect e) d (av_layer e) (av_marked e) (av_ml e) (av_mr e) (av_mv e)
                             (av_name e) (av_start e) (av_style e) (av_text e))
    | None => Err EParse
    end
  | _ => event_cell attr item e
  end.
Fixpoint event_loop_c (fmt : list str) (idx : nat) (items : list str) (e : aevent) : res aevent :=
  match items with
  | [] => Ok e
  | item :: r =>
    match nth_error fmt idx with
    | None => Err EParse
    | Some attr => do e' <- event_cell_c attr item e; event_loop_c fmt (S idx) r e'
    end
  end.
(* if len(items) < len(format) { error }
   items[len(format)-1] = strings.Join(items[len(format)-1:], ",")        (L977)
   items = items[:len(format)]                                            (L978)
   The guard of len(format)-1 >= 0 is in the caller: len(format) == 0 returns at L220. *)
Definition event_from_string_c (header content : str) (fmt : list str) : res aevent :=
  let items := split_byte comma content in
  let n := length fmt in
  if Nat.ltb (length items) n then Err EParse
  else
    do k <- idx_pred n 977;
    do tail <- slice_from items k 977;
    do _ <- index items k 977;
    let items1 := set_nth items k (join [comma] tail) in
    do items2 <- slice_to items1 n 978;
    event_loop_c fmt 0 items2 (aevent0 header).

(* ---------------------------------------------------------------- ssaEvent.item *)
(* matches = ssaRegexpEffect.FindAllStringIndex(s, -1) as the pieces of [segments]: pre = s[:matches[0][0]], and for
   each match (the block, the text up to the next match or the end).
     for _, idxs := range matches {
       if lineItem != nil { lineItem.Text = ...; l.Items = append(l.Items, *lineItem) }          (L1103-1105)
       else if idxs[0] > 0 { l.Items = append(l.Items, LineItem{Text: s[0:idxs[0]]}) }
       lineItem = &LineItem{...SSAEffect: block} }
   state: li = the pending lineItem (nil before the first match), prev = the text that follows its block *)
Fixpoint eff_loop_c (bs : list (str * str)) (pre prev : str) (li : option str) (acc : list arun)
  : res (option str * str * list arun) :=
  match bs with
  | [] => Ok (li, prev, acc)
  | (blk, t) :: r =>
    do acc' <- (if is_some li then do e <- deref li 1104; Ok (acc ++ [mkArun prev (Some e)])
                else if Nat.ltb 0 (length pre) then Ok (acc ++ [mkArun pre None])
                else Ok acc);
    eff_loop_c r pre t (Some blk) acc'
  end.
(* if len(matches) > 0 { loop; lineItem.Text = s[previousEffectEndOffset:]; append( *lineItem) }  (L1112-1113)
   else { LineItem{Text: s} } *)
Definition line_runs_c (s : str) : res (list arun) :=
  let '(pre, bs) := segments s in
  if Nat.ltb 0 (length bs) then
    do x <- eff_loop_c bs pre [] None [];
    let '(li, prev, acc) := x in
    do e <- deref li 1112;
    Ok (acc ++ [mkArun prev (Some e)])
  else Ok [mkArun pre None].
Fixpoint lines_loop_c (name : str) (ss : list str) : res (list aline) :=
  match ss with
  | [] => Ok []
  | s :: r => do rs <- line_runs_c (trim_space s); do rest <- lines_loop_c name r; Ok (mkAline name rs :: rest)
  end.
Definition text_lines_c (name text : str) : res (list aline) := lines_loop_c name (Str.split bsl_n (repl_N text)).
(* i = &Item{..., InlineStyle: &StyleAttributes{...}}; styles[name] is a comma-ok look-up *)
Definition event_item_c (e : aevent) (styles : list (str * option astyle)) : res aitem :=
  let sty := match av_style e with
             | [] => None
             | n => if sm_mem n styles then Some n
                    else let n' := trim_prefix star n in if sm_mem n' styles then Some n' else None
             end in
  do ls <- text_lines_c (av_name e) (av_text e);
  Ok (mkAitem (av_start e) (av_end e) sty
              (Some (mkAevattr (av_effect e) (av_layer e) (av_ml e) (av_mr e) (av_mv e) (av_marked e))) ls).

(* ---------------------------------------------------------------- ReadFromSSAWithOptions *)
(* the reader's state; [c_fmt] is the variable format map[int]string: None = the nil map it is declared as (L143),
   Some l = a map made at a section header (L165, L172) with the keys 0 .. len(l)-1 *)
Record acstate := mkAcstate { c_sect : asect; c_fmt : option (list str); c_info : ainfo;
                            c_styles : list astyle; c_events : list aevent }.
Definition acstate0 : acstate := mkAcstate SNone None ainfo0 [] [].
(* reading a map never panics: the nil map reads as the empty one *)
Definition fmt_read (f : option (list str)) : list str := match f with Some l => l | None => [] end.
Definition c_erase (s : acstate) : rstate := mkRstate (c_sect s) (fmt_read (c_fmt s)) (c_info s) (c_styles s) (c_events s).
Definition sect_unknown (x : asect) : bool := match x with SUnknown => true | _ => false end.

(* if strings.HasPrefix(line, "[") && strings.HasSuffix(line, "]") { switch strings.ToLower(line[1 : len(line)-1]) *)
Definition ssa_header_h (unk : res unit) (s : acstate) (line : str) : res acstate :=
  do inner <- slice_range line 1 (length line - 1) 162;
  match section_of inner with
  | SEvents => Ok (mkAcstate SEvents (Some []) (c_info s) (c_styles s) (c_events s))
  | SInfo => Ok (mkAcstate SInfo (c_fmt s) (c_info s) (c_styles s) (c_events s))
  | SStyles => Ok (mkAcstate SStyles (Some []) (c_info s) (c_styles s) (c_events s))
  | _ => do _ <- unk; Ok (mkAcstate SUnknown (c_fmt s) (c_info s) (c_styles s) (c_events s))
  end.
(* for idx, item := range strings.Split(content, ",") { format[idx] = strings.TrimSpace(item) }: a store into the map *)
Definition format_store_c (f : option (list str)) (cells : list str) : res (option (list str)) :=
  match cells with
  | [] => Ok f
  | _ => do m <- deref f 216; Ok (Some (overlay cells m))
  end.
(* switch sectionName { case script info: si.parse; case events, styles: Format line | row } *)
Definition ssa_dispatch_c (s : acstate) (header content : str) : res acstate :=
  match c_sect s with
  | SInfo =>
    (* si = &ssaScriptInfo{} (L137); parse has no index expression *)
    do info' <- info_parse (c_info s) header content;
    Ok (mkAcstate (c_sect s) (c_fmt s) info' (c_styles s) (c_events s))
  | SEvents | SStyles =>
    if str_eqb header n_format then
      do m <- format_store_c (c_fmt s) (map trim_space (split_byte comma content));
      Ok (mkAcstate (c_sect s) m (c_info s) (c_styles s) (c_events s))
    else
      let fmt := fmt_read (c_fmt s) in
      if Nat.eqb (length fmt) 0 then Err EParse          (* L220: no format provided *)
      else
        match c_sect s with
        | SEvents =>
          do e <- event_from_string_c header content fmt;
          Ok (mkAcstate (c_sect s) (c_fmt s) (c_info s) (c_styles s) (c_events s ++ [e]))
        | _ =>
          do st <- style_from_string_c content fmt;
          Ok (mkAcstate (c_sect s) (c_fmt s) (c_info s) (c_styles s ++ [st]) (c_events s))
        end
  | _ => Ok s
  end.
(* var split = strings.Split(line, ":")
   if len(split) < 2 || split[0] == "" { invalid line; continue }
   header = TrimSpace(split[0]); content = TrimSpace(Join(split[1:], ":")); switch sectionName { ... }
   [inv] = what the invalid-line branch does before continue *)
Definition ssa_kv_h (inv : res unit) (s : acstate) (line : str) : res acstate :=
  let split := split_byte 58 line in
  do bad <- (if Nat.ltb (length split) 2 then Ok true else do h <- index split 0 196; Ok (Nat.eqb (length h) 0));
  if bad then do _ <- inv; Ok s
  else
    do h <- index split 0 202;
    do rest <- slice_from split 1 203;
    ssa_dispatch_c s (trim_space h) (trim_space (join [58] rest)).
(* one (trimmed, non-empty) line; [unk], [inv]: what the unknown-section and the invalid-line branches do *)
Definition ssa_line_h (unk inv : res unit) (s : acstate) (line : str) : res acstate :=
  if has_prefix [91] line && has_suffix [93] line then ssa_header_h unk s line
  else if sect_unknown (c_sect s) then Ok s
  else
    (* if len(line) > 0 && line[0] == ';' { comments = append(comments, TrimSpace(line[1:])) } *)
    do semi <- (if Nat.ltb 0 (length line) then do c <- index line 0 189; Ok (c =? 59) else Ok false);
    if semi then
      do r <- slice_from line 1 190;
      Ok (mkAcstate (c_sect s) (c_fmt s) (add_comment (trim_space r) (c_info s)) (c_styles s) (c_events s))
    else ssa_kv_h inv s line.
Definition ssa_step_h (unk inv : res unit) (s : acstate) (first : bool) (raw : str) : res acstate :=
  let line0 := trim_space raw in
  let line := if first then trim_prefix bom3 line0 else line0 in
  if Nat.eqb (length line) 0 then Ok s else ssa_line_h unk inv s line.
Fixpoint ssa_run_h (unk inv : res unit) (s : acstate) (first : bool) (ls : list str) : res acstate :=
  match ls with
  | [] => Ok s
  | l :: r => match ssa_step_h unk inv s first l with
              | Ok s' => ssa_run_h unk inv s' false r
              | Err k => Err k
              | Panic p => Panic p
              end
  end.
(* for _, e := range es { if e.category == "Dialogue" { item, err = e.item(o.Styles); o.Items = append(...) } } *)
Fixpoint items_loop_c (evs : list aevent) (m : list (str * option astyle)) : res (list aitem) :=
  match evs with
  | [] => Ok []
  | e :: r => if is_dialogue e then do i <- event_item_c e m; do rest <- items_loop_c r m; Ok (i :: rest)
              else items_loop_c r m
  end.
(* o.Metadata = si.metadata(); o.Styles[st.ID] = st: o.Styles is made by NewSubtitles (L135), st is a composite literal *)
Definition finish_c (s : acstate) : res adoc :=
  let m := styles_map (c_styles s) in
  do items <- items_loop_c (c_events s) m;
  Ok (mkAdoc (Some (c_info s)) m items).
Definition read_ssa_lines_h (unk inv : res unit) (ls : list str) (scan_err : bool) : res adoc :=
  match ssa_run_h unk inv acstate0 true ls with
  | Ok s => if scan_err then Err EIO else finish_c s
  | Err k => Err k
  | Panic p => Panic p
  end.
(* THE CHECKED READER, for any value of the options *)
Definition read_ssa_lines_c (o : ssa_opts) (ls : list str) (scan_err : bool) : res adoc :=
  read_ssa_lines_h (on_unknown_c o) (on_invalid_c o) ls scan_err.
Definition read_ssa_c (o : ssa_opts) (data : str) : res adoc := read_ssa_lines_c o (lines data) false.

(* ---------------------------------------------------------------- WriteToSSA *)
(* newSSAScriptInfo(m *Metadata): if m != nil { o.collisions = m.SSACollisions; ... (L326-341) } *)
Definition script_info_c (m : option ainfo) : res ainfo :=
  if is_some m then deref m 326 else Ok ainfo0.
(* ssaScriptInfo.bytes: if b.playDepth != nil { ... strconv.Itoa( *b.playDepth) } etc. *)
Definition info_num_line_c (k : nkey) (b : ainfo) (site : N) : res str :=
  if is_some (nget k b) then do v <- deref (nget k b) site; Ok (info_line (nkey_name k) (itoa_z v)) else Ok [].
Definition info_bytes_c (b : ainfo) : res str :=
  do pd <- info_num_line_c KPlayDepth b 441;
  do px <- info_num_line_c KPlayResX b 444;
  do py <- info_num_line_c KPlayResY b 447;
  do tm <- (if is_some (an_timer b) then do t <- deref (an_timer b) 459; Ok (info_line n_timer (dot_to_comma (format_float_short t)))
            else Ok []);
  Ok (n_script_info_hdr ++ nl ++
      concat (map (fun c => [59; 32] ++ c ++ nl) (an_comments b)) ++
      info_str_line KCollisions b ++ info_str_line KOriginalEditing b ++ info_str_line KOriginalScript b ++
      info_str_line KOriginalTiming b ++ info_str_line KOriginalTranslation b ++
      pd ++ px ++ py ++
      info_str_line KScriptType b ++ info_str_line KScriptUpdatedBy b ++ info_str_line KSynchPoint b ++
      tm ++
      info_str_line KTitle b ++ info_str_line KUpdateDetails b ++ info_str_line KWrapStyle b).

(* ssaStyle.string: one cell.  if b != nil { v = "0"; if *b { v = "1" } }; if c != nil { newSSAColorFromColor(c) };
   if f != nil { FormatFloat( *f ...) }; if i != nil { Itoa( *i) } *)
Definition style_cell_string_c (a : sattr) (s : astyle) : res (option str) :=
  match a with
  | AB x => if is_some (bget x s) then do b <- deref (bget x s) 786; Ok (Some (format_bool b)) else Ok (Some [])
  | AC x => if is_some (cget x s) then do c <- deref (cget x s) 805; Ok (Some (format_color c)) else Ok (Some [])
  | AF x => if is_some (fget x s) then do f <- deref (fget x s) 831; Ok (Some (format_float3 f)) else Ok (Some [])
  | AI x => if is_some (iget x s) then do i <- deref (iget x s) 852; Ok (Some (itoa_z i)) else Ok (Some [])
  | AFontName => Ok (Some (ay_fontname s))
  | AName => Ok None
  end.
Fixpoint style_cells_string_c (fmt : list sattr) (s : astyle) : res (list str) :=
  match fmt with
  | [] => Ok []
  | a :: r =>
    do c <- style_cell_string_c a s;
    do rest <- style_cells_string_c r s;
    Ok (match c with Some v => v :: rest | None => rest end)
  end.
Definition style_string_c (s : astyle) (fmt : list sattr) : res str :=
  do cells <- style_cells_string_c fmt s; Ok (join [comma] (ay_name s :: cells)).

(* for _, id := range styleIDs { var s = s.Styles[id]; var ss = newSSAStyleFromStyle( *s) ... }         (L1234-1236)
   styleIDs holds the keys whose element is not nil (L1228-1232): the guard of *s.  A style value carries its
   attributes directly (a nil Style.InlineStyle is replaced by an empty one at L503-505 before the reads of L507-530) *)
Fixpoint styles_loop_c (d : adoc) (ids : list str) : res (list astyle) :=
  match ids with
  | [] => Ok []
  | id :: r =>
    let p := match sm_get id (ad_styles d) with Some o => o | None => None end in
    do st <- deref p 1236;
    do rest <- styles_loop_c d r;
    Ok (st :: rest)
  end.
(* for _, n := range styleNames { ... styles[n].string(format) ... }: a method with a value receiver called through the
   pointer the look-up returns; every name was stored at L1238 *)
Fixpoint style_rows_c (tbl : list (str * astyle)) (fmt : list sattr) (names : list str) : res str :=
  match names with
  | [] => Ok []
  | n :: r =>
    do st <- deref (sm_get n tbl) 1246;
    do row <- style_string_c st fmt;
    do rest <- style_rows_c tbl fmt r;
    Ok (n_style_pfx ++ row ++ nl ++ rest)
  end.
(* formatMap, styles: made at L1222, L1224 *)
Definition styles_bytes_c (d : adoc) (order : list str) (v4p : bool) : res str :=
  let ids := ssort (filter (fun k => match sm_get k (ad_styles d) with Some (Some _) => true | _ => false end) order) in
  do sts <- styles_loop_c d ids;
  let fmt := fold_left (fun f st => update_format st f) sts [AName] in
  let tbl := fold_left (fun m st => sm_set (ay_name st) st m) sts [] in
  let names := ssort (map ay_name sts) in
  do rows <- style_rows_c tbl fmt names;
  Ok (nl ++ (if v4p then n_styles_hdr_v4p else n_styles_hdr_v4) ++ nl ++
      n_format_pfx ++ join comma_sp (map sattr_name fmt) ++ nl ++ rows).

(* newSSAEventFromItem: if item.InlineStyle != nil && len(item.InlineStyle.SSAEffect) > 0 { s += ... } *)
Definition run_string_c (r : arun) : res str :=
  do e <- (if is_some (ar_eff r) then deref (ar_eff r) 950 else Ok []);
  Ok (e ++ ar_text r).
Fixpoint runs_string_c (rs : list arun) : res str :=
  match rs with
  | [] => Ok []
  | r :: t => do x <- run_string_c r; do y <- runs_string_c t; Ok (x ++ y)
  end.
Fixpoint lines_string_c (ls : list aline) : res (list str) :=
  match ls with
  | [] => Ok []
  | l :: t => do x <- runs_string_c (al_runs l); do y <- lines_string_c t; Ok (x :: y)
  end.
(* if i.Style != nil { e.style = i.Style.ID }; if i.InlineStyle != nil { e.effect = i.InlineStyle.SSAEffect; ... } *)
Definition event_of_item_c (i : aitem) : res aevent :=
  do sty <- (if is_some (ai_style i) then deref (ai_style i) 931 else Ok []);
  do a <- (if is_some (ai_inl i) then deref (ai_inl i) 936 else Ok (mkAevattr [] None None None None None));
  do ls <- lines_string_c (ai_lines i);
  Ok (mkAevent n_dialogue (ae_effect a) (ai_end i) (ae_layer a) (ae_marked a) (ae_ml a) (ae_mr a) (ae_mv a)
               (item_name (ai_lines i)) (ai_start i) sty (join bsl_n ls)).
(* ssaEvent.string: if e.marked != nil && *e.marked; if i == nil { i = astikit.IntPtr(0) }; v = strconv.Itoa( *i) *)
Definition int_cell_c (v : option Z) : res str :=
  let p := if is_some v then v else Some 0%Z in
  do z <- deref p 1168; Ok (itoa_z z).
Definition event_cell_string_c (a : eattr) (e : aevent) : res str :=
  match a with
  | EMarked => do m <- (if is_some (av_marked e) then deref (av_marked e) 1146 else Ok false);
               Ok (if m then n_marked1 else n_marked0)
  | ELayer => int_cell_c (av_layer e)
  | EMarginL => int_cell_c (av_ml e)
  | EMarginR => int_cell_c (av_mr e)
  | EMarginV => int_cell_c (av_mv e)
  | _ => Ok (event_cell_string a e)
  end.
Fixpoint event_cells_string_c (fmt : list eattr) (e : aevent) : res (list str) :=
  match fmt with
  | [] => Ok []
  | a :: r => do c <- event_cell_string_c a e; do rest <- event_cells_string_c r e; Ok (c :: rest)
  end.
Definition event_string_c (e : aevent) (fmt : list eattr) : res str :=
  do cells <- event_cells_string_c fmt e; Ok (join [comma] cells).
(* for _, i := range s.Items { events = append(events, newSSAEventFromItem( *i)) }; for _, e := range events { ... } *)
Fixpoint event_rows_c (items : list aitem) (fmt : list eattr) : res str :=
  match items with
  | [] => Ok []
  | i :: r =>
    do e <- event_of_item_c i;
    do row <- event_string_c e fmt;
    do rest <- event_rows_c r fmt;
    Ok (n_dialogue_pfx ++ row ++ nl ++ rest)
  end.
(* format[0] = ssaEventFormatNameLayer: the nine-element literal of L1263 *)
Definition events_bytes_c (d : adoc) (v4p : bool) : res str :=
  let fmt := event_format v4p in
  do rows <- event_rows_c (ad_items d) fmt;
  Ok (nl ++ n_events_hdr ++ nl ++ n_format_pfx ++ join comma_sp (map eattr_name fmt) ++ nl ++ rows).

Definition write_ssa_chunks_c (d : adoc) (order : list str) : res (list str) :=
  if Nat.eqb (length (ad_items d)) 0 then Err ENothingToWrite
  else
    do info <- script_info_c (ad_meta d);
    do ib <- info_bytes_c info;
    (* var v4plus = s.Metadata != nil && s.Metadata.SSAScriptType == "v4.00+" *)
    do v4p <- (if is_some (ad_meta d) then do m <- deref (ad_meta d) 1211; Ok (str_eqb (an_scripttype m) n_v4plus)
               else Ok false);
    do sb <- (if Nat.ltb 0 (length (ad_styles d)) then do b <- styles_bytes_c d order v4p; Ok [b] else Ok []);
    do eb <- events_bytes_c d v4p;
    Ok ([ib] ++ sb ++ [eb]).
(* THE CHECKED WRITER *)
Definition write_ssa_c (d : adoc) (order : list str) : res str :=
  do cs <- write_ssa_chunks_c d order; Ok (concat cs).

(* Subtitles.Items is a []*Item whose elements may be nil: WriteToSSA starts with s.Items = nonNilItems(s.Items)
   (L1199), which is the guard of the *i of L1279; [d] carries the other parts of the value *)
Definition write_ssa_items_c (items : list (option aitem)) (d : adoc) (order : list str) : res str :=
  write_ssa_c (mkAdoc (ad_meta d) (ad_styles d) (somes items)) order.
