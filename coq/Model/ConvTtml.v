(* Styled conversions INTO TTML (C07): what WriteToTTML sees of a cue list produced by the SubRip, WebVTT and SSA
   readers - the shared Subtitles value is not modelled as such; transcribed from the readers, propagate*Attributes
   (subtitles.go) and ttmlOutStyleAttributesFromStyleAttributes (ttml.go):
   * SubRip: no metadata, styles or regions; per run only the font colour travels (propagateSRTAttributes:
     TTMLColor = SRTColor, written as tts:color on the run's span); bold/italic/underline and the position are not
     TTML attributes; every run is its own span;
   * WebVTT: the regions map is written as layout (xml:id only: the region settings are WebVTT attributes) and the
     cue's region as the p's region attribute; the STYLE blocks live in one style entry (webvtt-default-style-id)
     written as an empty style element; tags, classes, voices, settings, comments, the timestamp map (a Metadata
     without title, copyright or language) are not looked at;
   * SSA/ASS: Script Info gives a Metadata whose Title is written as ttm:title (no language, no copyright); every
     style of the styles map is written as an empty style element (SSA attributes are not TTML attributes) and the
     event's style as the p's style attribute; effects, margins, layer, speaker names are not looked at.
   The tables are listed in key order (a Go map has none; the writer sorts).  Definitions only. *)
From Coq Require Import List ZArith NArith Bool.
From Astisub Require Import Kit.Base Kit.Str Kit.Xml Kit.XmlParse2 Kit.SortOrd Model.Dur Model.Srt Model.Vtt Model.Ssa Model.Stl
  Model.Ttml Model.TtmlGo Model.Plain Model.PlainSsa Model.PlainStl Model.PlainTtml.
Import ListNotations.

(* inline attributes with only tts:color set (slot 1 of attr_names) *)
Definition color_attrs (c : option str) : tattrs :=
  mkTA (None :: c :: map (fun _ => None) (tl (tl attr_names))) None.

(* ---- SubRip -> TTML ---- *)
Definition st_run (r : srun) : trun :=
  mkRun (sr_text r) None (color_attrs (match sr_sty r with Some a => sa_col a | None => None end)).
Definition st_item (it : sitem) : titem :=
  mkItem (si_st it) (si_en it) None None no_attrs (map (map st_run) (si_lines it)).
Definition conv_srt_ttml (l : list sitem) : tdoc := mkDoc None [] [] (map st_item l).

(* ---- WebVTT -> TTML ---- *)
Definition vt_run (r : vrun) : trun := mkRun (vr_text r) None no_attrs.
Definition vt_item (it : vitem) : titem :=
  mkItem (vi_st it) (vi_en it) (vi_region it) None no_attrs (map (fun l => map vt_run (vl_runs l)) (vi_lines it)).
Definition conv_vtt_ttml (d : vdoc) : tdoc :=
  mkDoc None
        (sort_keys (map (fun kv => (fst kv, mkStyle (fst kv) None no_attrs)) (vd_styles d)))
        (sort_keys (map (fun kv => (fst kv, mkStyle (rg_id (snd kv)) None no_attrs)) (vd_regions d)))
        (map vt_item (vd_items d)).

(* ---- SSA/ASS -> TTML ---- *)
Definition at_run (r : arun) : trun := mkRun (ar_text r) None no_attrs.
Definition at_item (it : aitem) : titem :=
  mkItem (ai_start it) (ai_end it) None (ai_style it) no_attrs (map (fun l => map at_run (al_runs l)) (ai_lines it)).
Definition at_styles (m : list (str * option astyle)) : list (str * tstyle) :=
  flat_map (fun kv => match snd kv with Some st => [(fst kv, mkStyle (ay_name st) None no_attrs)] | None => [] end) m.
Definition conv_ssa_ttml (d : adoc) : tdoc :=
  mkDoc (match ad_meta d with Some i => Some (mkMeta 0 (an_title i) [] []) | None => None end)
        (sort_keys (at_styles (ad_styles d))) [] (map at_item (ad_items d)).

(* ---- EBU STL -> TTML ---- *)
(* EBU STL sources: Model/ConvStlTtml.v (the runs' colour attribute reaches the TTML writer) *)

(* ---- file to file: the destination bytes as Go's encoder writes them (default indent) ---- *)
Definition to_ttml_bytes (d : tdoc) : res str := write_ttml_bytes_go ttml_default_indent d.
Definition convert_srt_ttml (data : str) : res str :=
  match read_srt data with Ok l => to_ttml_bytes (conv_srt_ttml l) | Err k => Err k | Panic p => Panic p end.
Definition convert_vtt_ttml (data : str) : res str :=
  match read_vtt data with Ok d => to_ttml_bytes (conv_vtt_ttml d) | Err k => Err k | Panic p => Panic p end.
Definition convert_ssa_ttml (data : str) : res str :=
  match read_ssa data with Ok d => to_ttml_bytes (conv_ssa_ttml d) | Err k => Err k | Panic p => Panic p end.
