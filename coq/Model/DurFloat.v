(* stl.go formatDurationSTL / formatDurationSTLBytes as the code computes them: the hour, minute and second fields go
   through float64 - time.Duration.Hours() / Minutes() / Seconds() (go1.23 time.go: float64(d / unit) +
   float64(d % unit) / unit, the unit an exact float64 constant), then math.Floor and the comparison "< 10" for the
   leading zero; the frame field is integer arithmetic (int(d.Nanoseconds()) * framerate / 1e9: the untyped constant
   becomes an int), as in Model/Dur.v.  Definitions only; Proofs/DurFloatProofs.v shows they equal [stl_fields],
   [format_stl] and [format_stl_bytes]. *)
From Coq Require Import List ZArith NArith Bool.
From Flocq Require Import Core BinarySingleNaN.
From Astisub Require Import Kit.Base Kit.Str Kit.Float64 Model.Dur.
Import ListNotations.
Open Scope Z_scope.

(* d.Hours(), d.Minutes(), d.Seconds() *)
Definition dur_float (t unit : Z) : f64 := fadd (of_Z (Z.quot t unit)) (fdiv (of_Z (Z.rem t unit)) (of_Z unit)).
(* x < y on float64 *)
Definition flt64 (x y : f64) : bool := match @Bcompare prec emax x y with Some Lt => true | _ => false end.
(* if x < 10 { "0" }; strconv.Itoa(int(math.Floor(x))) *)
Definition two_float (x : f64) : str := (if flt64 x (of_Z 10) then [48%N] else []) ++ itoa_z (floor_Z x).

Definition stl_fields_float (t fps : Z) : Z * Z * Z * Z :=
  let h := floor_Z (dur_float t hour_ns) in
  let t1 := t - h * hour_ns in
  let m := floor_Z (dur_float t1 minute_ns) in
  let t2 := t1 - m * minute_ns in
  let s := floor_Z (dur_float t2 second_ns) in
  let t3 := t2 - s * second_ns in
  (h, m, s, Z.quot (t3 * fps) second_ns).
Definition format_stl_float (t fps : Z) : str :=
  let hf := dur_float t hour_ns in
  let t1 := t - floor_Z hf * hour_ns in
  let mf := dur_float t1 minute_ns in
  let t2 := t1 - floor_Z mf * minute_ns in
  let sf := dur_float t2 second_ns in
  let t3 := t2 - floor_Z sf * second_ns in
  two_float hf ++ two_float mf ++ two_float sf ++ two (Z.quot (t3 * fps) second_ns).
Definition format_stl_bytes_float (t fps : Z) : list N :=
  let '(h, m, s, f) := stl_fields_float t fps in map (fun v => Z.to_N (v mod 256)) [h; m; s; f].
