(* Conversion TTML -> SSA/ASS as the library does it (C07, styled sources): ReadFromTTML fills the shared Subtitles
   value, WriteToSSA looks at part of it.  What travels, transcribed from ttml.go (ReadFromTTML, TTMLIn.metadata,
   TTMLInStyleAttributes.styleAttributes) and ssa.go (WriteToSSA, newSSAScriptInfo, newSSAStyleFromStyle,
   newSSAEventFromItem):
   - Metadata: ReadFromTTML always sets it (Title, TTMLCopyright, Language, Framerate; no Comments, every SSA field
     empty); newSSAScriptInfo copies Comments, the SSA fields and Title: the script info holds the title only.  The
     script type is empty: the document is written as v4 ([V4 Styles], Marked column).
   - Styles map: every TTML style is stored under its ID with an InlineStyle that carries TTML (and derived WebVTT)
     attributes only; newSSAStyleFromStyle takes the name from Style.ID and the SSA attributes from InlineStyle: all
     nil pointers / empty font name.  The styles section therefore lists EVERY style of the map (referenced or not,
     parent links ignored) as a row holding the name only, under the format line [Format: Name].
   - Regions: not looked at by the SSA writer.
   - Items: times; Style column = Item.Style.ID; Item.InlineStyle is non-nil but its SSA fields (effect, layer,
     margins, marked) are zero: empty effect, [Marked=0], margins 0; no voice names: empty Name column; the text is,
     per line, the texts of the runs put together (a TTML run never carries an SSAEffect), lines joined by \n.
     The region, the inline TTML attributes and the style references of the runs do not travel.
   Definitions only (proofs: Proofs/ConvTtmlSsaProofs.v). *)
From Coq Require Import List ZArith NArith Bool.
From Astisub Require Import Kit.Base Kit.Str Kit.Xml Kit.XmlParse2 Model.Dur Model.Ttml Model.Ssa Model.Plain Model.PlainTtml Model.PlainSsa.
Import ListNotations.

(* newSSAScriptInfo(ttml.metadata()) *)
Definition tsa_info (m : tmeta) : ainfo := kset KTitle (tm_title m) ainfo0.
(* newSSAStyleFromStyle(Style{ID, InlineStyle: TTML attributes only}) *)
Definition tsa_style (s : tstyle) : astyle := set_name (ts_id s) astyle0.
(* a LineItem: its text; InlineStyle.SSAEffect is empty *)
Definition tsa_run (r : trun) : arun := mkArun (tr_txt r) None.
Definition tsa_line (l : list trun) : aline := mkAline [] (map tsa_run l).
(* Item.InlineStyle = styleAttributes(): non-nil, SSA fields zero *)
Definition tsa_inl : aevattr := mkAevattr [] None None None None None.
Definition tsa_item (it : titem) : aitem :=
  mkAitem (ti_st it) (ti_en it) (ti_style it) (Some tsa_inl) (map tsa_line (ti_lines it)).
Definition tsa_styles (m : list (str * tstyle)) : list (str * option astyle) :=
  map (fun kv => (fst kv, Some (tsa_style (snd kv)))) m.

(* what WriteToSSA sees of the Subtitles value ReadFromTTML built *)
Definition conv_ttml_ssa (d : tdoc) : adoc :=
  mkAdoc (match td_meta d with Some m => Some (tsa_info m) | None => None end)
         (tsa_styles (td_styles d))
         (map tsa_item (td_items d)).
(* the keys of the styles map (one admissible iteration order of [range s.Styles]; the writer sorts them) *)
Definition tsa_keys (d : tdoc) : list str := map fst (td_styles d).

(* file to file; [reorder] stands for the order in which the runtime ranges over the styles map (any permutation) *)
Definition convert_ttml_ssa_by (reorder : list str -> list str) (data : str) : res str :=
  match read_ttml_bytes2 data with
  | Ok d => write_ssa (conv_ttml_ssa d) (reorder (tsa_keys d))
  | Err k => Err k
  | Panic p => Panic p
  end.
Definition convert_ttml_ssa (data : str) : res str := convert_ttml_ssa_by (fun l => l) data.

(* The same document with the runs of every line put together: the SSA writer emits the same bytes for both (it
   concatenates the run texts of a line), and this is the shape the SSA reader returns (a line without override
   block is one run).  The representability hypothesis of the conversion theorem is stated on this form. *)
Definition tsa_line_nf (l : list trun) : aline := mkAline [] [mkArun (ttml_line_text l) None].
Definition tsa_item_nf (it : titem) : aitem :=
  mkAitem (ti_st it) (ti_en it) (ti_style it) (Some tsa_inl) (map tsa_line_nf (ti_lines it)).
Definition conv_ttml_ssa_nf (d : tdoc) : adoc :=
  mkAdoc (match td_meta d with Some m => Some (tsa_info m) | None => None end)
         (tsa_styles (td_styles d))
         (map tsa_item_nf (td_items d)).

(* write, read back, plain view: what the counter-examples of Proofs/ConvTtmlSsaProofs.v compute *)
Definition tsa_trip (d : tdoc) : res plain :=
  match write_ssa (conv_ttml_ssa d) (tsa_keys d) with
  | Ok dst => ssa_dec dst
  | Err k => Err k
  | Panic p => Panic p
  end.
