(* C07, plain view of the EBU STL codec: the unstyled document a plain cue list amounts to for WriteToSTL (one run
   per line, no inline attributes, no STL position or justification, no metadata: the library's defaults - teletext
   display standard "1", 25 frames per second, French/FRA, dates from the clock), and the plain view of what
   ReadFromSTL returns.  Definitions only. *)
From Coq Require Import List ZArith NArith Bool.
From Astisub Require Import Kit.Base Kit.Str Model.Plain Model.Stl.
Import ListNotations.

(* the clock value the conversion property fixes for the writer (Now() as yymmdd): 29 February 2024 *)
Definition stl_plain_now : str := [50;52;48;50;50;57]%N.
(* the frame duration at the default 25 frames per second *)
Definition stl_plain_unit : Z := 40000000%Z.

Definition stl_of_plain (p : plain) : list witem :=
  map (fun c : pcue => let '(s, e, ls) := c in
         mkWitem s e None None (map (fun t => [mkWrun t false false false]) ls)) p.
Definition stl_line_text (l : list erun) : str := concat (map ru_text l).
Definition stl_to_plain (d : rdoc) : plain :=
  map (fun it => (ri_st it, ri_en it, map stl_line_text (ri_lines it))) (rd_items d).

Definition stl_enc (p : plain) : res str := write_stl stl_plain_now None (stl_of_plain p).
Definition stl_dec : str -> res plain := dec_with (read_stl false) stl_to_plain.
