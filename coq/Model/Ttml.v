(* ttml.go: TTMLInDuration.UnmarshalText / duration, ReadFromTTML, WriteToTTML, over the XML tree
   abstraction of Kit/Xml.v (the encoding/xml layer is a contract, see notes/C03.md).  Definitions only. *)
From Coq Require Import List ZArith NArith Bool.
From Astisub Require Import Kit.Base Kit.Str Kit.Float64 Kit.Float64x Kit.Xml Kit.SortOrd Model.Dur.
Import ListNotations.
Open Scope N_scope.

(* ---- names ---- *)
Definition s_zIndex : str := [122;73;110;100;101;120].
Definition s_br : str := [98;114].
Definition s_tt : str := [116;116].
Definition s_head : str := [104;101;97;100].
Definition s_metadata : str := [109;101;116;97;100;97;116;97].
Definition s_styling : str := [115;116;121;108;105;110;103].
Definition s_style : str := [115;116;121;108;101].
Definition s_layout : str := [108;97;121;111;117;116].
Definition s_region : str := [114;101;103;105;111;110].
Definition s_body : str := [98;111;100;121].
Definition s_div : str := [100;105;118].
Definition s_p : str := [112].
Definition s_span : str := [115;112;97;110].
Definition s_title : str := [116;105;116;108;101].
Definition s_copyright : str := [99;111;112;121;114;105;103;104;116].
Definition s_id : str := [105;100].
Definition s_lang : str := [108;97;110;103].
Definition s_begin : str := [98;101;103;105;110].
Definition s_end : str := [101;110;100].
Definition s_frameRate : str := [102;114;97;109;101;82;97;116;101].
Definition s_tickRate : str := [116;105;99;107;82;97;116;101].
Definition s_xmlns : str := [120;109;108;110;115].
Definition s_ttm : str := [116;116;109].
Definition s_tts : str := [116;116;115].
Definition s_dot000 : str := [46;48;48;48].
Definition ns_ttml : str := [104;116;116;112;58;47;47;119;119;119;46;119;51;46;111;114;103;47;110;115;47;116;116;109;108].
Definition ns_ttm : str := ns_ttml ++ [35;109;101;116;97;100;97;116;97].
Definition ns_tts : str := ns_ttml ++ [35;115;116;121;108;105;110;103].
Definition ns_xml : str := [104;116;116;112;58;47;47;119;119;119;46;119;51;46;111;114;103;47;88;77;76;47;49;57;57;56;47;110;97;109;101;115;112;97;99;101].
(* the 23 string attributes of TTMLInStyleAttributes / TTMLOutStyleAttributes, in field order *)
Definition attr_names : list str :=
  [[98;97;99;107;103;114;111;117;110;100;67;111;108;111;114]; (* backgroundColor *)
   [99;111;108;111;114]; (* color *)
   [100;105;114;101;99;116;105;111;110]; (* direction *)
   [100;105;115;112;108;97;121]; (* display *)
   [100;105;115;112;108;97;121;65;108;105;103;110]; (* displayAlign *)
   [101;120;116;101;110;116]; (* extent *)
   [102;111;110;116;70;97;109;105;108;121]; (* fontFamily *)
   [102;111;110;116;83;105;122;101]; (* fontSize *)
   [102;111;110;116;83;116;121;108;101]; (* fontStyle *)
   [102;111;110;116;87;101;105;103;104;116]; (* fontWeight *)
   [108;105;110;101;72;101;105;103;104;116]; (* lineHeight *)
   [111;112;97;99;105;116;121]; (* opacity *)
   [111;114;105;103;105;110]; (* origin *)
   [111;118;101;114;102;108;111;119]; (* overflow *)
   [112;97;100;100;105;110;103]; (* padding *)
   [115;104;111;119;66;97;99;107;103;114;111;117;110;100]; (* showBackground *)
   [116;101;120;116;65;108;105;103;110]; (* textAlign *)
   [116;101;120;116;68;101;99;111;114;97;116;105;111;110]; (* textDecoration *)
   [116;101;120;116;79;117;116;108;105;110;101]; (* textOutline *)
   [117;110;105;99;111;100;101;66;105;100;105]; (* unicodeBidi *)
   [118;105;115;105;98;105;108;105;116;121]; (* visibility *)
   [119;114;97;112;79;112;116;105;111;110]; (* wrapOption *)
   [119;114;105;116;105;110;103;77;111;100;101]]. (* writingMode *)
(* ttmlLanguageMapping *)
Definition lang_table : list (str * str) :=
  [([122;104], [99;104;105;110;101;115;101]);          (* zh chinese *)
   ([101;110], [101;110;103;108;105;115;104]);         (* en english *)
   ([102;114], [102;114;101;110;99;104]);              (* fr french *)
   ([106;97], [106;97;112;97;110;101;115;101]);        (* ja japanese *)
   ([110;111], [110;111;114;119;101;103;105;97;110])]. (* no norwegian *)

(* ================= time expressions ================= *)
(* d, frames, ticks, and the value of an offset expressed in frames / in ticks, fraction included (zero otherwise) *)
Record tdur := mkDurV { td_d : Z; td_frames : Z; td_ticks : Z; td_fval : f64; td_tval : f64 }.
Definition mkDur (d f t : Z) : tdur := mkDurV d f t fzero fzero.
Inductive metric := Mh | Mm | Ms | Mms | Mf | Mt.

Fixpoint span_digits (s : str) : str * str :=
  match s with
  | c :: r => if is_digit c then let '(d, t) := span_digits r in (c :: d, t) else ([], s)
  | [] => ([], [])
  end.
Definition metric_of (s : str) : option metric :=
  match s with
  | [104] => Some Mh | [109] => Some Mm | [115] => Some Ms | [109; 115] => Some Mms
  | [102] => Some Mf | [116] => Some Mt | _ => None
  end.
(* ttmlRegexpOffsetTime  ^(\d+(\.\d+)?)(h|m|s|ms|f|t)$ : integer digits, fraction digits ([] = no fraction), metric *)
Definition match_offset (s : str) : option (str * str * metric) :=
  let '(ip, r1) := span_digits s in
  match ip with
  | [] => None
  | _ =>
    let '(fp, r2) := match r1 with
                     | 46 :: r => let '(fp, r') := span_digits r in
                                  match fp with [] => ([], r1) | _ => (fp, r') end
                     | _ => ([], r1)
                     end in
    match metric_of r2 with Some m => Some (ip, fp, m) | None => None end
  end.
(* ttmlRegexpClockTimeFrames  ^[^:]*:[^:]*:[^:]*(\:[\d]+)$ : the text before the last colon, the frame digits *)
Definition match_clock_frames (s : str) : option (str * str) :=
  match split_byte colon s with
  | [a; b; c; d] =>
    match d with
    | [] => None
    | _ => if forallb is_digit d then Some (a ++ [colon] ++ b ++ [colon] ++ c, d) else None
    end
  | _ => None
  end.
Definition timebase (m : metric) : Z :=
  match m with Mh => hour_ns | Mm => minute_ns | Ms => second_ns | _ => ms_ns end.

(* TTMLInDuration.UnmarshalText; None = error *)
Definition ttml_unmarshal (s : str) : option tdur :=
  match match_offset s with
  | Some (ip, fp, m) =>
    let v := parse_dec ip fp in
    match m with
    | Mt => Some (mkDurV 0 0 (to_Z v) fzero v)
    | Mf => Some (mkDurV 0 (to_Z v) 0 v fzero)
    | _ => Some (mkDur (round_Z (fmul v (of_Z (timebase m)))) 0 0)
    end
  | None =>
    match match_clock_frames s with
    | Some (front, fd) =>
      match atoi fd with
      | None => None
      | Some f => match parse_duration (front ++ s_dot000) dot 3 with
                  | Some d => Some (mkDur d f 0)
                  | None => None
                  end
      end
    | None => match parse_duration s dot 3 with Some d => Some (mkDur d 0 0) | None => None end
    end
  end.
(* TTMLInDuration.duration *)
Definition ttml_duration (d : tdur) (framerate tickrate : Z) : Z :=
  if (((0 <? td_ticks d)%Z || fpos (td_tval d)) && (0 <? tickrate)%Z)
  then let ticks := if fpos (td_tval d) then td_tval d else of_Z (td_ticks d) in
       round_Z (fdiv (fmul ticks (of_Z second_ns)) (of_Z tickrate))
  else (td_d d + if ((0 <? td_frames d) || fpos (td_fval d)) && (0 <? framerate)
                 then let frames := if fpos (td_fval d) then td_fval d else of_Z (td_frames d) in
                      round_Z (fmul (fdiv frames (of_Z framerate)) (of_Z second_ns))
                 else 0)%Z.
Definition ttml_time (s : str) (framerate tickrate : Z) : option Z :=
  match ttml_unmarshal s with Some d => Some (ttml_duration d framerate tickrate) | None => None end.
(* where the float transcription is faithful: the decimal of an offset has at most 15 digits *)
Definition time_simple (s : str) : bool :=
  match match_offset s with Some (ip, fp, _) => dec_simple ip fp | None => true end.

(* ================= values ================= *)
Record tattrs := mkTA { ta_s : list (option str); ta_z : option Z }.
Record trun := mkRun { tr_txt : str; tr_style : option str; tr_attrs : tattrs }.
Record titem := mkItem { ti_st : Z; ti_en : Z; ti_region : option str; ti_style : option str; ti_attrs : tattrs;
                         ti_lines : list (list trun) }.
(* a style (ts_ref = parent style) or a region (ts_ref = style) *)
Record tstyle := mkStyle { ts_id : str; ts_ref : option str; ts_attrs : tattrs }.
Record tmeta := mkMeta { tm_framerate : Z; tm_title : str; tm_copyright : str; tm_lang : str }.
(* maps as association lists (key, value); the value carries its own ID *)
Record tdoc := mkDoc { td_meta : option tmeta; td_styles : list (str * tstyle); td_regions : list (str * tstyle);
                       td_items : list titem }.
Definition no_attrs : tattrs := mkTA (map (fun _ => None) attr_names) None.

Fixpoint map_get {V} (k : str) (m : list (str * V)) : option V :=
  match m with [] => None | (k', v) :: r => if str_eqb k k' then Some v else map_get k r end.
Definition map_mem {V} (k : str) (m : list (str * V)) : bool := match map_get k m with Some _ => true | None => false end.
Fixpoint map_set {V} (k : str) (v : V) (m : list (str * V)) : list (str * V) :=
  match m with
  | [] => [(k, v)]
  | (k', v') :: r => if str_eqb k k' then (k, v) :: r else (k', v') :: map_set k v r
  end.
Definition null {A} (l : list A) : bool := match l with [] => true | _ => false end.
Definition opt_ref (s : str) : option str := match s with [] => None | _ => Some s end.

(* ================= reader ================= *)
(* copyValue for an int field: empty = 0, else ParseInt(TrimSpace) *)
Definition parse_int_attr (v : str) : option Z := match v with [] => Some 0%Z | _ => atoi (trim_space v) end.
(* an int attribute: every occurrence must parse, the last one stays; None = error *)
Definition int_attr (l : str) (attrs : list xattr) : option (option Z) :=
  fold_left (fun acc v => match acc, parse_int_attr v with
                          | Some _, Some z => Some (Some z)
                          | _, _ => None
                          end) (attr_vals l attrs) (Some None).
(* TTMLInStyleAttributes filled from an element's attributes; None = error (zIndex) *)
Definition tt_read_attrs (attrs : list xattr) : option tattrs :=
  match int_attr s_zIndex attrs with
  | Some z => Some (mkTA (map (fun n => attr_last n attrs) attr_names) z)
  | None => None
  end.
(* a *TTMLInDuration attribute: every occurrence is unmarshalled, the last one stays;
   None = error, Some None = absent *)
Definition dur_attr (l : str) (attrs : list xattr) : option (option tdur) :=
  fold_left (fun acc v => match acc, ttml_unmarshal v with
                          | Some _, Some d => Some (Some d)
                          | _, _ => None
                          end) (attr_vals l attrs) (Some None).

(* "Remove items identation": the inner XML is split on \n, every piece TrimLeft'ed (XML white space), and joined.  On the
   tree: inside a text every piece after a line break loses its leading white space; the very first text
   of the paragraph also does (it starts the first piece).  Text after a tag never starts a piece. *)
Definition strip_text (first : bool) (s : str) : str :=
  match split_byte 10 s with
  | [] => []
  | p0 :: rest => (if first then trim_left_xml p0 else p0) ++ concat (map trim_left_xml rest)
  end.
Fixpoint strip_node (n : xnode) : xnode :=
  match n with
  | XText s => XText (strip_text false s)
  | XElem nm a ks => XElem nm a (map strip_node ks)
  end.
Definition strip_content (kids : list xnode) : list xnode :=
  match kids with
  | XText s :: r => XText (strip_text true s) :: map strip_node r
  | _ => map strip_node kids
  end.

Definition is_br (l : str) : bool := str_eqb (to_lower l) s_br.
(* the chardata field of a TTMLInItem behind ttmlXmlTokenReader: direct text, "\n" for each direct br
   start tag (the held token is then skipped with its content), nothing for other child elements *)
Definition tt_item_text (kids : list xnode) : str :=
  flat_map (fun k => match k with
                     | XText s => s
                     | XElem nm _ _ => if is_br (x_local nm) then [10] else []
                     end) kids.
Record initem := mkIn { in_local : str; in_style : str; in_attrs : tattrs; in_text : str }.
(* TTMLInItems.UnmarshalXML over the top-level tokens of the paragraph; None = error *)
Fixpoint items_of (kids : list xnode) : option (list initem) :=
  match kids with
  | [] => Some []
  | XText s :: r =>
    match items_of r with
    | None => None
    | Some l => Some (if blank_xml s then l else mkIn [] [] no_attrs s :: l)
    end
  | XElem nm a ks :: r =>
    match tt_read_attrs a, items_of r with
    | Some ta, Some l => Some (mkIn (x_local nm) (attr_str s_style a) ta (tt_item_text ks) :: l)
    | _, _ => None
    end
  end.
(* the loop over the items: a br item or a "\n" inside a text closes the line *)
Inductive ttok := TBrk | TRun (r : trun).
Definition run_toks (it : initem) : list ttok :=
  if is_br (in_local it) then [TBrk]
  else match map (fun t => TRun (mkRun t (opt_ref (in_style it)) (in_attrs it))) (split_byte 10 (in_text it)) with
       | [] => []
       | t0 :: ts => t0 :: flat_map (fun t => [TBrk; t]) ts
       end.
Fixpoint lines_of (ts : list ttok) : list (list trun) :=
  match ts with
  | [] => [[]]
  | TBrk :: r => [] :: lines_of r
  | TRun x :: r => match lines_of r with l :: ls => (x :: l) :: ls | [] => [[x]] end
  end.
Definition item_style_ok {V} (styles : list (str * V)) (it : initem) : bool :=
  is_br (in_local it) || null (in_style it) || map_mem (in_style it) styles.

Definition read_p (styles regions : list (str * tstyle)) (fr tr : Z) (p : xnode) : res titem :=
  let a := elem_attrs p in
  match dur_attr s_begin a, dur_attr s_end a, tt_read_attrs a with
  | Some (Some b), Some (Some e), Some ta =>
    let rg := attr_str s_region a in
    let sy := attr_str s_style a in
    if negb (null rg || map_mem rg regions) then Err EUnknownRef
    else if negb (null sy || map_mem sy styles) then Err EUnknownRef
    else match items_of (strip_content (elem_kids p)) with
         | None => Err EParse
         | Some its =>
           if forallb (item_style_ok styles) its
           then Ok (mkItem (ttml_duration b fr tr) (ttml_duration e fr tr) (opt_ref rg) (opt_ref sy) ta
                           (lines_of (flat_map run_toks its)))
           else Err EUnknownRef
         end
  | _, _, _ => Err EParse
  end.

Fixpoint map_res {A B} (f : A -> res B) (l : list A) : res (list B) :=
  match l with
  | [] => Ok []
  | a :: r => do b <- f a; do bs <- map_res f r; Ok (b :: bs)
  end.
(* a style or region header: ID, style reference, attributes *)
Definition read_header (n : xnode) : res tstyle :=
  match tt_read_attrs (elem_attrs n) with
  | Some ta => Ok (mkStyle (attr_str s_id (elem_attrs n)) (opt_ref (attr_str s_style (elem_attrs n))) ta)
  | None => Err EParse
  end.
Definition add_all (l : list tstyle) (m : list (str * tstyle)) : list (str * tstyle) :=
  fold_left (fun m s => map_set (ts_id s) s m) l m.
Definition ref_ok {V} (m : list (str * V)) (s : tstyle) : bool :=
  match ts_ref s with None => true | Some r => map_mem r m end.
(* TTMLIn.metadata: StrPad(lang, ' ', 2, PadCut) looked up in the language table *)
Definition lang_of (lang : str) : str :=
  if Nat.ltb (length lang) 2 then [] else match map_get (firstn 2 lang) lang_table with Some v => v | None => [] end.
Definition last_text (l : list xnode) : str := match rev l with n :: _ => direct_text (elem_kids n) | [] => [] end.

Definition read_ttml (root : xnode) : res tdoc :=
  match root with
  | XText _ => Err EParse
  | XElem nm a kids =>
    if negb (str_eqb (x_local nm) s_tt) then Err EParse else
    match int_attr s_frameRate a, int_attr s_tickRate a with
    | Some fro, Some tro =>
      let fr := match fro with Some z => z | None => 0%Z end in
      let tr := match tro with Some z => z | None => 0%Z end in
      let md := path_elems [s_head; s_metadata] kids in
      let meta := mkMeta fr (last_text (path_elems [s_title] (flat_map elem_kids md)))
                         (last_text (path_elems [s_copyright] (flat_map elem_kids md))) (lang_of (attr_str s_lang a)) in
      do rgs <- map_res read_header (path_elems [s_head; s_layout; s_region] kids);
      do sts <- map_res read_header (path_elems [s_head; s_styling; s_style] kids);
      let styles := add_all sts [] in
      if negb (forallb (ref_ok styles) sts) then Err EUnknownRef else
      if negb (forallb (ref_ok styles) rgs) then Err EUnknownRef else
      let regions := add_all rgs [] in
      do items <- map_res (read_p styles regions fr tr) (path_elems [s_body; s_div; s_p] kids);
      Ok (mkDoc (Some meta) styles regions items)
    | _, _ => Err EParse
    end
  end.

(* where the reader model is faithful beyond the XML contract: every begin/end value is [time_simple] *)
Definition doc_time_simple (root : xnode) : bool :=
  forallb (fun p => forallb time_simple (attr_vals s_begin (elem_attrs p) ++ attr_vals s_end (elem_attrs p)))
          (path_elems [s_body; s_div; s_p] (elem_kids root)).

(* ================= writer ================= *)
Definition nm (sp l : str) : xname := mkName sp l.
Definition out_attrs (a : tattrs) : list xattr :=
  flat_map (fun p => match snd p with Some v => [(nm ns_tts (fst p), v)] | None => [] end) (combine attr_names (ta_s a))
  ++ match ta_z a with Some z => [(nm ns_tts s_zIndex, itoa_z z)] | None => [] end.
Definition opt_attr (sp l : str) (v : option str) : list xattr :=
  match v with Some (c :: r) => [(nm sp l, c :: r)] | _ => [] end.
Definition text_kids (t : str) : list xnode := match t with [] => [] | _ => [XText t] end.
Definition out_header (el : str) (s : tstyle) : xnode :=
  XElem (nm ns_ttml el) (opt_attr ns_xml s_id (Some (ts_id s)) ++ opt_attr [] s_style (ts_ref s) ++ out_attrs (ts_attrs s)) [].
Definition out_run (r : trun) : xnode :=
  XElem (nm ns_ttml s_span) (opt_attr [] s_style (tr_style r) ++ out_attrs (tr_attrs r)) (text_kids (tr_txt r)).
Definition out_br : xnode := XElem (nm ns_ttml s_br) [] [].
(* the items of a paragraph: the runs of every line followed by a br, the last br removed *)
Definition out_lines (ls : list (list trun)) : list xnode :=
  removelast (flat_map (fun l => map out_run l ++ [out_br]) ls).
Definition out_p (it : titem) : xnode :=
  XElem (nm ns_ttml s_p)
        ([(nm [] s_begin, format_ttml (ti_st it)); (nm [] s_end, format_ttml (ti_en it))]
         ++ opt_attr [] s_region (ti_region it) ++ opt_attr [] s_style (ti_style it) ++ out_attrs (ti_attrs it))
        (out_lines (ti_lines it)).
Definition key_leb {V} (a b : str * V) : bool := sleb (fst a) (fst b).
Definition sort_keys {V} (m : list (str * V)) : list (str * V) := gsort key_leb m.
Fixpoint map_get_inv (v : str) (m : list (str * str)) : option str :=
  match m with [] => None | (k, v') :: r => if str_eqb v v' then Some k else map_get_inv v r end.
Definition elem_if (b : bool) (n : xnode) : list xnode := if b then [n] else [].

Definition write_ttml (d : tdoc) : res xnode :=
  match td_items d with
  | [] => Err ENothingToWrite
  | _ =>
    let lang := match td_meta d with Some m => map_get_inv (tm_lang m) lang_table | None => None end in
    let md := match td_meta d with
              | Some m =>
                elem_if (negb (null (tm_copyright m) && null (tm_title m)))
                        (XElem (nm ns_ttml s_metadata) []
                               (elem_if (negb (null (tm_copyright m))) (XElem (nm ns_ttm s_copyright) [] [XText (tm_copyright m)])
                                ++ elem_if (negb (null (tm_title m))) (XElem (nm ns_ttm s_title) [] [XText (tm_title m)])))
              | None => []
              end in
    (* the parents head>styling and head>layout of the slice fields are opened even when the slices are empty *)
    let styling := XElem (nm ns_ttml s_styling) [] (map (fun kv => out_header s_style (snd kv)) (sort_keys (td_styles d))) in
    let layout := XElem (nm ns_ttml s_layout) [] (map (fun kv => out_header s_region (snd kv)) (sort_keys (td_regions d))) in
    let head := md ++ [styling; layout] in
    Ok (XElem (nm ns_ttml s_tt)
              ([(nm [] s_xmlns, ns_ttml)] ++ opt_attr ns_xml s_lang lang
               ++ [(nm s_xmlns s_ttm, ns_ttm); (nm s_xmlns s_tts, ns_tts)])
              ([XElem (nm ns_ttml s_head) [] head]
               ++ [XElem (nm ns_ttml s_body) [] [XElem (nm ns_ttml s_div) [] (map out_p (td_items d))]]))
  end.

(* names as the encoder prints them: the struct tags spell the prefixes out *)
Definition print_name (n : xname) : str :=
  (if str_eqb (x_space n) ns_ttm then s_ttm ++ [58]
   else if str_eqb (x_space n) ns_tts then s_tts ++ [58]
   else if str_eqb (x_space n) ns_xml then [120; 109; 108; 58]
   else if str_eqb (x_space n) s_xmlns then s_xmlns ++ [58]
   else []) ++ x_local n.
(* the bytes WriteToTTML emits with the indent option [ind] *)
Definition write_ttml_bytes (ind : str) (d : tdoc) : res str :=
  do t <- write_ttml d; Ok (print_node print_name ind 0 t).
