(* stl.go, checked transcription of how WriteToSTL looks at the cue list: the Go-shaped input (pointers that may be nil at
   two levels: Item.InlineStyle and, inside it, STLJustification / STLPosition; LineItem.InlineStyle and, inside it, the
   three *bool) is flattened to the writer model's input (Model/Stl.v witem / wrun) through the code's own guards, each
   dereference a checked access (site = line of stl.go).  Proofs/StlChk2.v: no site is reachable.  Definitions only. *)
From Coq Require Import List ZArith NArith Bool.
From Astisub Require Import Kit.Base Kit.Str Kit.Chk Model.Stl.
Import ListNotations.

(* *StyleAttributes as far as the STL writer reads it *)
Record gstyle := mkGstyle { gs_just : option N;      (* *Justification *)
                            gs_pos : option Z;       (* *STLPosition: its VerticalPosition *)
                            gs_it : option bool; gs_un : option bool; gs_bx : option bool }.
Record gline_item := mkGlineItem { gl_text : str; gl_style : option gstyle }.
Record gsitem := mkGsitem { gsi_st : Z; gsi_en : Z; gsi_style : option gstyle; gsi_lines : list (list gline_item) }.

(* stlJustificationCodeFromStyle, 723-739: "if sa == nil || sa.STLJustification == nil { return left }; switch *sa.STLJustification" *)
Definition just_c (sa : option gstyle) : res (option N) :=
  if negb (is_some sa) then Ok None else
  do s <- deref sa 724;
  if negb (is_some (gs_just s)) then Ok None else
  do j <- deref (gs_just s) 727; Ok (Some j).
(* stlVerticalPositionFromStyle, 741-747: "if sa != nil && sa.STLPosition != nil { return sa.STLPosition.VerticalPosition }" *)
Definition vp_c (sa : option gstyle) : res (option Z) :=
  if is_some sa then
    do s <- deref sa 742;
    if is_some (gs_pos s) then do v <- deref (gs_pos s) 743; Ok (Some v) else Ok None
  else Ok None.
(* LineItem.STLString, 749-763: "if li.InlineStyle != nil { if li.InlineStyle.STLItalics != nil && *li.InlineStyle.STLItalics ..." *)
Definition flag_c (p : option bool) (site : N) : res bool := if is_some p then deref p site else Ok false.
Definition run_c (li : gline_item) : res wrun :=
  if is_some (gl_style li) then
    do s <- deref (gl_style li) 751;
    do i <- flag_c (gs_it s) 752; do u <- flag_c (gs_un s) 755; do b <- flag_c (gs_bx s) 758;
    Ok (mkWrun (gl_text li) i u b)
  else Ok (mkWrun (gl_text li) false false false).
Fixpoint map_c {A B} (f : A -> res B) (l : list A) : res (list B) :=
  match l with
  | [] => Ok []
  | x :: r => do y <- f x; do ys <- map_c f r; Ok (y :: ys)
  end.
(* newTTIBlock, 696-721: i.InlineStyle at 702 and 707, through i *Item.  WriteToSTL (943) first replaces the cue list by
   nonNilItems(s.Items) (subtitles.go): the loop, newGSIBlock (TNB / TNS, TCF from Items[0]) and the "nothing to write"
   test all see the list WITHOUT its nil elements, so i is never nil at 702.  [items_c] is that: Kit.Chk.somes, then the
   guarded flattening of each element; [items_unguarded_c] is the code before that filter existed (a guard dropped). *)
Definition item_c (i : gsitem) : res witem :=
  do j <- just_c (gsi_style i); do v <- vp_c (gsi_style i);
  do ls <- map_c (map_c run_c) (gsi_lines i);
  Ok (mkWitem (gsi_st i) (gsi_en i) j v ls).
Definition items_c (l : list (option gsitem)) : res (list witem) := map_c item_c (somes l).
Definition item_unguarded_c (p : option gsitem) : res witem := do i <- deref p 702; item_c i.
Definition items_unguarded_c (l : list (option gsitem)) : res (list witem) := map_c item_unguarded_c l.

(* the unchecked flattening (what the harness's projection does) *)
Definition run_flat (li : gline_item) : wrun :=
  match gl_style li with
  | Some s => mkWrun (gl_text li) (match gs_it s with Some b => b | None => false end) (match gs_un s with Some b => b | None => false end)
                     (match gs_bx s with Some b => b | None => false end)
  | None => mkWrun (gl_text li) false false false
  end.
Definition item_flat (i : gsitem) : witem :=
  mkWitem (gsi_st i) (gsi_en i) (match gsi_style i with Some s => gs_just s | None => None end)
          (match gsi_style i with Some s => gs_pos s | None => None end) (map (map run_flat) (gsi_lines i)).

(* WriteToSTL on the Go-shaped cue list ([]*Item with nil elements and nil-able style pointers): the checked writer of
   Model/StlC.v on the flattened list of the non-nil elements *)
From Astisub Require Import Model.StlC.
Definition write_stl_items_c (now : str) (md : option wmeta) (l : list (option gsitem)) : res str :=
  do items <- items_c l; write_stl_c now md items.
