(* Hamming 24/18 (ETS 300 706, 8.3), written from the standard and independent of the library: the code that protects the
   triplets of packets X/26, X/28 and M/29.  A triplet is 24 bits in transmission order, bit 1 first: parity bits P1..P5 at
   positions 1, 2, 4, 8, 16, the overall parity bit P6 at position 24, the 18 data bits D1..D18 at the other positions in
   order.  Test i (i = 0..4) covers the positions 1..23 whose number has bit i set; every test and the overall parity are
   ODD for a code word.  The formulas are spelled out (no loops) so that the exhaustive sweeps are cheap.  Definitions only. *)
From Coq Require Import List NArith Bool.
Import ListNotations.
Open Scope N_scope.

(* the five tests and the overall parity of a 24-bit word: true = passes (odd) *)
Definition ham2418_tests (w : list bool) : option (bool * bool * bool * bool * bool * bool) :=
  match w with
  | [b1; b2; b3; b4; b5; b6; b7; b8; b9; b10; b11; b12; b13; b14; b15; b16; b17; b18; b19; b20; b21; b22; b23; b24] =>
    Some (xorb b1 (xorb b3 (xorb b5 (xorb b7 (xorb b9 (xorb b11 (xorb b13 (xorb b15 (xorb b17 (xorb b19 (xorb b21 (b23))))))))))),
          xorb b2 (xorb b3 (xorb b6 (xorb b7 (xorb b10 (xorb b11 (xorb b14 (xorb b15 (xorb b18 (xorb b19 (xorb b22 (b23))))))))))),
          xorb b4 (xorb b5 (xorb b6 (xorb b7 (xorb b12 (xorb b13 (xorb b14 (xorb b15 (xorb b20 (xorb b21 (xorb b22 (b23))))))))))),
          xorb b8 (xorb b9 (xorb b10 (xorb b11 (xorb b12 (xorb b13 (xorb b14 (b15))))))),
          xorb b16 (xorb b17 (xorb b18 (xorb b19 (xorb b20 (xorb b21 (xorb b22 (b23))))))),
          xorb b1 (xorb b2 (xorb b3 (xorb b4 (xorb b5 (xorb b6 (xorb b7 (xorb b8 (xorb b9 (xorb b10 (xorb b11 (xorb b12 (xorb b13 (xorb b14 (xorb b15 (xorb b16 (xorb b17 (xorb b18 (xorb b19 (xorb b20 (xorb b21 (xorb b22 (xorb b23 (b24))))))))))))))))))))))))
  | _ => None
  end.
Definition data_of (w : list bool) : list bool :=
  match w with
  | [b1; b2; b3; b4; b5; b6; b7; b8; b9; b10; b11; b12; b13; b14; b15; b16; b17; b18; b19; b20; b21; b22; b23; b24] => [b3; b5; b6; b7; b9; b10; b11; b12; b13; b14; b15; b17; b18; b19; b20; b21; b22; b23]
  | _ => []
  end.
Fixpoint flip (w : list bool) (k : nat) : list bool :=    (* k is 0-based *)
  match w, k with
  | [], _ => []
  | b :: r, O => negb b :: r
  | b :: r, S k' => b :: flip r k'
  end.

(* the encoder: D1..D18 -> the 24 bits *)
Definition ham2418_enc_bits (d : list bool) : list bool :=
  match d with
  | [d1; d2; d3; d4; d5; d6; d7; d8; d9; d10; d11; d12; d13; d14; d15; d16; d17; d18] =>
    let p1 := negb (xorb d1 (xorb d2 (xorb d4 (xorb d5 (xorb d7 (xorb d9 (xorb d11 (xorb d12 (xorb d14 (xorb d16 (d18))))))))))) in
    let p2 := negb (xorb d1 (xorb d3 (xorb d4 (xorb d6 (xorb d7 (xorb d10 (xorb d11 (xorb d13 (xorb d14 (xorb d17 (d18))))))))))) in
    let p3 := negb (xorb d2 (xorb d3 (xorb d4 (xorb d8 (xorb d9 (xorb d10 (xorb d11 (xorb d15 (xorb d16 (xorb d17 (d18))))))))))) in
    let p4 := negb (xorb d5 (xorb d6 (xorb d7 (xorb d8 (xorb d9 (xorb d10 (d11))))))) in
    let p5 := negb (xorb d12 (xorb d13 (xorb d14 (xorb d15 (xorb d16 (xorb d17 (d18))))))) in
    let w := [p1; p2; d1; p3; d2; d3; d4; p4; d5; d6; d7; d8; d9; d10; d11; p5; d12; d13; d14; d15; d16; d17; d18] in
    w ++ [negb (fold_right xorb false w)]
  | _ => []
  end.

(* the decoder: the position a single error must be at = the sum of the weights of the failing tests; single errors
   corrected, double errors (overall parity passes, some test fails) rejected *)
Definition ham2418_dec_bits (w : list bool) : option (list bool) :=
  match ham2418_tests w with
  | None => None
  | Some (t0, t1, t2, t3, t4, tp) =>
    let s := ((if t0 then 0 else 1) + (if t1 then 0 else 2) + (if t2 then 0 else 4) + (if t3 then 0 else 8) + (if t4 then 0 else 16))%nat in
    if tp then (if Nat.eqb s 0 then Some (data_of w) else None)
    else if Nat.eqb s 0 then Some (data_of w)                       (* the overall parity bit itself *)
    else if Nat.leb s 23 then Some (data_of (flip w (s - 1)))
    else None
  end.

(* numbers: bit i of the number is position i+1 *)
Definition bits_of (n : nat) (x : N) : list bool := map (fun i => N.testbit x (N.of_nat i)) (seq 0 n).
Fixpoint num_of (l : list bool) : N := match l with [] => 0 | b :: r => (if b then 1 else 0) + 2 * num_of r end.

(* the 18-bit value -> the three bytes of the triplet in teletext bit order (first transmitted bit = least significant) *)
Definition ham2418_enc (d : N) : N * N * N :=
  let w := num_of (ham2418_enc_bits (bits_of 18 d)) in (N.land w 255, N.land (N.shiftr w 8) 255, N.shiftr w 16).
Definition ham2418_dec (b0 b1 b2 : N) : option N :=
  match ham2418_dec_bits (bits_of 24 (N.land b0 255 + 256 * N.land b1 255 + 65536 * N.land b2 255)) with
  | Some d => Some (num_of d)
  | None => None
  end.

(* the same on the 24-bit word (bit i = position i+1) *)
Definition ham2418_word (d : N) : N := num_of (ham2418_enc_bits (bits_of 18 d)).
Definition ham2418_dec_word (w : N) : option N := ham2418_dec (N.land w 255) (N.land (N.shiftr w 8) 255) (N.shiftr w 16).
