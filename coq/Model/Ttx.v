(* teletext.go: the transport-stream teletext reader from the point where the demuxer has delivered the PES
   payloads of the teletext PID with their times (ReadFromTeletext after teletextPID / NextData; the demuxer
   itself is a library contract, see notes/C06.md).  PES payload -> data units -> packets
   (process, parseDataUnit, parsePacket), page header (parsePacketHeader), row storage
   (parsePacketData), X/28 and M/29 (parsePacket28And29), character decoder (setTriplet*, updateCharset,
   decode), page -> item (teletextPage.parse), first/last time.  The tables (character sets, national option
   positions, Hamming 8/4, parity, bit reversal) are the generated ones (Gen/TtxTables.v).  Definitions only. *)
From Coq Require Import List ZArith NArith Bool.
From Astisub Require Import Kit.Base Kit.Str Kit.GoMap Gen.TtxTables Model.TtxRow Model.TtxHam.
Import ListNotations.
Open Scope N_scope.

(* ---- the helpers as the code uses them (generated function tables) ---- *)
Definition ham84 (b : N) : option N := nth (N.to_nat b) ttx_hamming84 None.        (* astikit.ByteHamming84Decode *)
Definition parity (b : N) : N * bool := nth (N.to_nat b) ttx_parity (0, false).    (* astikit.ByteParity *)
Definition rev8 (b : N) : N := nth (N.to_nat b) ttx_reverse8 0.                    (* bits.Reverse8 *)
Definition ttx_byte_at (i : nat) (s : str) : N := nth i s 0.

(* ---- character decoder ---- *)
Record cdec := mkCdec {
  cd_c : list str;           (* c teletextCharset: 96 entries (all nil before the first update) *)
  cd_last : option N;        (* lastPageCharsetCode *)
  cd_m29 : option N;         (* tripletM29 *)
  cd_x28 : option N          (* tripletX28 *)
}.
Definition cdec0 : cdec := mkCdec (repeat [] 96) None None None.

Fixpoint ttx_lookup2 {V} (k1 k2 : N) (m : list ((N * N) * V)) : option V :=
  match m with
  | [] => None
  | ((a, b), v) :: r => if (a =? k1) && (b =? k2) then Some v else ttx_lookup2 k1 k2 r
  end.

Fixpoint ttx_set_nth {A} (n : nat) (v : A) (l : list A) : option (list A) :=
  match l, n with
  | [], _ => None
  | _ :: r, O => Some (v :: r)
  | x :: r, Datatypes.S n' => match ttx_set_nth n' v r with Some r' => Some (x :: r') | None => None end
  end.

(* the national option loop: d.c[position[k]] = v *)
Fixpoint subst_national (pos : list N) (nat : list str) (c : list str) : res (list str) :=
  match nat with
  | [] => Ok c
  | v :: nr =>
    match pos with
    | [] => Panic 4                          (* position array shorter than the subset: index out of range *)
    | p :: pr => match ttx_set_nth (N.to_nat p) v c with
                 | Some c' => subst_national pr nr c'
                 | None => Panic 5            (* position outside the 96 entries *)
                 end
    end
  end.

(* the G0 table and national subset selected by (triplet, page charset code) *)
Definition charset_for (triplet code : N) : res (list str) :=
  let k1 := N.land (N.shiftr (N.land triplet 16256) 10) 255 in
  match ttx_lookup2 k1 code ttx_charsets with
  | Some (Some g0, _, nat) =>
    match nat with
    | Some n => subst_national ttx_national_positions n g0
    | None => Ok g0
    end
  | Some (None, _, _) => Panic 6              (* *v2.g0 with a nil g0 *)
  | None => Ok ttx_tab_G0Latin
  end.

(* updateCharset *)
Definition update_charset (d : cdec) (code : option N) (force : bool) : res cdec :=
  match code with
  | None => Ok d
  | Some pc =>
    if (match cd_last d with Some l => pc =? l | None => false end) && negb force then Ok d
    else
      let triplet := match cd_x28 d with Some t => t | None => match cd_m29 d with Some t => t | None => 0 end end in
      do c <- charset_for triplet pc;
      Ok (mkCdec c (Some pc) (cd_m29 d) (cd_x28 d))
  end.

Definition set_m29 (d : cdec) (i : N) : res cdec :=
  if (match cd_m29 d with Some t => negb (t =? i) | None => true end)
  then update_charset (mkCdec (cd_c d) (cd_last d) (Some i) (cd_x28 d)) (cd_last d) true
  else Ok d.
Definition set_x28 (d : cdec) (i : N) : res cdec :=
  if (match cd_x28 d with Some t => negb (t =? i) | None => true end)
  then update_charset (mkCdec (cd_c d) (cd_last d) (cd_m29 d) (Some i)) (cd_last d) true
  else Ok d.

(* decode *)
Definition cd_decode (c : list str) (i : N) : res str :=
  if i <? 32 then Ok []
  else match nth_error c (N.to_nat (i - 32)) with Some s => Ok s | None => Panic 3 end.

(* ---- pages ---- *)
Record tpage := mkTpage {
  pg_cs : N;                          (* charsetCode *)
  pg_data : list (N * list N);        (* data map: row number -> 40 cells; latest binding first *)
  pg_rows : list N;                   (* rows, in order of arrival *)
  pg_start : Z; pg_end : Z
}.
Definition new_page (cs : N) (t : Z) : tpage := mkTpage cs [] [] t 0.
Definition page_with_end (p : tpage) (t : Z) : tpage := mkTpage (pg_cs p) (pg_data p) (pg_rows p) (pg_start p) t.

Record pbuf := mkPbuf {
  pb_cd : cdec;
  pb_cur : option tpage;              (* currentPage *)
  pb_done : list tpage;               (* donePages *)
  pb_mag : N; pb_page : Z;            (* magazineNumber (uint8), pageNumber (int) *)
  pb_recv : bool                      (* receiving *)
}.
(* newTeletextPageBuffer: uint8(page / 100), page % 100 (Go: truncated division) *)
Definition new_pbuf (page : Z) : pbuf :=
  mkPbuf cdec0 None [] (Z.to_N (Z.modulo (Z.quot page 100) 256)) (Z.rem page 100) false.

Definition with_cd (b : pbuf) (d : cdec) : pbuf := mkPbuf d (pb_cur b) (pb_done b) (pb_mag b) (pb_page b) (pb_recv b).

(* parsePacketHeader *)
Definition parse_header (i : str) (mag : N) (t : Z) (b : pbuf) : pbuf :=
  if Nat.ltb (length i) 8 then b else
  match ham84 (ttx_byte_at 0 i) with None => b | Some units =>
  match ham84 (ttx_byte_at 1 i) with None => b | Some tens =>
  let pn := Z.of_N (if (9 <? tens) || (9 <? units) then N.lor 256 (N.lor (N.shiftl tens 4) units) else tens * 10 + units) in
  if (tens =? 15) && (units =? 15) then b else
  let sel :=                                        (* None: an early return inside the selection block *)
    if (pb_mag b =? 0) && (pb_page b =? 0)%Z then
      match ham84 (ttx_byte_at 5 i) with
      | None => None
      | Some cb => if 0 <? N.land cb 8
                   then Some (mkPbuf (pb_cd b) (pb_cur b) (pb_done b) mag pn (pb_recv b))
                   else Some b
      end
    else Some b in
  match sel with None => b | Some b1 =>
  match ham84 (ttx_byte_at 7 i) with None => b1 | Some cb =>
  let serial := 0 <? N.land cb 1 in
  let cs := N.shiftr cb 1 in
  let other := negb (pn =? pb_page b1)%Z in
  if pb_recv b1 && ((serial && other) || (negb serial && other && (mag =? pb_mag b1)))
  then mkPbuf (pb_cd b1) (pb_cur b1) (pb_done b1) (pb_mag b1) (pb_page b1) false
  else if other || negb (mag =? pb_mag b1) then b1
  else
    let done := match pb_cur b1 with Some p => pb_done b1 ++ [page_with_end p t] | None => pb_done b1 end in
    mkPbuf (pb_cd b1) (Some (new_page cs t)) done (pb_mag b1) (pb_page b1) true
  end end end end.

(* the 40 stored cells of a row: bit-reversed, parity-checked, failing bytes zeroed *)
Definition ttx_cell (x : N) : N := let '(v, ok) := parity (rev8 x) in if ok then v else 0.

(* parsePacketData *)
Definition parse_data (i : str) (pkt : N) (b : pbuf) : res pbuf :=
  if Nat.ltb (length i) 40 then Ok b else
  match pb_cur b with
  | None => Panic 1                                  (* b.currentPage.data with a nil currentPage *)
  | Some p =>
    let p' := mkTpage (pg_cs p) ((pkt, map ttx_cell (firstn 40 i)) :: pg_data p) (pg_rows p ++ [pkt]) (pg_start p) (pg_end p) in
    Ok (mkPbuf (pb_cd b) (Some p') (pb_done b) (pb_mag b) (pb_page b) (pb_recv b))
  end.

(* parsePacket28And29.  The first triplet is protected by Hamming 24/18 (teletextHamming2418Decode = Model/TtxHam.v,
   ham2418_dec; tied to the code by the correspondence suites); its three bytes are bit-reversed first, like every byte of
   the PES payload that is read in teletext bit order *)
Definition triplet_dec (i : str) : option N :=
  ham2418_dec (rev8 (N.land (ttx_byte_at 0 i) 255)) (rev8 (N.land (ttx_byte_at 1 i) 255)) (rev8 (N.land (ttx_byte_at 2 i) 255)).
Definition parse_2829 (i : str) (pkt dc : N) (b : pbuf) : res pbuf :=
  if negb (dc =? 0) && negb (dc =? 4) then Ok b else
  if Nat.ltb (length i) 3 then Ok b else
  match triplet_dec i with
  | None => Ok b
  | Some triplet =>
    if (pkt =? 28) && (0 <? N.land triplet 15) then Ok b else
    do d <- (if pkt =? 28 then set_x28 (pb_cd b) triplet else set_m29 (pb_cd b) triplet);
    Ok (with_cd b d)
  end.

(* parsePacket *)
Definition parse_packet (i : str) (mag pkt : N) (t : Z) (b : pbuf) : res pbuf :=
  if pkt =? 0 then Ok (parse_header i mag t b)
  else if pb_recv b && (mag =? pb_mag b) && (1 <=? pkt) && (pkt <=? 25) then parse_data i pkt b
  else if Nat.ltb (length i) 1 then Ok b
  else match ham84 (ttx_byte_at 0 i) with
       | None => Ok b
       | Some dc =>
         if pb_recv b && (mag =? pb_mag b) && (pkt =? 26) then Ok b
         else if pb_recv b && (mag =? pb_mag b) && (pkt =? 28) then parse_2829 (tl i) pkt dc b
         else if (mag =? pb_mag b) && (pkt =? 29) then parse_2829 (tl i) pkt dc b
         else Ok b                                   (* 8/30: both formats unimplemented *)
       end.

(* parseDataUnit *)
Definition parse_unit (i : str) (id : N) (t : Z) (b : pbuf) : res pbuf :=
  if negb (id =? 3) then Ok b else
  if Nat.ltb (length i) 4 then Ok b else
  if negb (ttx_byte_at 1 i =? 228) then Ok b else
  match ham84 (ttx_byte_at 2 i) with None => Ok b | Some h1 =>
  match ham84 (ttx_byte_at 3 i) with None => Ok b | Some h2 =>
  let h := N.land (N.lor (N.shiftl h2 4) h1) 255 in
  let mag := let m := N.land h 7 in if m =? 0 then 8 else m in
  let pkt := N.shiftr h 3 in
  parse_packet (skipn 4 i) mag pkt t b
  end end.

(* the data-unit loop of process: (id, data) of every complete unit *)
Fixpoint ttx_units_fuel (fuel : nat) (d : str) : list (N * str) :=
  match fuel with
  | O => []
  | Datatypes.S f =>
    match d with
    | id :: len :: rest =>
      if Nat.ltb (length rest) (N.to_nat len) then []
      else (id, firstn (N.to_nat len) rest) :: ttx_units_fuel f (skipn (N.to_nat len) rest)
    | _ => []
    end
  end.
Definition ttx_units (d : str) : list (N * str) := ttx_units_fuel (length d) d.

Fixpoint fold_units (us : list (N * str)) (t : Z) (b : pbuf) : res pbuf :=
  match us with
  | [] => Ok b
  | (id, i) :: r => do b' <- parse_unit i id t b; fold_units r t b'
  end.

(* process: the buffer afterwards and the pages handed back *)
Definition ttx_process (d : str) (t : Z) (b : pbuf) : res (pbuf * list tpage) :=
  match d with
  | [] => Ok (b, [])
  | ident :: rest =>
    if (16 <=? ident) && (ident <=? 31) then
      do b' <- fold_units (ttx_units rest) t b;
      Ok (mkPbuf (pb_cd b') (pb_cur b') [] (pb_mag b') (pb_page b') (pb_recv b'), pb_done b')
    else Ok (b, [])
  end.

(* ---- page -> item ---- *)
Definition trunT := trun unit.
Record tcue := mkTcue { c_st : Z; c_en : Z; c_lines : list (list trunT) }.

(* the page's character decoder has no state of its own while a row is parsed *)
Definition ttx_cell_dec (c : list str) (_ : unit) (v : N) : res (str * unit) := do t <- cd_decode c v; Ok (t, tt).
Definition ttx_parse_row (c : list str) (row : list N) : res (list trunT) :=
  do r <- parse_row unit unit unit (ttx_cell_dec c) None tt tt row; Ok (fst r).

Fixpoint parse_rows (c : list str) (data : list (N * list N)) (rows : list N) : res (list (list trunT)) :=
  match rows with
  | [] => Ok []
  | r :: rs =>
    do runs <- ttx_parse_row c (match alookup (N.land r 255) data with Some x => x | None => [] end);
    do rest <- parse_rows c data rs;
    Ok (match runs with [] => rest | _ => runs :: rest end)
  end.

(* teletextPage.parse: the decoder afterwards and the item, if any *)
Definition page_parse (d : cdec) (first : Z) (p : tpage) : res (cdec * option tcue) :=
  do d' <- update_charset d (Some (pg_cs p)) false;
  match pg_data p with
  | [] => Ok (d', None)
  | _ =>
    do ls <- parse_rows (cd_c d') (pg_data p) (nsort (pg_rows p));
    Ok (d', Some (mkTcue (pg_start p - first) (pg_end p - first) ls))
  end.

Fixpoint parse_pages (d : cdec) (first : Z) (ps : list tpage) : res (list tcue) :=
  match ps with
  | [] => Ok []
  | p :: r =>
    do x <- page_parse d first p;
    do rest <- parse_pages (fst x) first r;
    Ok (match snd x with Some c => c :: rest | None => rest end)
  end.

(* ---- the loop of ReadFromTeletext over the delivered (time, payload) pairs ---- *)
Record tfeed := mkFeed { f_buf : pbuf; f_first : option Z; f_last : option Z; f_pages : list tpage }.

Definition feed_step (f : tfeed) (d : option Z * str) : res tfeed :=
  match fst d with
  | None => Ok f                                      (* zero time: skipped *)
  | Some t =>
    let first := match f_first f with Some x => if (t <? x)%Z then t else x | None => t end in
    let last := match f_last f with Some x => if (x <? t)%Z then t else x | None => t end in
    do r <- ttx_process (snd d) t (f_buf f);
    Ok (mkFeed (fst r) (Some first) (Some last) (f_pages f ++ snd r))
  end.

Fixpoint feed_all (f : tfeed) (ds : list (option Z * str)) : res tfeed :=
  match ds with
  | [] => Ok f
  | d :: r => do f' <- feed_step f d; feed_all f' r
  end.

Definition zero_or (o : option Z) : Z := match o with Some x => x | None => 0%Z end.

(* VerifTeletextFeed = ReadFromTeletext minus the demuxer *)
Definition ttx_feed (page : Z) (ds : list (option Z * str)) : res (list tcue) :=
  do f <- feed_all (mkFeed (new_pbuf page) None None []) ds;
  let b := f_buf f in
  let ps := f_pages f ++ match pb_cur b with Some p => [page_with_end p (zero_or (f_last f))] | None => [] end in
  parse_pages (pb_cd b) (zero_or (f_first f)) ps.
