(* ttml.go, checked transcription: the same time-expression parser, reader and writer as Model/Ttml.v with every
   run-time panic site of the Go code (slice index, slicing, nil dereference, nil-map store) spelled out as a checked
   access (Kit/Chk.v) behind the code's own guard.  Site numbers are line numbers of ttml.go; for
   propagateTTMLAttributes (subtitles.go 384-421) they are 10000 + the line number of subtitles.go (see sites.md).
   Proofs/TtmlChk.v shows that no site is reachable and that these functions agree with the pattern-matching
   transcription of Model/Ttml.v, on which the fidelity theorems are stated.
   Library contracts that stay contracts: encoding/xml (Kit/Xml.v), and regexp: FindStringSubmatch /
   FindStringSubmatchIndex return nil or a slice of 4 (one pair per group for the Index variant, of which the code
   uses the first two pairs); this is stated as the lemmas match_offset_sub_length / match_clock_idx_length about
   the matcher functions below, not assumed.  Definitions only. *)
From Coq Require Import List ZArith NArith Bool Arith.
From Astisub Require Import Kit.Base Kit.Str Kit.Float64 Kit.Float64x Kit.Xml Kit.SortOrd Kit.Chk Model.Dur Model.DurC
  Model.Ttml.
Import ListNotations.
Open Scope N_scope.

(* ================= A. TTMLInDuration.UnmarshalText ================= *)
Definition ttc_metric_str (m : metric) : str :=
  match m with Mh => [104] | Mm => [109] | Ms => [115] | Mms => [109; 115] | Mf => [102] | Mt => [116] end.
(* the text of group 2, (\.\d+)? : empty when the group did not take part in the match *)
Definition ttc_frac (fp : str) : str := match fp with [] => [] | _ => 46 :: fp end.
(* ttmlRegexpOffsetTime.FindStringSubmatch(text): nil, or [whole match; group 1; group 2; group 3] *)
Definition match_offset_sub (s : str) : option (list str) :=
  match match_offset s with
  | Some (ip, fp, m) => Some [s; ip ++ ttc_frac fp; ttc_frac fp; ttc_metric_str m]
  | None => None
  end.
(* ttmlRegexpClockTimeFrames.FindStringSubmatchIndex(text): nil, or [start, end of the whole match; start, end of
   group 1 = the last colon and the frame digits] *)
Definition match_clock_idx (s : str) : option (list nat) :=
  match match_clock_frames s with
  | Some (front, _) => Some [O; length s; length front; length s]
  | None => None
  end.
(* strconv.ParseFloat(_, 64) on the language of group 1, \d+(\.\d+)? ; None = err != nil (the code returns the error).
   Other inputs of ParseFloat (exponents, hex, inf...) cannot come out of group 1 and are mapped to the error branch. *)
Definition ttc_parse_float (s : str) : option f64 :=
  let '(ip, r) := span_digits s in
  match ip with
  | [] => None
  | _ =>
    match r with
    | [] => Some (parse_dec ip [])
    | c :: fr => if c =? 46
                 then let '(fp, r') := span_digits fr in
                      match fp, r' with
                      | _ :: _, [] => Some (parse_dec ip fp)
                      | _, _ => None
                      end
                 else None
    end
  end.
(* s[a:b]: panics unless a <= b <= len(s) *)
Definition ttc_slice {A} (l : list A) (a b : nat) (site : N) : res (list A) :=
  do t <- slice_to l b site; slice_from t a site.

(* Ok None = the Go error *)
Definition ttml_unmarshal_c (text : str) : res (option tdur) :=
  match match_offset_sub text with
  | Some matches =>
    (* 277: strconv.ParseFloat(matches[1], 64) *)
    do m1 <- index matches 1 277;
    match ttc_parse_float m1 with
    | None => do _ <- index matches 1 278; Ok None   (* 278: the error message prints matches[1] *)
    | Some value =>
      (* 283: metric := matches[3] *)
      do metric <- index matches 3 283;
      if str_eqb metric [116] then Ok (Some (mkDurV 0 0 (to_Z value) fzero value))
      else if str_eqb metric [102] then Ok (Some (mkDurV 0 (to_Z value) 0 value fzero))
      else
        match (if str_eqb metric [104] then Some hour_ns
               else if str_eqb metric [109] then Some minute_ns
               else if str_eqb metric [115] then Some second_ns
               else if str_eqb metric [109; 115] then Some ms_ns
               else None) with
        | Some tb => Ok (Some (mkDur (round_Z (fmul value (of_Z tb))) 0 0))
        | None => Ok None   (* default: invalid metric *)
        end
    end
  | None =>
    do tf <- (match match_clock_idx text with
              | Some indexes =>
                (* 318: text[indexes[2]+1 : indexes[3]] *)
                do i2 <- index indexes 2 318;
                do i3 <- index indexes 3 318;
                do s <- ttc_slice text (i2 + 1) i3 318;
                match atoi s with
                | None => Ok None
                | Some f =>
                  (* 325: text[:indexes[2]] + ".000" *)
                  do j2 <- index indexes 2 325;
                  do front <- slice_to text j2 325;
                  Ok (Some (front ++ s_dot000, f))
                end
              | None => Ok (Some (text, 0%Z))
              end);
    match tf with
    | None => Ok None
    | Some (text', f) =>
      do d <- parse_duration_c text' dot 3;
      Ok (match d with Some d => Some (mkDur d f 0) | None => None end)
    end
  end.

(* a *TTMLInDuration attribute, every occurrence unmarshalled by the checked parser (cf. Ttml.dur_attr):
   Ok None = decoding error, Ok (Some None) = absent = nil pointer *)
Fixpoint dur_vals_c (vs : list str) (acc : option (option tdur)) : res (option (option tdur)) :=
  match vs with
  | [] => Ok acc
  | v :: r =>
    do d <- ttml_unmarshal_c v;
    dur_vals_c r (match acc, d with Some _, Some d => Some (Some d) | _, _ => None end)
  end.
Definition dur_attr_c (l : str) (attrs : list xattr) : res (option (option tdur)) :=
  dur_vals_c (attr_vals l attrs) (Some None).

(* ================= B. styleAttributes() -> propagateTTMLAttributes (subtitles.go 384-421) ================= *)
(* The WebVTT attributes it computes are not part of the TTML projection: only the accesses are kept.
   Slots of ta_s in the order of attr_names: 5 extent, 12 origin, 16 textAlign, 22 writingMode. *)
(* the sites of subtitles.go are numbered 10000 + line, so that they cannot be confused with lines of ttml.go
   (parse_duration_c of Model/DurC.v keeps its plain subtitles.go line numbers 803-829, beyond the end of ttml.go) *)
Definition ttc_sub (line : N) : N := 10000 + line.
Definition ttc_tb : str := [116; 98].
(* sa.TTMLWritingMode != nil && strings.HasPrefix( *sa.TTMLWritingMode, "tb" ) : the dereference behind the nil test *)
Definition ttc_is_tb (wm : option str) (site : N) : res bool :=
  if is_some wm then do m <- deref wm site; Ok (has_prefix ttc_tb m) else Ok false.
Definition propagate_c (a : tattrs) : res unit :=
  let text_align := nth 16 (ta_s a) None in
  let extent := nth 5 (ta_s a) None in
  let origin := nth 12 (ta_s a) None in
  let wmode := nth 22 (ta_s a) None in
  (* 385-387 *)
  do _ <- (if is_some text_align then do _ <- deref text_align (ttc_sub 386); Ok tt else Ok tt);
  (* 388-404 *)
  do _ <- (if is_some extent then
             do e <- deref extent (ttc_sub 391);
             let dimensions := split_byte 32 e in
             if Nat.ltb 1 (length dimensions) then
               do _ <- index dimensions 0 (ttc_sub 393);
               do _ <- index dimensions 1 (ttc_sub 394);
               do _ <- index dimensions 1 (ttc_sub 399);
               do tb <- ttc_is_tb wmode (ttc_sub 400);
               if tb then do _ <- index dimensions 0 (ttc_sub 401); Ok tt else Ok tt
             else Ok tt
           else Ok tt);
  (* 405-420 *)
  if is_some origin then
    do _ <- deref origin (ttc_sub 408);
    do o <- deref origin (ttc_sub 411);
    let coordinates := split_byte 32 o in
    if Nat.ltb 1 (length coordinates) then
      do _ <- index coordinates 0 (ttc_sub 413);
      do _ <- index coordinates 1 (ttc_sub 414);
      do tb <- ttc_is_tb wmode (ttc_sub 415);
      if tb then do _ <- index coordinates 1 (ttc_sub 416); do _ <- index coordinates 0 (ttc_sub 417); Ok tt else Ok tt
    else Ok tt
  else Ok tt.

(* ================= C. ReadFromTTML ================= *)
(* a Go map value: None = nil map (a store panics, a read finds nothing), Some l = allocated *)
Definition ttc_store {V} (m : option (list (str * V))) (k : str) (v : V) (site : N) : res (option (list (str * V))) :=
  match m with Some l => Ok (Some (map_set k v l)) | None => Panic site end.
(* v, ok := m[k] : never panics *)
Definition ttc_get {V} (k : str) (m : option (list (str * V))) : option V :=
  match m with Some l => map_get k l | None => None end.
Definition ttc_mem {V} (k : str) (m : option (list (str * V))) : bool := is_some (ttc_get k m).
Definition ttc_entries {V} (m : option (list (str * V))) : list (str * V) := match m with Some l => l | None => [] end.

(* parentStyles[s] = ts.Style: a map keyed by the pointers s, all distinct, so a store is an append *)
Definition ttc_store_ptr {A} (m : option (list A)) (x : A) (site : N) : res (option (list A)) :=
  match m with Some l => Ok (Some (l ++ [x])) | None => Panic site end.
(* 370-380: InlineStyle: ts.TTMLInStyleAttributes.styleAttributes(); o.Styles[s.ID] = s;
   if len(ts.Style) > 0 { parentStyles[s] = ts.Style; childStyles = append(childStyles, s) } *)
Fixpoint styles_loop_c (sts : list tstyle) (m : option (list (str * tstyle))) (pm : option (list (tstyle * str)))
  : res (option (list (str * tstyle)) * option (list (tstyle * str))) :=
  match sts with
  | [] => Ok (m, pm)
  | s :: r =>
    do _ <- propagate_c (ts_attrs s);
    do m' <- ttc_store m (ts_id s) s 375;
    do pm' <- (match ts_ref s with Some id => ttc_store_ptr pm (s, id) 377 | None => Ok pm end);
    styles_loop_c r m' pm'
  end.
(* 383-390: for _, s := range childStyles { id = parentStyles[s]; _, ok := o.Styles[id] } : reads only *)
Fixpoint parents_loop_c (children : list (tstyle * str)) (m : option (list (str * tstyle))) : res unit :=
  match children with
  | [] => Ok tt
  | (_, id) :: r => if ttc_mem id m then parents_loop_c r m else Err EUnknownRef
  end.
(* 393-406: styleAttributes(); the style reference; o.Regions[r.ID] = r *)
Fixpoint regions_loop_c (rgs : list tstyle) (styles m : option (list (str * tstyle))) : res (option (list (str * tstyle))) :=
  match rgs with
  | [] => Ok m
  | r :: rest =>
    do _ <- propagate_c (ts_attrs r);
    if (match ts_ref r with Some id => ttc_mem id styles | None => true end)
    then do m' <- ttc_store m (ts_id r) r 405; regions_loop_c rest styles m'
    else Err EUnknownRef
  end.

(* 472-496: for idx, li := range strings.Split(tt.Text, "\n"): styleAttributes() (481), the style reference (487) *)
Fixpoint parts_c (styles : option (list (str * tstyle))) (it : initem) (parts : list str) : res (list ttok) :=
  match parts with
  | [] => Ok []
  | t :: r =>
    do _ <- propagate_c (in_attrs it);
    if negb (null (in_style it)) && negb (ttc_mem (in_style it) styles) then Err EUnknownRef
    else do rs <- parts_c styles it r; Ok (TRun (mkRun t (opt_ref (in_style it)) (in_attrs it)) :: rs)
  end.
(* idx > 0: a new line before every piece but the first *)
Definition ttc_breaks (ts : list ttok) : list ttok :=
  match ts with [] => [] | t0 :: r => t0 :: flat_map (fun t => [TBrk; t]) r end.
(* 461-498 *)
Fixpoint items_toks_c (styles : option (list (str * tstyle))) (its : list initem) : res (list ttok) :=
  match its with
  | [] => Ok []
  | it :: r =>
    do ts <- (if is_br (in_local it) then Ok [TBrk]
              else do ps <- parts_c styles it (split_byte 10 (in_text it)); Ok (ttc_breaks ps));
    do rest <- items_toks_c styles r;
    Ok (ts ++ rest)
  end.

(* one <p>.  [guard] = the test of line 411 is present *)
Definition read_p_gen (guard : bool) (styles regions : option (list (str * tstyle))) (fr tr : Z) (p : xnode) : res titem :=
  let a := elem_attrs p in
  do bo <- dur_attr_c s_begin a;
  do eo <- dur_attr_c s_end a;
  match bo, eo, tt_read_attrs a with
  | Some b, Some e, Some ta =>
    (* 411: if ts.Begin == nil || ts.End == nil *)
    if guard && (negb (is_some b) || negb (is_some e)) then Err EParse else
    (* 417-420: ts.Begin.framerate = ..; ts.Begin.tickrate = ..; ts.End.framerate = ..; ts.End.tickrate = .. *)
    do _ <- deref b 417; do _ <- deref b 418; do _ <- deref e 419; do _ <- deref e 420;
    (* 423-425 *)
    do e' <- deref e 423;
    do _ <- propagate_c ta;
    do b' <- deref b 425;
    let rg := attr_str s_region a in
    let sy := attr_str s_style a in
    (* 429-443: comma-ok reads *)
    if negb (null rg) && negb (ttc_mem rg regions) then Err EUnknownRef
    else if negb (null sy) && negb (ttc_mem sy styles) then Err EUnknownRef
    else match items_of (strip_content (elem_kids p)) with
         | None => Err EParse
         | Some its =>
           do toks <- items_toks_c styles its;
           Ok (mkItem (ttml_duration b' fr tr) (ttml_duration e' fr tr) (opt_ref rg) (opt_ref sy) ta (lines_of toks))
         end
  | _, _, _ => Err EParse
  end.
Definition read_p_c := read_p_gen true.

Definition read_ttml_gen (guard : bool) (root : xnode) : res tdoc :=
  match root with
  | XText _ => Err EParse
  | XElem nm a kids =>
    if negb (str_eqb (x_local nm) s_tt) then Err EParse else
    match int_attr s_frameRate a, int_attr s_tickRate a with
    | Some fro, Some tro =>
      let fr := match fro with Some z => z | None => 0%Z end in
      let tr := match tro with Some z => z | None => 0%Z end in
      let md := path_elems [s_head; s_metadata] kids in
      let meta := mkMeta fr (last_text (path_elems [s_title] (flat_map elem_kids md)))
                         (last_text (path_elems [s_copyright] (flat_map elem_kids md))) (lang_of (attr_str s_lang a)) in
      do rgs <- map_res read_header (path_elems [s_head; s_layout; s_region] kids);
      do sts <- map_res read_header (path_elems [s_head; s_styling; s_style] kids);
      (* 355: o = NewSubtitles() allocates both maps *)
      let styles0 : option (list (str * tstyle)) := Some [] in
      let regions0 : option (list (str * tstyle)) := Some [] in
      (* 368: parentStyles = make(map[*Style]string) *)
      let parents0 : option (list (tstyle * str)) := Some [] in
      do sp <- styles_loop_c sts styles0 parents0;
      let '(styles, parents) := sp in
      do _ <- parents_loop_c (match parents with Some l => l | None => [] end) styles;
      do regions <- regions_loop_c rgs styles regions0;
      do items <- map_res (read_p_gen guard styles regions fr tr) (path_elems [s_body; s_div; s_p] kids);
      Ok (mkDoc (Some meta) (ttc_entries styles) (ttc_entries regions) items)
    | _, _ => Err EParse
    end
  end.
Definition read_ttml_c : xnode -> res tdoc := read_ttml_gen true.
(* the same reader without the guard of line 411: Proofs/TtmlChk.v exhibits a document on which it panics *)
Definition read_ttml_unguarded : xnode -> res tdoc := read_ttml_gen false.

(* ================= D. WriteToTTML ================= *)
(* What the Go value can express and tdoc cannot: nil pointers.  List elements ([]*Item, []Line, []LineItem) are
   non-nil, as for the other writers. *)
Record wstyle := mkWstyle { ws_id : str;
                            ws_ref : option str;        (* .Style: nil, or the ID of the pointee *)
                            ws_inline : option tattrs   (* .InlineStyle *) }.
Record ttc_wrun := mkTWrun { wr_txt : str; wr_style : option str; wr_inline : option tattrs }.
Record ttc_witem := mkTWitem { wi_start : Z; wi_stop : Z; wi_region : option str; wi_style : option str;
                          wi_inline : option tattrs; wi_runs : list (list ttc_wrun) }.
(* the maps as association lists in which the first binding of a key is the map's; an entry may be a nil pointer *)
Record wdoc := mkWdoc { w_meta : option tmeta; w_styles : list (str * option wstyle);
                        w_regions : list (str * option wstyle); w_items : list ttc_witem }.

(* for id, v := range m : every key once, with the map's value *)
Fixpoint ttc_range {V} (m : list (str * V)) : list (str * V) :=
  match m with
  | [] => []
  | (k, v) :: r => (k, v) :: filter (fun kv => negb (str_eqb (fst kv) k)) (ttc_range r)
  end.
(* if region != nil { k = append(k, id) } *)
Definition ttc_keys {V} (m : list (str * option V)) : list str :=
  flat_map (fun kv => if is_some (snd kv) then [fst kv] else []) (ttc_range m).
(* m[id] without comma-ok: the nil pointer when the key is absent *)
Definition ttc_lookup {V} (id : str) (m : list (str * option V)) : option V :=
  match map_get id m with Some e => e | None => None end.

Definition inline_proj (o : option tattrs) : tattrs := match o with Some a => a | None => no_attrs end.
Definition wstyle_proj (s : wstyle) : tstyle := mkStyle (ws_id s) (ws_ref s) (inline_proj (ws_inline s)).
Definition wmap_proj (m : list (str * option wstyle)) : list (str * tstyle) :=
  flat_map (fun kv => match snd kv with Some s => [(fst kv, wstyle_proj s)] | None => [] end) (ttc_range m).
Definition ttc_wrun_proj (r : ttc_wrun) : trun := mkRun (wr_txt r) (wr_style r) (inline_proj (wr_inline r)).
Definition ttc_witem_proj (it : ttc_witem) : titem :=
  mkItem (wi_start it) (wi_stop it) (wi_region it) (wi_style it) (inline_proj (wi_inline it)) (map (map ttc_wrun_proj) (wi_runs it)).
Definition wdoc_proj (w : wdoc) : tdoc :=
  mkDoc (w_meta w) (wmap_proj (w_styles w)) (wmap_proj (w_regions w)) (map ttc_witem_proj (w_items w)).

(* 555-585 ttmlOutStyleAttributesFromStyleAttributes: if s == nil { return {} }; then the 24 field reads s.TTML...
   of lines 560-583, all of the same pointer *)
Definition out_attrs_c (s : option tattrs) : res tattrs :=
  if negb (is_some s) then Ok no_attrs else deref s 560.
(* the string field that stays "" when the pointer is nil *)
Definition ttc_id_of (p : option str) (site : N) : res str := if is_some p then deref p site else Ok [].

(* 688-697 (regions) and 707-716 (styles): the entry is looked up again at every use *)
Definition out_header_c (el : str) (m : list (str * option wstyle)) (s_id' s_inl s_nil s_sid : N) (id : str) : res xnode :=
  do r1 <- deref (ttc_lookup id m) s_id';                    (* s.Regions[id].ID *)
  do r2 <- deref (ttc_lookup id m) s_inl;                    (* s.Regions[id].InlineStyle *)
  do a <- out_attrs_c (ws_inline r2);
  do r3 <- deref (ttc_lookup id m) s_nil;                    (* s.Regions[id].Style != nil *)
  do sty <- (if is_some (ws_ref r3)
             then do r4 <- deref (ttc_lookup id m) s_sid; deref (ws_ref r4) s_sid   (* s.Regions[id].Style.ID *)
             else Ok []);
  Ok (XElem (nm ns_ttml el) (opt_attr ns_xml s_id (Some (ws_id r1)) ++ opt_attr [] s_style (Some sty) ++ out_attrs a) []).

(* 740-755 *)
Definition out_run_c (r : ttc_wrun) : res xnode :=
  do a <- out_attrs_c (wr_inline r);
  do sty <- ttc_id_of (wr_style r) 750;
  Ok (XElem (nm ns_ttml s_span) (opt_attr [] s_style (Some sty) ++ out_attrs a) (text_kids (wr_txt r))).
(* 738-759 *)
Fixpoint out_lines_c (ls : list (list ttc_wrun)) : res (list xnode) :=
  match ls with
  | [] => Ok []
  | l :: r => do rs <- map_res out_run_c l; do rest <- out_lines_c r; Ok (rs ++ [out_br] ++ rest)
  end.
(* l[:len(l)-1]: the bound is -1, out of range, when len(l) = 0 (a truncated subtraction would hide that) *)
Definition ttc_drop_last {A} (l : list A) (site : N) : res (list A) :=
  match length l with O => Panic site | S n => slice_to l n site end.
(* 719-768 *)
Definition out_p_c (it : ttc_witem) : res xnode :=
  do a <- out_attrs_c (wi_inline it);
  do rg <- ttc_id_of (wi_region it) 729;
  do sy <- ttc_id_of (wi_style it) 734;
  do items <- out_lines_c (wi_runs it);
  (* 762-764 *)
  do items' <- (if Nat.ltb 0 (length items) then ttc_drop_last items 763 else Ok items);
  Ok (XElem (nm ns_ttml s_p)
            ([(nm [] s_begin, format_ttml (wi_start it)); (nm [] s_end, format_ttml (wi_stop it))]
             ++ opt_attr [] s_region (Some rg) ++ opt_attr [] s_style (Some sy) ++ out_attrs a)
            items').

Definition write_ttml_c (w : wdoc) : res xnode :=
  if Nat.eqb (length (w_items w)) 0 then Err ENothingToWrite else
  (* 668-678 *)
  do lang <- (if is_some (w_meta w) then do m <- deref (w_meta w) 669; Ok (map_get_inv (tm_lang m) lang_table) else Ok None);
  do md <- (if is_some (w_meta w) then
              do m1 <- deref (w_meta w) 672; do m2 <- deref (w_meta w) 672;
              if Nat.ltb 0 (length (tm_copyright m1)) || Nat.ltb 0 (length (tm_title m2)) then
                do m3 <- deref (w_meta w) 674; do m4 <- deref (w_meta w) 675;
                Ok [XElem (nm ns_ttml s_metadata) []
                          (elem_if (negb (null (tm_copyright m3))) (XElem (nm ns_ttm s_copyright) [] [XText (tm_copyright m3)])
                           ++ elem_if (negb (null (tm_title m4))) (XElem (nm ns_ttm s_title) [] [XText (tm_title m4)]))]
              else Ok []
            else Ok []);
  (* 681-697 *)
  do regions <- map_res (out_header_c s_region (w_regions w) 690 691 693 694) (gsort sleb (ttc_keys (w_regions w)));
  (* 700-716 *)
  do styles <- map_res (out_header_c s_style (w_styles w) 709 710 712 713) (gsort sleb (ttc_keys (w_styles w)));
  (* 719-768 *)
  do ps <- map_res out_p_c (w_items w);
  let styling := XElem (nm ns_ttml s_styling) [] styles in
  let layout := XElem (nm ns_ttml s_layout) [] regions in
  Ok (XElem (nm ns_ttml s_tt)
            ([(nm [] s_xmlns, ns_ttml)] ++ opt_attr ns_xml s_lang lang
             ++ [(nm s_xmlns s_ttm, ns_ttm); (nm s_xmlns s_tts, ns_tts)])
            ([XElem (nm ns_ttml s_head) [] (md ++ [styling; layout])]
             ++ [XElem (nm ns_ttml s_body) [] [XElem (nm ns_ttml s_div) [] ps]])).

(* ================= E. nil items (ttml.go:690) and guard-dropped variants ================= *)
(* Subtitles.Items is a []*Item whose elements may be nil: WriteToTTML starts with s.Items = nonNilItems(s.Items)
   (ttml.go:690) and refuses the list when nothing is left; then it proceeds as above on the remaining items *)
Definition write_ttml_items_c (items : list (option ttc_witem)) (w : wdoc) : res xnode :=
  write_ttml_c (mkWdoc (w_meta w) (w_styles w) (w_regions w) (somes items)).

(* the same functions with one guard made optional ([true] = the code as it is): what each guard protects *)
(* ttmlOutStyleAttributesFromStyleAttributes without "if s == nil" *)
Definition out_attrs_g (guard : bool) (s : option tattrs) : res tattrs :=
  if guard && negb (is_some s) then Ok no_attrs else deref s 560.
(* the paragraph without "if len(ttmlSubtitle.Items) > 0" before Items[:len-1] *)
Definition out_p_g (guard : bool) (it : ttc_witem) : res xnode :=
  do a <- out_attrs_c (wi_inline it);
  do rg <- ttc_id_of (wi_region it) 729;
  do sy <- ttc_id_of (wi_style it) 734;
  do items <- out_lines_c (wi_runs it);
  do items' <- (if negb guard || Nat.ltb 0 (length items) then ttc_drop_last items 763 else Ok items);
  Ok (XElem (nm ns_ttml s_p)
            ([(nm [] s_begin, format_ttml (wi_start it)); (nm [] s_end, format_ttml (wi_stop it))]
             ++ opt_attr [] s_region (Some rg) ++ opt_attr [] s_style (Some sy) ++ out_attrs a)
            items').
(* propagateTTMLAttributes without "if len(dimensions) > 1" (line 392) *)
Definition propagate_g (guard : bool) (a : tattrs) : res unit :=
  let text_align := nth 16 (ta_s a) None in
  let extent := nth 5 (ta_s a) None in
  let origin := nth 12 (ta_s a) None in
  let wmode := nth 22 (ta_s a) None in
  do _ <- (if is_some text_align then do _ <- deref text_align (ttc_sub 386); Ok tt else Ok tt);
  do _ <- (if is_some extent then
             do e <- deref extent (ttc_sub 391);
             let dimensions := split_byte 32 e in
             if negb guard || Nat.ltb 1 (length dimensions) then
               do _ <- index dimensions 0 (ttc_sub 393);
               do _ <- index dimensions 1 (ttc_sub 394);
               do _ <- index dimensions 1 (ttc_sub 399);
               do tb <- ttc_is_tb wmode (ttc_sub 400);
               if tb then do _ <- index dimensions 0 (ttc_sub 401); Ok tt else Ok tt
             else Ok tt
           else Ok tt);
  if is_some origin then
    do _ <- deref origin (ttc_sub 408);
    do o <- deref origin (ttc_sub 411);
    let coordinates := split_byte 32 o in
    if Nat.ltb 1 (length coordinates) then
      do _ <- index coordinates 0 (ttc_sub 413);
      do _ <- index coordinates 1 (ttc_sub 414);
      do tb <- ttc_is_tb wmode (ttc_sub 415);
      if tb then do _ <- index coordinates 1 (ttc_sub 416); do _ <- index coordinates 0 (ttc_sub 417); Ok tt else Ok tt
    else Ok tt
  else Ok tt.
