From Astisub Require Import Kit.Base Model.Srt.
Theorem C01_placeholder : True. Proof. exact I. Qed.
