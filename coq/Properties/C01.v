(* C01 — SubRip codec fidelity.
   Writing side, for ALL cue lists (no size bound): every representable list is written to a document that the
   reader maps back to the same cues (times truncated to the millisecond, cues renumbered 1..n, every line and every
   styled run unchanged); '&', '<' and the no-break space survive (escape/unescape inverse law); a written line is
   parsed back into exactly its runs.  Reading side: the three line-ending conventions denote the same document;
   the reader is a function of the line list only (delivery schedule: C17), never panics (C08) and reports read
   faults (C18).  Every rendering the format tolerates (byte-order mark, index absent / numeric / garbage, any number
   of blank lines between cues and at the end, ',' or '.', 1-3 fraction digits, any spacing around the arrow,
   trailing coordinates, multi-line and unterminated emphasis) of every cue list is read as the cues it denotes
   (C01_read_rendered, C01_read_rendered_raw).  Side conditions the reader really needs (each shown necessary by a
   computed witness in Proofs/SrtReadProofs.v, all outside the property's quantifier): a cue without index line
   must be preceded by a blank line; coordinates are separated from the end time by white space.  Faithful domain of the markup tokenizer model: Kit.Html.html_simple (outside it the harness
   compares result classes only). *)
From Coq Require Import List ZArith NArith Bool.
From Astisub Require Import Kit.Base Kit.Str Kit.Scan Kit.Html Model.Dur Model.Srt.
From Astisub Require Import Proofs.SrtEscProofs Proofs.SrtProofs Proofs.SrtReadProofs Proofs.EolProofs Proofs.SrtIOProofs.
Import ListNotations.

(* the document written for a representable cue list is read back as that list *)
Theorem C01_write_read : forall l : list sitem, Forall repr_item l -> l <> [] ->
  (Z.of_nat (length l) <= max_int64)%Z ->
  exists data, write_srt l = Ok data /\ read_srt data = Ok (renumber_truncate l).
Proof. exact read_write_srt. Qed.
Print Assumptions C01_write_read.

(* a written text line is parsed back into exactly its styled runs, the style state returning to neutral *)
Theorem C01_line_roundtrip : forall l : list srun, repr_line l ->
  parse_text_srt (concat (map run_bytes l)) sa0 = (l, sa0).
Proof. exact parse_written_line. Qed.
Print Assumptions C01_line_roundtrip.

(* '&', '<', no-break space (every byte string): what the writer escapes the reader unescapes *)
Theorem C01_escape_inverse : forall s : str, unescape_html (escape_html s) = s.
Proof. exact unescape_escape. Qed.
Print Assumptions C01_escape_inverse.

(* every tolerated rendering of every representable cue list is read as the cues it denotes: index = the number on
   the index line (0 when absent or not a number), times truncated to the rendered number of fraction digits, lines
   and styled runs as given *)
Theorem C01_read_rendered : forall (b : bool) (l : list (rend * sitem)) (eof : nat),
  Forall (fun p => rend_ok (fst p) /\ repr_item (snd p)) l ->
  Forall (fun p => gap_ok (fst p)) (tl l) ->
  read_srt_lines (render_items b l eof) false = Ok (map denote_item l).
Proof. exact read_rendered. Qed.
Print Assumptions C01_read_rendered.

(* the same over raw text lines (markup not necessarily as the writer would put it): the style state is threaded
   from line to line inside a cue -- unterminated and multi-line emphasis -- and reset by the next timing line *)
Theorem C01_read_rendered_raw : forall (b : bool) (cs : list (rend * rcue)) (eof : nat),
  Forall (fun p => rend_ok (fst p) /\ rcue_ok (snd p)) cs ->
  Forall (fun p => gap_ok (fst p)) (tl cs) ->
  read_srt_lines (render b cs eof) false = Ok (map denote_cue cs).
Proof. exact read_rendered_raw. Qed.
Print Assumptions C01_read_rendered_raw.

(* LF, CR LF and lone CR denote the same document: the reader sees exactly the lines that were rendered *)
Theorem C01_eol : forall e (ls : list str), eol_ok e -> Forall brkfree ls ->
  read_srt (render_eol e ls) = read_srt_lines ls false.
Proof. intros e ls He HF. unfold read_srt. rewrite (lines_render e ls He HF). reflexivity. Qed.
Print Assumptions C01_eol.

Theorem C01_eol_independent : forall e e' (ls : list str), eol_ok e -> eol_ok e' -> Forall brkfree ls ->
  read_srt (render_eol e ls) = read_srt (render_eol e' ls).
Proof. intros e e' ls He He' HF. unfold read_srt. rewrite (lines_eol_independent e e' ls He He' HF). reflexivity. Qed.
Print Assumptions C01_eol_independent.

(* an unterminated last line is still a line *)
Theorem C01_eol_last_line : forall e (ls : list str) last, eol_ok e -> Forall brkfree ls -> brkfree last -> last <> [] ->
  read_srt (render_eol e ls ++ last) = read_srt_lines (ls ++ [last]) false.
Proof. intros e ls last He HF Hl Hne. unfold read_srt. rewrite (lines_render_unterminated e ls last He HF Hl Hne). reflexivity. Qed.
Print Assumptions C01_eol_last_line.

(* the reader never panics, whatever the lines *)
Theorem C01_reader_total : forall ls e p, read_srt_lines ls e <> Panic p.
Proof. exact read_srt_lines_no_panic. Qed.
Print Assumptions C01_reader_total.

(* non-vacuity: a four-cue list with styled multi-run lines, '&', '<', nbsp, a digits-only text line, a cue
   without lines and times off the millisecond grid satisfies the hypotheses of C01_write_read *)
Example C01_example : Forall repr_item ex_items /\ ex_items <> [].
Proof. split; [exact ex_items_repr | discriminate]. Qed.
