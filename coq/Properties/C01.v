(* C01 — SubRip codec fidelity.
   Writing side, for ALL cue lists (no size bound): every representable list is written to a document that the
   reader maps back to the same cues (times truncated to the millisecond, cues renumbered 1..n, every line and every
   styled run unchanged); '&', '<' and the no-break space survive (escape/unescape inverse law); a written line is
   parsed back into exactly its runs.  Reading side: the three line-ending conventions denote the same document;
   the reader is a function of the line list only (delivery schedule: C17), never panics (C08) and reports read
   faults (C18).  Every rendering the format tolerates (byte-order mark, index absent / numeric / garbage, any number
   of blank lines between cues and at the end, ',' or '.', 1-3 fraction digits, any spacing around the arrow,
   trailing coordinates, multi-line and unterminated emphasis) of every cue list is read as the cues it denotes
   (C01_read_rendered, C01_read_rendered_raw).  Side conditions the reader really needs (each shown necessary by a
   computed witness in Proofs/SrtReadProofs.v, all outside the property's quantifier): a cue without index line
   must be preceded by a blank line; coordinates are separated from the end time by white space.  Faithful domain of the markup tokenizer model: Kit.Html.html_simple (outside it the harness
   compares result classes only). *)
From Coq Require Import List ZArith NArith Bool.
From Astisub Require Import Kit.Base Kit.Str Kit.Scan Kit.Html Model.Dur Model.Srt.
From Astisub Require Import Proofs.SrtEscProofs Proofs.SrtProofs Proofs.SrtReadProofs Proofs.EolProofs Proofs.SrtIOProofs.
From Astisub Require Import Proofs.SrtSimple Proofs.SrtSimpleRaw.
From Astisub Require Import Kit.Chk Model.SrtC Proofs.SrtChk Proofs.SrtWriteRender.
From Coq Require Strings.String.
Import Strings.String.StringSyntax.
Import ListNotations.

(* the document written for a representable cue list is read back as that list *)
Theorem C01_write_read : forall l : list sitem, Forall repr_item l -> l <> [] ->
  (Z.of_nat (length l) <= max_int64)%Z ->
  exists data, write_srt l = Ok data /\ read_srt data = Ok (renumber_truncate l).
Proof. exact read_write_srt. Qed.
Print Assumptions C01_write_read.

(* a written text line is parsed back into exactly its styled runs, the style state returning to neutral *)
Theorem C01_line_roundtrip : forall l : list srun, repr_line l ->
  parse_text_srt (concat (map run_bytes l)) sa0 = (l, sa0).
Proof. exact parse_written_line. Qed.
Print Assumptions C01_line_roundtrip.

(* '&', '<', no-break space (every byte string): what the writer escapes the reader unescapes *)
Theorem C01_escape_inverse : forall s : str, unescape_html (escape_html s) = s.
Proof. exact unescape_escape. Qed.
Print Assumptions C01_escape_inverse.

(* every tolerated rendering of every representable cue list is read as the cues it denotes: index = the number on
   the index line (0 when absent or not a number), times truncated to the rendered number of fraction digits, lines
   and styled runs as given *)
Theorem C01_read_rendered : forall (b : bool) (l : list (rend * sitem)) (eof : nat),
  Forall (fun p => rend_ok (fst p) /\ repr_item (snd p)) l ->
  Forall (fun p => gap_ok (fst p)) (tl l) ->
  read_srt_lines (render_items b l eof) false = Ok (map denote_item l).
Proof. exact read_rendered. Qed.
Print Assumptions C01_read_rendered.

(* the same over raw text lines (markup not necessarily as the writer would put it): the style state is threaded
   from line to line inside a cue -- unterminated and multi-line emphasis -- and reset by the next timing line *)
Theorem C01_read_rendered_raw : forall (b : bool) (cs : list (rend * rcue)) (eof : nat),
  Forall (fun p => rend_ok (fst p) /\ rcue_ok (snd p)) cs ->
  Forall (fun p => gap_ok (fst p)) (tl cs) ->
  read_srt_lines (render b cs eof) false = Ok (map denote_cue cs).
Proof. exact read_rendered_raw. Qed.
Print Assumptions C01_read_rendered_raw.

(* LF, CR LF and lone CR denote the same document: the reader sees exactly the lines that were rendered *)
Theorem C01_eol : forall e (ls : list str), eol_ok e -> Forall brkfree ls ->
  read_srt (render_eol e ls) = read_srt_lines ls false.
Proof. intros e ls He HF. unfold read_srt. rewrite (lines_render e ls He HF). reflexivity. Qed.
Print Assumptions C01_eol.

Theorem C01_eol_independent : forall e e' (ls : list str), eol_ok e -> eol_ok e' -> Forall brkfree ls ->
  read_srt (render_eol e ls) = read_srt (render_eol e' ls).
Proof. intros e e' ls He He' HF. unfold read_srt. rewrite (lines_eol_independent e e' ls He He' HF). reflexivity. Qed.
Print Assumptions C01_eol_independent.

(* an unterminated last line is still a line *)
Theorem C01_eol_last_line : forall e (ls : list str) last, eol_ok e -> Forall brkfree ls -> brkfree last -> last <> [] ->
  read_srt (render_eol e ls ++ last) = read_srt_lines (ls ++ [last]) false.
Proof. intros e ls last He HF Hl Hne. unfold read_srt. rewrite (lines_render_unterminated e ls last He HF Hl Hne). reflexivity. Qed.
Print Assumptions C01_eol_last_line.

(* the reader never panics, whatever the lines *)
Theorem C01_reader_total : forall ls e p, read_srt_lines ls e <> Panic p.
Proof. exact read_srt_lines_no_panic. Qed.
Print Assumptions C01_reader_total.

(* ---- the hypotheses stay inside the faithful domain of the markup tokenizer model ----
   The SubRip model reads text through a model of the golang.org/x/net/html tokenizer that agrees with the real tokenizer
   only on Kit.Html.html_simple (no raw-text element script/style/title/..., no comment, no '&' and no CR inside an
   attribute value, no NUL byte).  The theorems above are statements about the library only for inputs whose tokenized
   lines lie in that domain; the four theorems below show that their hypotheses guarantee it, so that none of them
   holds "of the model only". *)

(* the bytes the writer emits for a representable line: the colour has no double quote, '&', CR, NUL (col_ok), the text
   no NUL, '<' is escaped, the only tags are font/b/i/u *)
Theorem C01_written_line_in_faithful_domain : forall l : list srun, repr_line l -> html_simple (line_str l) = true.
Proof. exact repr_line_simple. Qed.
Print Assumptions C01_written_line_in_faithful_domain.

(* every line of the document written for representable cues (index, timing and text lines) *)
Theorem C01_written_document_in_faithful_domain : forall (l : list sitem) data, Forall repr_item l -> write_srt l = Ok data ->
  Forall (fun x => html_simple x = true) (lines data).
Proof. exact written_doc_simple. Qed.
Print Assumptions C01_written_document_in_faithful_domain.

(* raw body lines are arbitrary strings: there the domain predicate itself is the hypothesis (last conjunct of
   body_line_ok) *)
Theorem C01_rendered_raw_in_faithful_domain : forall q : rcue, rcue_ok q -> Forall (fun x => html_simple x = true) (rc_body q).
Proof. exact rcue_ok_simple. Qed.
Print Assumptions C01_rendered_raw_in_faithful_domain.

(* every line of a rendering that reaches the tokenizer (index and text lines; the timing line is recognised by its
   arrow and never tokenized; the byte-order mark is removed before) *)
Theorem C01_rendering_in_faithful_domain : forall (cs : list (rend * rcue)) (eof : nat),
  Forall (fun p => rend_ok (fst p) /\ rcue_ok (snd p)) cs ->
  Forall (fun x => contains arrow x = true \/ html_simple x = true) (all_cue_lines cs ++ repeat [] eof).
Proof. exact rendered_raw_simple. Qed.
Print Assumptions C01_rendering_in_faithful_domain.

(* the strengthened conditions are needed (audit witnesses, both replayed on the library).
   Colour [&amp;]: all the other conditions hold and the model reads the written line back unchanged, but the line is
   outside the faithful domain: the library writes the colour unescaped and reads it back as [&]. *)
Theorem C01_needs_colour_without_amp :
  col_okb amp_colour = false /\ repr_itemb amp_item = false /\
  html_simple (line_str amp_line) = false /\
  parse_text_srt (line_str amp_line) sa0 = (amp_line, sa0).
Proof. exact amp_colour_witness. Qed.
(* Raw line [<script>x<b>y]: trimmed, valid UTF-8, no arrow; the model reads the runs x and bold y, the library the single
   run [x<b>y] because the real tokenizer treats script as a raw-text element. *)
Theorem C01_needs_raw_line_simple :
  html_simple script_line = false /\ body_line_okb script_line = false /\ rcue_okb script_cue = false /\
  (str_eqb (trim_space script_line) script_line && utf8_valid script_line && negb (contains arrow script_line) = true) /\
  forallb line_keepsb (fst (thread (rc_body script_cue) sa0)) = true /\
  parse_text_srt script_line sa0 = ([mkSrun [120] None 0; mkSrun [121] (Some (mkSa true false false None)) 0], mkSa true false false None).
Proof. exact raw_text_witness. Qed.

(* non-vacuity: a four-cue list with styled multi-run lines, '&', '<', nbsp, a digits-only text line, a cue
   without lines and times off the millisecond grid satisfies the hypotheses of C01_write_read *)
Example C01_example : Forall repr_item ex_items /\ ex_items <> [].
Proof. split; [exact ex_items_repr | discriminate]. Qed.

(* ---- the writer's output, stated without the reader ----
   The bytes WriteToSRT produces ARE the LF-terminated canonical rendering of the cue list (w_rendering: byte-order
   mark, cue k numbered k+1 on its index line, one blank line between cues and none after the last, comma and three
   fraction digits, one space on each side of the arrow, no coordinates).  The equation has no hypothesis on the cues
   and does not mention the reader. *)
Theorem C01_write_is_rendering : forall l : list sitem, l <> [] ->
  write_srt l = Ok (render_eol [10] (render_items true (w_rendering l) 0)).
Proof. exact write_is_rendering. Qed.
Print Assumptions C01_write_is_rendering.

(* what that rendering denotes (denote_item: the number on the index line, the times truncated to the rendered
   fraction digits, the lines): the cues renumbered 1..n and truncated to the millisecond *)
Theorem C01_write_denotes : forall l : list sitem, (Z.of_nat (length l) <= max_int64)%Z ->
  map denote_item (w_rendering l) = renumber_truncate l.
Proof. exact write_denotes. Qed.
Print Assumptions C01_write_denotes.

(* for representable cues the canonical rendering is one of the renderings C01_read_rendered covers ... *)
Theorem C01_write_rendering_ok : forall l : list sitem, Forall repr_item l -> (Z.of_nat (length l) <= max_int64)%Z ->
  Forall (fun p => rend_ok (fst p) /\ repr_item (snd p)) (w_rendering l) /\
  Forall (fun p => gap_ok (fst p)) (tl (w_rendering l)).
Proof. exact write_rendering_ok. Qed.
Print Assumptions C01_write_rendering_ok.

(* ... so that the round trip C01_write_read follows from the three statements above and C01_read_rendered *)
Theorem C01_write_read_via_rendering : forall l : list sitem, Forall repr_item l -> l <> [] ->
  (Z.of_nat (length l) <= max_int64)%Z ->
  exists data, write_srt l = Ok data /\
               data = render_eol [10] (render_items true (w_rendering l) 0) /\
               read_srt data = Ok (map denote_item (w_rendering l)) /\
               map denote_item (w_rendering l) = renumber_truncate l.
Proof. exact write_read_via_rendering. Qed.
Print Assumptions C01_write_read_via_rendering.

(* a computed instance: the lines of the canonical rendering of two cues (index fields 7 and 0, an end time off the
   millisecond grid, a bold run, an ampersand) and the bytes written *)
Example C01_write_is_rendering_example :
  render_items true (w_rendering x_l) 0 =
    [ bom ++ wb "1"; wb "00:00:01,500 --> 00:00:02,000"; wb "<b>Hi</b>"; wb "a&amp;b"; [];
      wb "2"; wb "00:00:03,000 --> 00:00:04,000"; wb "x" ] /\
  write_srt x_l = Ok (render_eol [10] (render_items true (w_rendering x_l) 0)).
Proof. split; [exact x_rendering_lines | exact x_written]. Qed.

(* ---- the model the harness runs has explicit panic sites (C08) ----
   Model/SrtC.v transcribes srt.go with every index expression, slice expression and pointer dereference as a checked
   access that yields Panic <line of srt.go> when out of range / nil, behind the guard the Go code tests.  It is the
   function the extracted driver runs against the library; the theorems of this file are stated on the pattern-matching
   transcription, which computes the same function: *)
Theorem C01_checked_reader_agrees : forall ls e, read_srt_lines_c ls e = read_srt_lines ls e.
Proof. exact read_srt_lines_c_ok. Qed.
Print Assumptions C01_checked_reader_agrees.
Theorem C01_checked_writer_agrees : forall l, write_srt_c l = write_srt l.
Proof. exact write_srt_c_ok. Qed.
Print Assumptions C01_checked_writer_agrees.
(* no panic site of srt.go is reachable (the content: each guard implies its access is in range) *)
Theorem C01_checked_reader_total : forall ls e p, read_srt_lines_c ls e <> Panic p.
Proof. exact read_srt_lines_c_no_panic. Qed.
Print Assumptions C01_checked_reader_total.

(* ---- CORRECTION to the header of this file (second audit, N7): what is compared outside html_simple ----
   The header says that outside the faithful domain of the markup tokenizer model "the harness compares result classes
   only".  What it really compares there (harness/core.go, model answers starting with NS) is only whether the call
   PANICS (model class Panic against a panic of the library); the Ok / Err distinction and the value are not compared.
   Outside html_simple nothing is claimed about the library beyond "no panic" (C08); inside it, and that is where every
   hypothesis of this file lives (C01_*_in_faithful_domain), values are compared exactly. *)
(* ---- the scanner's line limit (second audit, item N3; Proofs/LineBound.v) ----
   The theorems above are stated on the unbounded line splitter (read_srt data = read_srt_lines (lines data) false; no size
   bound).  The real reader takes its lines from a bufio.Scanner with the default buffer (subtitles.go newScanner never calls
   Buffer): a line of 65536 bytes or more makes ReadFromSRT fail with bufio.ErrTooLong.  One cue with a text line of 65536
   letters satisfies repr_item; the library writes it and cannot read it back, so C01_write_read, C01_read_rendered(_raw),
   C01_write_read_via_rendering and C01_eol are true of the library only below that size.  The statements that are true of
   the library carry the line bound.  They are about read_srt_lim max data counts = the reader over the limit-aware scanner
   of C17 (Kit/ScanLim.v scan_lim: buffer of max bytes, delivery schedule counts; the real value is max_scan_token = 65536),
   for EVERY max and EVERY schedule:
     lines_within max ls     every line at least two bytes shorter than the buffer (the bound of C17_readers_within_limit:
                             enough for LF, CR LF and lone CR);
     lines_within_lf max ls  every line at least one byte shorter: exact for LF-terminated documents (what the writer emits);
     line_beyond_lf max ls   some line of max bytes or more.
   C01_write_read_within_limit        the round trip, bound on the written bytes;
   C01_write_read_text_within_limit   the round trip, bound on the text lines of the cue list (the other written lines are
                                      short: byte-order mark + index <= 22 bytes, timing line <= 39 bytes);
   C01_write_read_exact_limit         the writer's bytes are read back when no written line has max bytes or more and are
                                      REFUSED (an error, never a shorter cue list) when one has;
   C01_read_rendered_within_limit, C01_read_rendered_raw_within_limit, C01_eol_within_limit   every rendering, every line end;
   C01_line_bound_sharp, C01_real_line_bound   one cue with a text line of n letters: read back iff n + 1 <= max; at the real
                                      constant 65535 letters are read back and 65536 refused, under every schedule, while
                                      the cue with 65536 letters satisfies the hypotheses of C01_write_read;
   C01_write_read_needs_line_bound    the same by computation on a buffer of 48 bytes, with the error returned (EIO: the
                                      scanner's error), and the line-end dependence (47 letters pass with LF, fail with CR LF).
   Replayed on the library by the harness suite srt.linebound (lines of 65533 .. 65537 bytes). *)
From Coq Require Import Arith.
From Astisub Require Import Kit.ScanLim Proofs.ScanLimProofs Proofs.LineBound.

Theorem C01_write_read_within_limit : forall (max : nat) (l : list sitem), (0 < max)%nat ->
  Forall repr_item l -> l <> [] -> (Z.of_nat (length l) <= max_int64)%Z ->
  forall data, write_srt l = Ok data -> lines_within max (lines data) ->
  forall counts, read_srt_lim max data counts = Ok (renumber_truncate l).
Proof. exact write_read_srt_within. Qed.
Print Assumptions C01_write_read_within_limit.

Theorem C01_written_lines_within_limit : forall (max : nat) (l : list sitem), (41 <= max)%nat ->
  Forall time_ok l -> (Z.of_nat (length l) <= max_int64)%Z ->
  Forall (fun it => lines_within max (map line_str (si_lines it))) l ->
  lines_within max (render_items true (w_rendering l) 0).
Proof. exact srt_lines_within. Qed.
Print Assumptions C01_written_lines_within_limit.

Theorem C01_write_read_text_within_limit : forall (max : nat) (l : list sitem), (41 <= max)%nat ->
  Forall repr_item l -> l <> [] -> (Z.of_nat (length l) <= max_int64)%Z ->
  Forall (fun it => lines_within max (map line_str (si_lines it))) l ->
  exists data, write_srt l = Ok data /\ forall counts, read_srt_lim max data counts = Ok (renumber_truncate l).
Proof. exact write_read_srt_text_within. Qed.
Print Assumptions C01_write_read_text_within_limit.

Theorem C01_write_read_exact_limit : forall (max : nat) (l : list sitem), (0 < max)%nat ->
  Forall repr_item l -> l <> [] -> (Z.of_nat (length l) <= max_int64)%Z ->
  exists data, write_srt l = Ok data /\
    (lines_within_lf max (render_items true (w_rendering l) 0) ->
       forall counts, read_srt_lim max data counts = Ok (renumber_truncate l)) /\
    (line_beyond_lf max (render_items true (w_rendering l) 0) ->
       forall counts, exists k, read_srt_lim max data counts = Err k).
Proof. exact write_read_srt_exact. Qed.
Print Assumptions C01_write_read_exact_limit.

Theorem C01_read_rendered_within_limit : forall (max : nat) e (b : bool) (l : list (rend * sitem)) (eof : nat),
  (0 < max)%nat -> eol_ok e ->
  Forall (fun p => rend_ok (fst p) /\ repr_item (snd p)) l -> Forall (fun p => gap_ok (fst p)) (tl l) ->
  Forall brkfree (render_items b l eof) -> lines_within max (render_items b l eof) ->
  forall counts, read_srt_lim max (render_eol e (render_items b l eof)) counts = Ok (map denote_item l).
Proof. exact read_rendered_srt_within. Qed.
Print Assumptions C01_read_rendered_within_limit.

Theorem C01_read_rendered_raw_within_limit : forall (max : nat) e (b : bool) (cs : list (rend * rcue)) (eof : nat),
  (0 < max)%nat -> eol_ok e ->
  Forall (fun p => rend_ok (fst p) /\ rcue_ok (snd p)) cs -> Forall (fun p => gap_ok (fst p)) (tl cs) ->
  Forall brkfree (render b cs eof) -> lines_within max (render b cs eof) ->
  forall counts, read_srt_lim max (render_eol e (render b cs eof)) counts = Ok (map denote_cue cs).
Proof. exact read_rendered_raw_srt_within. Qed.
Print Assumptions C01_read_rendered_raw_within_limit.

Theorem C01_eol_within_limit : forall (max : nat) e (ls : list str) counts, (0 < max)%nat -> eol_ok e ->
  Forall brkfree ls -> lines_within max ls -> read_srt_lim max (render_eol e ls) counts = read_srt_lines ls false.
Proof. exact read_srt_lim_eol. Qed.
Print Assumptions C01_eol_within_limit.

(* the bound is needed and sharp: a_cue n = one cue, one unstyled text line of n letters a *)
Theorem C01_line_bound_sharp : forall (max : nat) (n : N), (30 <= max)%nat -> (0 < n)%N ->
  exists data, write_srt (a_cue n) = Ok data /\ read_srt data = Ok (renumber_truncate (a_cue n)) /\
    ((N.to_nat n + 1 <= max)%nat -> forall counts, read_srt_lim max data counts = Ok (renumber_truncate (a_cue n))) /\
    ((max < N.to_nat n + 1)%nat -> forall counts, exists k, read_srt_lim max data counts = Err k).
Proof. exact srt_line_bound_sharp. Qed.
Print Assumptions C01_line_bound_sharp.

Theorem C01_real_line_bound :
  Forall repr_item (a_cue 65536) /\
  (exists data, write_srt (a_cue 65535) = Ok data /\
     forall counts, read_srt_lim max_scan_token data counts = Ok (renumber_truncate (a_cue 65535))) /\
  (exists data, write_srt (a_cue 65536) = Ok data /\ read_srt data = Ok (renumber_truncate (a_cue 65536)) /\
     forall counts, exists k, read_srt_lim max_scan_token data counts = Err k).
Proof. exact srt_real_line_bound. Qed.
Print Assumptions C01_real_line_bound.

Example C01_write_read_needs_line_bound :
  forallb repr_itemb (a_cue 48) = true /\
  read_srt (srt_bytes (a_cue 48)) = Ok (renumber_truncate (a_cue 48)) /\
  read_srt_lim 48 (srt_bytes (a_cue 48)) [] = Err EIO /\
  read_srt_lim 48 (srt_bytes (a_cue 48)) [7%nat; 0%nat; 100%nat] = Err EIO /\
  lines_withinb 48 (lines (srt_bytes (a_cue 46))) = true /\
  read_srt_lim 48 (srt_bytes (a_cue 46)) [7%nat; 0%nat; 100%nat] = Ok (renumber_truncate (a_cue 46)) /\
  lines_withinb 48 (lines (srt_bytes (a_cue 47))) = false /\
  read_srt_lim 48 (srt_bytes (a_cue 47)) [7%nat; 0%nat; 100%nat] = Ok (renumber_truncate (a_cue 47)) /\
  read_srt_lim 48 (render_eol [CR; LF] (lines (srt_bytes (a_cue 47)))) [7%nat; 0%nat; 100%nat] = Err EIO /\
  read_srt (render_eol [CR; LF] (lines (srt_bytes (a_cue 47)))) = Ok (renumber_truncate (a_cue 47)).
Proof. exact write_read_needs_line_bound. Qed.
(* ---- the model's literals are the constants of the Go source (Proofs/ConstTie.v, Gen/Consts.v regenerated from the
   repository on every run by tools/genconsts): the SubRip separators, keywords and names the model spells out equal the
   NAMED package-level constants, struct tags and bidirectional-map entries of the source (literals inside function bodies and
   regexp patterns are deliberately not tied: see Proofs/ConstTie.v).  A closed boolean computed by the kernel. ---- *)
From Astisub Require Proofs.ConstTie Proofs.ConstTieSrt.
Theorem C01_constants_from_source : ConstTie.all ConstTieSrt.SrtTie.ties = true.
Proof. exact ConstTieSrt.SrtTie.consts_from_source. Qed.
Print Assumptions C01_constants_from_source.
