(* C20 — Independent calls are safe to run concurrently (partial).
   (i)  Frame property: threads whose steps only read the shared store end, under ANY interleaving, in the state
        they reach alone.
   (ii) Instance: Gen/Effects.v is regenerated on every run by tools/geneffects from the go/ssa form of the
        package in /repo's working tree; it lists every store / map update / mutating method call whose target
        derives from a package-level variable.  The theorem below says all of them are in package initialisers
        (which run before any call), so API calls are read-only on package state.
   Not carried by the model: the Go memory model itself, the mutex inside astikit's BiMap, aliasing through the
   heap that the intra-procedural derivation does not follow.  Those are observed by the harness (race detector
   on 2..32 goroutines, results compared with the sequential run). *)
From Coq Require Import String List Arith Bool.
From Astisub Require Import Kit.Frame Gen.Effects.
Import ListNotations.
Open Scope string_scope.

Definition is_init (f : string) : bool :=
  String.eqb f "init" || String.prefix "init#" f.

Theorem C20_no_shared_writes_outside_init :
  forallb (fun w => is_init (fst (fst w))) shared_writes = true.
Proof. vm_compute. reflexivity. Qed.

Theorem C20_frame : forall (Sh L : Type) (step : Sh -> L -> L) sched sh ls t,
  run Sh L step sched sh ls t = iter Sh L step (count_occ Nat.eq_dec sched t) sh (ls t).
Proof. exact frame. Qed.
Theorem C20_interleaving_independent : forall (Sh L : Type) (step : Sh -> L -> L) s1 s2 sh ls t,
  count_occ Nat.eq_dec s1 t = count_occ Nat.eq_dec s2 t -> run Sh L step s1 sh ls t = run Sh L step s2 sh ls t.
Proof. exact interleaving_independent. Qed.

Example C20_summary_not_empty : (0 < length shared_writes /\ 100 < functions_analysed)%nat.
Proof. split; vm_compute; repeat constructor. Qed.

Print Assumptions C20_no_shared_writes_outside_init.
Print Assumptions C20_frame.
Print Assumptions C20_interleaving_independent.
