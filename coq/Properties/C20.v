(* C20 — Independent calls are safe to run concurrently (partial).
   (i)  Frame property: threads whose steps only read the shared store end, under ANY interleaving, in the state
        they reach alone.
   (ii) Instance: Gen/Effects.v is regenerated on every run by tools/geneffects from the go/ssa form of the
        package in /repo's working tree; it lists every store / map update / mutating method call whose target
        derives from a package-level variable.  The theorem below says all of them are in package initialisers
        (which run before any call), so API calls are read-only on package state.
   Not carried by the model: the Go memory model itself, the mutex inside astikit's BiMap, aliasing through the
   heap that the intra-procedural derivation does not follow.  Those are observed by the harness (race detector
   on 2..32 goroutines, results compared with the sequential run). *)
From Coq Require Import String List Arith Bool.
From Astisub Require Import Kit.Frame Gen.Effects.
Import ListNotations.
Open Scope string_scope.

Definition is_init (f : string) : bool :=
  String.eqb f "init" || String.prefix "init#" f.

Theorem C20_no_shared_writes_outside_init :
  forallb (fun w => is_init (fst (fst w))) shared_writes = true.
Proof. vm_compute. reflexivity. Qed.

Theorem C20_frame : forall (Sh L : Type) (step : Sh -> L -> L) sched sh ls t,
  run Sh L step sched sh ls t = iter Sh L step (count_occ Nat.eq_dec sched t) sh (ls t).
Proof. exact frame. Qed.
Theorem C20_interleaving_independent : forall (Sh L : Type) (step : Sh -> L -> L) s1 s2 sh ls t,
  count_occ Nat.eq_dec s1 t = count_occ Nat.eq_dec s2 t -> run Sh L step s1 sh ls t = run Sh L step s2 sh ls t.
Proof. exact interleaving_independent. Qed.

Example C20_summary_not_empty : (0 < length shared_writes /\ 100 < functions_analysed)%nat.
Proof. split; vm_compute; repeat constructor. Qed.

Print Assumptions C20_no_shared_writes_outside_init.
Print Assumptions C20_frame.
Print Assumptions C20_interleaving_independent.

(* ---- second audit, N13: C20_frame was instantiated nowhere ----
   The frame theorem is generic in the shared store, the private state and the step.  An instance on the operation models:
   goroutines that each Merge the SAME shared argument B (read, never written: the step is a function of it) into their
   own private receiver - under any interleaving every receiver ends as if its goroutine had run alone.  This ties the
   semantics to Model/Ops.v only; that the library's calls are steps of this kind (no write to package state, (ii) above;
   no write to a shared argument) is the effect analysis plus the harness, as said in the header.
   Also noted by the audit: Kit/GoMap.v's [range_sorted] (C19_sorted_range_independent) is used by NO writer model - the
   WebVTT and SSA writer models sort their keys with their own [ssort] and take the iteration orders as parameters
   (C19_vtt_deterministic, C19_ssa_deterministic); [range_sorted] is the generic statement of the mechanism only.  And
   Gen/Effects.v lists what tools/geneffects finds in the current tree (the count in DESIGN.md is from an earlier tree). *)
From Coq Require Import ZArith NArith.
From Astisub Require Import Kit.Base Model.Ops.
Definition merge_step (pr : list region) (ps : list style) (b : subs) (a : subs) : subs := merge a b pr ps.
Theorem C20_frame_merge : forall pr ps sched (b : subs) (ls : nat -> subs) t,
  Frame.run subs subs (merge_step pr ps) sched b ls t = Frame.iter subs subs (merge_step pr ps) (count_occ Nat.eq_dec sched t) b (ls t).
Proof. intros pr ps. exact (frame subs subs (merge_step pr ps)). Qed.
(* any operation of one argument on a private list, the shared store being whatever is only read *)
Theorem C20_frame_private_op : forall (Sh : Type) (op : list item -> list item) sched (sh : Sh) ls t,
  Frame.run Sh (list item) (fun _ l => op l) sched sh ls t = Frame.iter Sh (list item) (fun _ l => op l) (count_occ Nat.eq_dec sched t) sh (ls t).
Proof. intros Sh op. exact (frame Sh (list item) (fun _ l => op l)). Qed.
(* non-vacuity: two goroutines, schedule 0 1 0: goroutine 0 merged B twice, goroutine 1 once, each as if alone *)
Example C20_frame_merge_example :
  let b := mkSubs [mkItem 3 5 7 [] None None false]%Z None None in
  let a0 := mkSubs [mkItem 1 9 10 [] None None false]%Z None None in
  let a1 := mkSubs [mkItem 2 1 2 [] None None false]%Z None None in
  let ls := fun t => if Nat.eqb t 0 then a0 else a1 in
  map uid (items (Frame.run subs subs (merge_step [] []) [0; 1; 0]%nat b ls 0%nat)) = [3; 3; 1]%N /\
  map uid (items (Frame.run subs subs (merge_step [] []) [0; 1; 0]%nat b ls 1%nat)) = [2; 3]%N.
Proof. split; reflexivity. Qed.
Print Assumptions C20_frame_merge.
Print Assumptions C20_frame_private_op.
