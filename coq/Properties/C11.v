(* C11 — Unfragment merges touching same-text cues, keeps the display, (inverts Fragment). *)
From Coq Require Import List ZArith NArith Permutation.
From Astisub Require Import Kit.Base Model.Ops Proofs.OrderProofs Proofs.UnfragProofs Proofs.InverseProofs.
Import ListNotations.
Open Scope Z_scope.

(* For every cue list (any order, overlaps, duplicates) whose cues have start <= end:
   the result is start-ordered; every cue still has start <= end; every result cue is an input cue
   (same identity, start, text, content) whose end was extended to the end of a same-text cue;
   the set of texts on screen at every instant is unchanged; and no two same-text cues touch or overlap. *)
Theorem C11_unfragment : forall l, wf l ->
  sorted (unfragment l) /\ wf (unfragment l) /\ from (order l) (unfragment l) /\
  (forall k t, covers k t l <-> covers k t (unfragment l)) /\ no_touch (unfragment l).
Proof. exact unfragment_facts. Qed.

(* nothing else happens: an ordered list without touching same-text cues is returned unchanged
   (cues with distinct texts or separated by a gap are untouched), and twice = once *)
Theorem C11_fixpoint : forall l, sorted l -> no_touch l -> unfragment l = l.
Proof. exact unfragment_fixpoint. Qed.
Theorem C11_idempotent : forall l, wf l -> unfragment (unfragment l) = unfragment l.
Proof. exact unfragment_idempotent. Qed.

(* Unfragment inverts Fragment: for a start-ordered list free of touching same-text cues (cues of
   positive length) and any f > 0, every cue's times and content come back, in the same order.
   (Identity tags are not restored: a merged cue is the first piece, a copy.) *)
Theorem C11_inverse : forall f l, 0 < f -> sorted l -> no_touch l -> Forall (fun x => st x < en x) l ->
  map proj (unfragment (fragment f l)) = map proj l.
Proof. exact unfragment_fragment. Qed.

Example C11_example :
  let mk u s e t := mkItem u s e [mkLine [mkRun [t] None false] []] None None false in
  map (fun x => (uid x, st x, en x)) (unfragment [mk 1%N 4 6 1%N; mk 2%N 0 2 1%N; mk 3%N 2 4 1%N; mk 4%N 3 5 2%N; mk 5%N 7 8 1%N])
  = [(2%N, 0, 6); (4%N, 3, 5); (5%N, 7, 8)].
Proof. reflexivity. Qed.

Print Assumptions C11_unfragment.
Print Assumptions C11_fixpoint.
Print Assumptions C11_idempotent.
Print Assumptions C11_inverse.
