(* C11 — Unfragment merges touching same-text cues, keeps the display, (inverts Fragment). *)
From Coq Require Import List ZArith NArith Permutation.
From Astisub Require Import Kit.Base Model.Ops Proofs.OrderProofs Proofs.UnfragProofs Proofs.InverseProofs.
Import ListNotations.
Open Scope Z_scope.

(* For every cue list (any order, overlaps, duplicates) whose cues have start <= end:
   the result is start-ordered; every cue still has start <= end; every result cue is an input cue
   (same identity, start, text, content) whose end was extended to the end of a same-text cue;
   the set of texts on screen at every instant is unchanged; and no two same-text cues touch or overlap. *)
Theorem C11_unfragment : forall l, wf l ->
  sorted (unfragment l) /\ wf (unfragment l) /\ from (order l) (unfragment l) /\
  (forall k t, covers k t l <-> covers k t (unfragment l)) /\ no_touch (unfragment l).
Proof. exact unfragment_facts. Qed.

(* nothing else happens: an ordered list without touching same-text cues is returned unchanged
   (cues with distinct texts or separated by a gap are untouched), and twice = once *)
Theorem C11_fixpoint : forall l, sorted l -> no_touch l -> unfragment l = l.
Proof. exact unfragment_fixpoint. Qed.
Theorem C11_idempotent : forall l, wf l -> unfragment (unfragment l) = unfragment l.
Proof. exact unfragment_idempotent. Qed.

(* Unfragment inverts Fragment: for a start-ordered list free of touching same-text cues (cues of
   positive length) and any f > 0, every cue's times and content come back, in the same order.
   (Identity tags are not restored: a merged cue is the first piece, a copy.) *)
Theorem C11_inverse : forall f l, 0 < f -> sorted l -> no_touch l -> Forall (fun x => st x < en x) l ->
  map proj (unfragment (fragment f l)) = map proj l.
Proof. exact unfragment_fragment. Qed.

Example C11_example :
  let mk u s e t := mkItem u s e [mkLine [mkRun [t] None false] []] None None false in
  map (fun x => (uid x, st x, en x)) (unfragment [mk 1%N 4 6 1%N; mk 2%N 0 2 1%N; mk 3%N 2 4 1%N; mk 4%N 3 5 2%N; mk 5%N 7 8 1%N])
  = [(2%N, 0, 6); (4%N, 3, 5); (5%N, 7, 8)].
Proof. reflexivity. Qed.

Print Assumptions C11_unfragment.
Print Assumptions C11_fixpoint.
Print Assumptions C11_idempotent.
Print Assumptions C11_inverse.

(* ---- audit follow-ups (Proofs/OpsUnfragExtra.v) ---- *)
From Astisub Require Import Proofs.FragmentProofs Proofs.OpsUnfragExtra.

(* inside a MIXED list (any order; other cues may merge): a cue separated by a gap from every OTHER cue with its
   text ([iso]: the others are the rest of the list, so a duplicate counts as another cue) is a cue of the output -
   the same record, i.e. times, content and identity unchanged.  Zero-length cues (start = end) are covered: the
   only hypothesis on the cues is start <= end. *)
Theorem C11_untouched_in_mixed : forall l1 x l2,
  wf (l1 ++ x :: l2) -> iso x (l1 ++ l2) -> In x (unfragment (l1 ++ x :: l2)).
Proof. exact unfragment_keeps_isolated. Qed.
(* cues with a different text never matter *)
Theorem C11_untouched_unique_text : forall l1 x l2, wf (l1 ++ x :: l2) ->
  Forall (fun y => tx y <> tx x) (l1 ++ l2) -> In x (unfragment (l1 ++ x :: l2)).
Proof. exact unfragment_keeps_unique_text. Qed.
(* a zero-length cue at instant s is kept when every other cue with its text ends before s or starts after s *)
Theorem C11_untouched_zero_length : forall l1 x l2, st x = en x -> wf (l1 ++ x :: l2) ->
  Forall (fun y => tx y = tx x -> en y < st x \/ st x < st y) (l1 ++ l2) -> In x (unfragment (l1 ++ x :: l2)).
Proof. exact unfragment_keeps_isolated_zero_length. Qed.

(* non-vacuity: unordered, two texts; 1-2-3 merge; 4 (other text, overlapping) untouched; 5 (same text, after a gap)
   untouched; 6 (zero-length, in a gap) untouched; 8 (zero-length, touching the end of 7, same text) merged into 7 *)
Example C11_mixed_example :
  map (fun x => (uid x, st x, en x, item_text x)) (unfragment ex_unfrag) =
  [(2%N, 0, 6, [65%N]); (4%N, 3, 5, [66%N]); (6%N, 7, 7, [66%N]); (5%N, 8, 9, [65%N]); (7%N, 10, 12, [66%N])].
Proof. exact ex_unfrag_result. Qed.
Example C11_mixed_example_hyps : wf ex_unfrag /\ In (ex_cue 5 8 9 65) (unfragment ex_unfrag) /\ In (ex_cue 6 7 7 66) (unfragment ex_unfrag).
Proof. split; [exact ex_unfrag_wf | split; [exact ex_unfrag_isolated_5 | exact ex_unfrag_isolated_6]]. Qed.
(* the hypotheses of C11_inverse discharged on a list with three texts, overlap, nesting and abutting cues of
   different texts; period 4 cuts it into 10 pieces; the instance of the theorem *)
Example C11_inverse_hyps : sorted ex_inv /\ no_touch ex_inv /\ Forall (fun x => st x < en x) ex_inv /\
  length ex_inv = 5%nat /\ length (fragment 4 ex_inv) = 10%nat.
Proof. repeat split; [exact ex_inv_sorted | exact ex_inv_no_touch | exact ex_inv_positive]. Qed.
Example C11_inverse_instance : map proj (unfragment (fragment 4 ex_inv)) = map proj ex_inv.
Proof. exact (C11_inverse 4 ex_inv eq_refl ex_inv_sorted ex_inv_no_touch ex_inv_positive). Qed.

Print Assumptions C11_untouched_in_mixed.
Print Assumptions C11_untouched_unique_text.
Print Assumptions C11_untouched_zero_length.

(* ---- second audit: N13 (the hypothesis st < en of C11_inverse) and N10 (int64) ---- *)
From Astisub Require Import Kit.Int64 Proofs.Ops64Proofs Proofs.InverseAnyProofs.
(* C11_inverse asked every cue to have positive length, which the property text does not.  The hypothesis is not
   needed: a cue of zero or negative length contains no multiple of f strictly inside, is not cut, and absorbs nothing
   (Proofs/InverseAnyProofs.v; the model was first searched exhaustively - lists of up to 3 cues with start, end on 0..3
   in any relation, two texts, f in 1..3, and up to 2 cues on 0..5, f in 1..4 - without a counter-example). *)
Theorem C11_inverse_any : forall f l, 0 < f -> sorted l -> no_touch l ->
  map proj (unfragment (fragment f l)) = map proj l.
Proof. exact unfragment_fragment_any. Qed.
Example C11_inverse_any_example :
  sorted ex_inv_any /\ no_touch ex_inv_any /\ ~ Forall (fun x => st x < en x) ex_inv_any /\
  map (fun x => (st x, en x)) (fragment 4 ex_inv_any) = [(0,4); (3,3); (4,8); (4,4); (8,10); (9,6); (12,12)] /\
  map proj (unfragment (fragment 4 ex_inv_any)) = map proj ex_inv_any.
Proof.
  destruct ex_inv_any_hyps as (A & B & C). destruct ex_inv_any_roundtrip as (D & E).
  split; [exact A | split; [exact B | split; [exact C | split; [exact D | exact E]]]].
Qed.
(* int64: Unfragment (and the Order it starts with) only compares and copies times - there is no arithmetic to wrap, the
   model of Model/Ops.v IS the int64 model.  What there is to say: whatever set of values the input times are taken
   from (Q := the int64 range), the output times are in it. *)
Theorem C11_int64 : forall l, Forall times64 l -> Forall times64 (unfragment l).
Proof. exact (unfragment_closed in_i64). Qed.
Theorem C11_times_closed : forall (Q : Z -> Prop) l,
  Forall (fun x => Q (st x) /\ Q (en x)) l -> Forall (fun x => Q (st x) /\ Q (en x)) (unfragment l).
Proof. exact unfragment_closed. Qed.
Print Assumptions C11_inverse_any.
Print Assumptions C11_int64.
Print Assumptions C11_times_closed.
