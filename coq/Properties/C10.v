(* C10 — Fragment cuts at every multiple of the period and preserves the timeline.
   [fragment f l = order (flat_map (pieces f) l)] is the model of the (repaired) loop. *)
From Coq Require Import List ZArith NArith Permutation.
From Astisub Require Import Kit.Base Model.Ops Proofs.OrderProofs Proofs.FragmentProofs.
Import ListNotations.
Open Scope Z_scope.

(* the result is exactly the per-cue pieces, rearranged ... *)
Theorem C10_perm : forall f l, 0 < f -> Permutation (flat_map (pieces f) l) (fragment f l).
Proof. exact fragment_perm. Qed.
(* ... into start order *)
Theorem C10_sorted : forall f l, 0 < f -> sorted (fragment f l).
Proof. exact fragment_sorted. Qed.
(* no result cue strictly contains a multiple of f *)
Theorem C10_no_interior_multiple : forall f l, 0 < f -> Forall (no_interior_mult f) (fragment f l).
Proof. exact fragment_no_interior. Qed.
(* the pieces of a cue [s,e): consecutive intervals from s to e (timeline unchanged), none strictly
   containing a multiple of f, each carrying the original's text, style and region *)
Theorem C10_pieces : forall f x, 0 < f ->
  tiles (st x) (en x) (pieces f x) /\
  Forall (no_interior_mult f) (pieces f x) /\
  Forall (fun p => i_lines p = i_lines x /\ i_reg p = i_reg x /\ i_sty p = i_sty x /\ i_inl p = i_inl x) (pieces f x).
Proof. exact pieces_spec. Qed.
(* every cut is at a multiple of f *)
Theorem C10_cuts_at_multiples : forall f x, 0 < f -> boundaries_mult f (pieces f x).
Proof. exact pieces_boundaries. Qed.
(* cues containing no multiple of f are left as they were *)
Theorem C10_untouched_cue : forall f x, 0 < f -> no_interior_mult f x -> pieces f x = [x].
Proof. exact pieces_untouched. Qed.
Theorem C10_untouched_list : forall f l, 0 < f -> sorted l -> Forall (no_interior_mult f) l -> fragment f l = l.
Proof. exact fragment_untouched. Qed.
Theorem C10_count : forall f l, 0 < f ->
  length (fragment f l) = fold_right (fun x n => (length (pieces f x) + n)%nat) 0%nat l.
Proof. exact fragment_length. Qed.

(* non-vacuity: overlap + nesting, the cue that starts last is not the one that ends last
   (the input on which the loop before the repair left [4,10) uncut) *)
Example C10_example :
  let mk u s e := mkItem u s e [] None None false in
  map (fun x => (st x, en x)) (fragment 2 [mk 1%N 0 10; mk 2%N 1 3]) =
  [(0,2); (1,2); (2,4); (2,3); (4,6); (6,8); (8,10)].
Proof. reflexivity. Qed.

Print Assumptions C10_perm.
Print Assumptions C10_sorted.
Print Assumptions C10_no_interior_multiple.
Print Assumptions C10_pieces.
Print Assumptions C10_cuts_at_multiples.
Print Assumptions C10_untouched_cue.
Print Assumptions C10_untouched_list.
Print Assumptions C10_count.

(* ---- audit follow-ups (Proofs/OpsFragExtra.v) ---- *)
From Coq Require Import Bool.
From Astisub Require Import Proofs.UnfragProofs Proofs.InverseProofs Proofs.OpsFragExtra.

(* every piece of a cue of positive length has positive length (no empty piece is ever produced) *)
Theorem C10_pieces_positive : forall f x, 0 < f -> st x < en x -> Forall (fun p => st p < en p) (pieces f x).
Proof. exact pieces_positive. Qed.
Theorem C10_fragment_positive : forall f l, 0 < f -> Forall (fun x => st x < en x) l ->
  Forall (fun p => st p < en p) (fragment f l).
Proof. exact fragment_positive. Qed.
(* the cuts of a cue (where one piece ends and the next begins) are exactly the multiples of f STRICTLY inside it *)
Theorem C10_cuts_exact : forall f x, 0 < f -> forall c,
  In c (cuts (pieces f x)) <-> (is_mult f c /\ st x < c < en x).
Proof. exact pieces_cuts_exact. Qed.
Theorem C10_cuts_inside : forall f x, 0 < f -> Forall (fun c => st x < c < en x) (cuts (pieces f x)).
Proof. exact pieces_cuts_inside. Qed.
(* the timeline at list level, with multiplicity: for every instant t and every property q of a cue's content
   (text, voices, styles, region - not times, not identity), the number of cues on screen at t whose content
   satisfies q is the same before and after *)
Theorem C10_timeline_count : forall q t f l, content_only q -> 0 < f ->
  cover_count q t (fragment f l) = cover_count q t l.
Proof. exact fragment_cover_count. Qed.
(* ... in particular the set of texts on screen at every instant (the [covers] of C11) *)
Theorem C10_timeline_covers : forall f l, 0 < f -> forall k t, covers k t l <-> covers k t (fragment f l).
Proof. exact fragment_covers. Qed.
Theorem C10_has_text_is_content : forall k, content_only (has_text k).
Proof. exact has_text_content. Qed.
(* identity: every piece but the last is a copy (fresh identity: 0 in the model), the last piece is the original
   object - same identity, only its start moved to the last cut *)
Theorem C10_pieces_uid : forall f x, map uid (pieces f x) = repeat 0%N (length (pieces f x) - 1) ++ [uid x].
Proof. exact pieces_uid. Qed.
Theorem C10_pieces_last : forall f x,
  exists s, last (pieces f x) x = set_st x s /\ (s = st x \/ In s (cuts (pieces f x))).
Proof. exact pieces_last. Qed.

(* non-vacuity: two texts, overlap and nesting, a cue containing no multiple, a zero-length cue, period 4 *)
Example C10_example_text :
  map (fun x => (uid x, st x, en x, item_text x)) (fragment 4 ex_frag) =
  [(0%N, 0, 4, [65%N]); (2%N, 1, 3, [66%N]); (0%N, 4, 8, [65%N]); (3%N, 4, 5, [65%N]); (4%N, 6, 6, [66%N]);
   (0%N, 6, 8, [65%N]); (1%N, 8, 10, [65%N]); (5%N, 8, 9, [65%N])].
Proof. exact ex_frag_result. Qed.
Example C10_example_cuts : cuts (pieces 4 (ex_cue 1 0 10 65)) = [4; 8] /\ cuts (pieces 4 (ex_cue 2 1 3 66)) = [] /\
  map uid (pieces 4 (ex_cue 1 0 10 65)) = [0; 0; 1]%N.
Proof. exact ex_frag_cuts. Qed.
Example C10_example_cover :
  cover_count (has_text [65%N]) 8 ex_frag = 2%nat /\ cover_count (has_text [65%N]) 8 (fragment 4 ex_frag) = 2%nat.
Proof. exact ex_frag_cover. Qed.

Print Assumptions C10_pieces_positive.
Print Assumptions C10_fragment_positive.
Print Assumptions C10_cuts_exact.
Print Assumptions C10_cuts_inside.
Print Assumptions C10_timeline_count.
Print Assumptions C10_timeline_covers.
Print Assumptions C10_pieces_uid.
Print Assumptions C10_pieces_last.

(* ---- int64 (second audit, N10; Kit/Int64.v, Model/Ops64.v, Proofs/Ops64Proofs.v) ----
   [fragment64 fuel f l] does Fragment's arithmetic as Go does: StartAt - StartAt % f (truncating %), += f with
   wrap-around, in a loop that Go does not bound; None = some cue's loop is still running after [fuel] tests of its
   condition.  Range ([frag_range f x]): the cue's times are int64 values and start + f, end + f do not exceed MaxInt64 -
   the last boundary computed is the first multiple of f at or after the end (or after the start), so this is what keeps
   every += f from wrapping.  Inside the range, and with more fuel than the unbounded model's own bound
   (end - start) / f + 2, the int64 model returns exactly [fragment f l]: every theorem above transfers.
   Termination: a cue with start <= end has at most (end - start) / f + 2 pieces ((end - start) / f + 1 is NOT a bound:
   [2,4) cut with period 3 has two pieces), which is why the fuel of [pieces] suffices.  Outside the range
   Fragment(1<<62) on [0, MaxInt64) never terminates: no fuel gives a result. *)
From Coq Require Import Lia.
From Astisub Require Import Kit.Int64 Model.Ops64 Proofs.Ops64Proofs.
Theorem C10_int64 : forall fuel f l, 0 < f -> Forall (frag_range f) l ->
  Forall (fun x => (pieces_fuel_of f x < fuel)%nat) l -> fragment64 fuel f l = Some (fragment f l).
Proof. exact fragment64_eq. Qed.
Theorem C10_int64_nonpos : forall fuel f l, f <= 0 -> fragment64 fuel f l = Some l.
Proof. exact fragment64_nonpos. Qed.
Theorem C10_int64_cue : forall fuel f x, 0 < f -> frag_range f x -> (pieces_fuel_of f x < fuel)%nat ->
  pieces64 fuel f x = Some (pieces f x).
Proof. exact pieces64_eq. Qed.
Theorem C10_piece_count : forall f x, 0 < f -> st x <= en x ->
  Z.of_nat (length (pieces f x)) <= (en x - st x) / f + 2 /\ (length (pieces f x) <= S (pieces_fuel_of f x))%nat.
Proof. exact pieces_count. Qed.
Example C10_piece_count_tight :
  length (pieces 3 (mkItem 1 2 4 [] None None false)) = 2%nat /\ (4 - 2) / 3 + 1 = 1 /\ (4 - 2) / 3 + 2 = 2.
Proof. exact pieces_count_tight. Qed.
(* outside the range: non-termination, for every fuel ... *)
Theorem C10_int64_diverges : forall fuel, fragment64 fuel 4611686018427387904 [ex_frag_wrap] = None.
Proof. exact fragment64_diverges. Qed.
Example C10_int64_diverges_unbounded :
  map (fun x => (st x, en x)) (fragment 4611686018427387904 [ex_frag_wrap]) = [(0, 4611686018427387904); (4611686018427387904, i64_max)] /\
  ~ frag_range 4611686018427387904 ex_frag_wrap.
Proof. exact fragment64_diverges_unbounded. Qed.
(* ... or a loop that stops with another result *)
Example C10_int64_wraps :
  option_map (map (fun x => (st x, en x))) (fragment64 8 4611686018427387904 [mkItem 1 (i64_max - 1) 0 [] None None false]) =
    Some [(i64_min, - 4611686018427387904); (- 4611686018427387904, 0); (i64_max - 1, i64_min)] /\
  map (fun x => (st x, en x)) (fragment 4611686018427387904 [mkItem 1 (i64_max - 1) 0 [] None None false]) = [(i64_max - 1, 0)].
Proof. exact fragment64_wraps. Qed.
Print Assumptions C10_int64.
Print Assumptions C10_int64_nonpos.
Print Assumptions C10_int64_cue.
Print Assumptions C10_piece_count.
Print Assumptions C10_int64_diverges.

(* ---- idempotence (session 5; Proofs/FragmentIdem.v): a second Fragment with the same period cuts nothing and moves
   nothing (C10_sorted + C10_no_interior_multiple + C10_untouched_list) ---- *)
From Astisub Require Import Proofs.FragmentIdem.
Theorem C10_idempotent : forall f l, 0 < f -> fragment f (fragment f l) = fragment f l.
Proof. exact fragment_idem. Qed.
Print Assumptions C10_idempotent.
