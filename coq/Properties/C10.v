(* C10 — Fragment cuts at every multiple of the period and preserves the timeline.
   [fragment f l = order (flat_map (pieces f) l)] is the model of the (repaired) loop. *)
From Coq Require Import List ZArith NArith Permutation.
From Astisub Require Import Kit.Base Model.Ops Proofs.OrderProofs Proofs.FragmentProofs.
Import ListNotations.
Open Scope Z_scope.

(* the result is exactly the per-cue pieces, rearranged ... *)
Theorem C10_perm : forall f l, 0 < f -> Permutation (flat_map (pieces f) l) (fragment f l).
Proof. exact fragment_perm. Qed.
(* ... into start order *)
Theorem C10_sorted : forall f l, 0 < f -> sorted (fragment f l).
Proof. exact fragment_sorted. Qed.
(* no result cue strictly contains a multiple of f *)
Theorem C10_no_interior_multiple : forall f l, 0 < f -> Forall (no_interior_mult f) (fragment f l).
Proof. exact fragment_no_interior. Qed.
(* the pieces of a cue [s,e): consecutive intervals from s to e (timeline unchanged), none strictly
   containing a multiple of f, each carrying the original's text, style and region *)
Theorem C10_pieces : forall f x, 0 < f ->
  tiles (st x) (en x) (pieces f x) /\
  Forall (no_interior_mult f) (pieces f x) /\
  Forall (fun p => i_lines p = i_lines x /\ i_reg p = i_reg x /\ i_sty p = i_sty x /\ i_inl p = i_inl x) (pieces f x).
Proof. exact pieces_spec. Qed.
(* every cut is at a multiple of f *)
Theorem C10_cuts_at_multiples : forall f x, 0 < f -> boundaries_mult f (pieces f x).
Proof. exact pieces_boundaries. Qed.
(* cues containing no multiple of f are left as they were *)
Theorem C10_untouched_cue : forall f x, 0 < f -> no_interior_mult f x -> pieces f x = [x].
Proof. exact pieces_untouched. Qed.
Theorem C10_untouched_list : forall f l, 0 < f -> sorted l -> Forall (no_interior_mult f) l -> fragment f l = l.
Proof. exact fragment_untouched. Qed.
Theorem C10_count : forall f l, 0 < f ->
  length (fragment f l) = fold_right (fun x n => (length (pieces f x) + n)%nat) 0%nat l.
Proof. exact fragment_length. Qed.

(* non-vacuity: overlap + nesting, the cue that starts last is not the one that ends last
   (the input on which the loop before the repair left [4,10) uncut) *)
Example C10_example :
  let mk u s e := mkItem u s e [] None None false in
  map (fun x => (st x, en x)) (fragment 2 [mk 1%N 0 10; mk 2%N 1 3]) =
  [(0,2); (1,2); (2,4); (2,3); (4,6); (6,8); (8,10)].
Proof. reflexivity. Qed.

Print Assumptions C10_perm.
Print Assumptions C10_sorted.
Print Assumptions C10_no_interior_multiple.
Print Assumptions C10_pieces.
Print Assumptions C10_cuts_at_multiples.
Print Assumptions C10_untouched_cue.
Print Assumptions C10_untouched_list.
Print Assumptions C10_count.
