(* C05 — EBU STL codec fidelity (stl.go; the row parser of teletext.go as the STL reader uses it).

   Models: Model/Stl.v (read_stl, write_stl and their parts), over the tables of Gen/StlTables.v, which
   tools/gentables regenerates from the code on every run (character table, unicode mappings, NFC/NFD
   tables of the vendored normaliser on the repertoire, frame-rate and language maps, probed GSI/TTI
   layouts).  The theorems below are therefore re-proved against the current tables each run.

   What is proved here (all inputs, no size bounds):
   * character codec: decode (encode s) = s for every string over the repertoire (every spacing character of
     the Latin table and every spacing character carrying one floating diacritic, i.e. all diacritic x letter
     pairs), '$' excluded explicitly and refuted beside it (it is written as 0x24 = currency sign);
   * timecodes: every h:m:s:f (h < 256, m, s < 60, f < fps) at 25 and 30 frames per second is read to within
     1 ns of its exact instant and written back as the same timecode, also through the programme start
     subtraction/addition;
   * layout: a written file is one 1024-byte GSI block plus one 128-byte TTI block per cue; block lengths;
   * field offsets of GSI and TTI as probed from the code are those of EBU Tech 3264, on both sides;
   * reader and writer totality (no Panic);
   * the reader's character handler on well-formed text fields: table strings, and NFC (as tabulated from the vendored
     normaliser) of character + floating diacritic; unknown bytes and padding decode to nothing;
   * GSI block: parse (bytes g) = g for every representable block (fields fit their widths and have no white space
     at their ends, numbers within their digit counts, valid dates, 25/30 fps, programme start / first in-cue frame
     instants below 100 h) - decidable predicate gsi_reprb;
   * TTI block: every field survives bytes/parse (in/out frame instants incl. the programme start, vertical position
     within 1..23 under the teletext standards); user-data blocks (EBN 0xFE) are stepped over;
   * rows: what the writer emits for the lines of a cue (runs of repertoire text with italic/underline/boxing flags,
     joined by spaces, lines joined by 0x8A, padded with 0x8F) is read back as the same lines, runs, texts and
     effective flags - by the open-subtitling row parser and by the teletext row parser (rows without start box);
   * documents: for every representable document, WriteToSTL succeeds and ReadFromSTL of its output returns the
     metadata of the GSI block and, cue by cue, the same times, justification, vertical position, lines, runs and
     flags - display standard "0" (C05_write_read_open) and every other display standard code, in particular the
     writer's default "1" and "2" (C05_write_read_teletext).
   Side conditions (representability), each needed because the format cannot carry more: text over the repertoire
   without '$' (C05_chars_dollar_refuted), no white space at the ends of a run (the reader trims), no two adjacent
   unstyled runs in a line (the writer joins runs with a space: they would read back as one run), at least one line
   and one run, encoded text of at most 112 bytes, in/out times on the frame grid after adding the programme start
   (a time inside a frame is truncated to the frame: C16), fewer than 65536 cues (16-bit subtitle number).
   * reader structure, for every file made of a GSI block and 128-byte blocks (any content): one cue per block that
     is not a user-data block, in order, its times the block's timecodes converted at the file's frame rate minus the
     programme start (zero when told to ignore it), vertical position, justification, rows through the row parser of
     the display standard (C05_read_spec, C05_read_count, C05_read_item_fields); shorter files are errors.
   The reading half for ALL renderings of a ground-truth file (style codes in any order, redundant, repeated, unclosed;
   undefined bytes; both currency positions; GSI fields in every form the parser accepts; user-data blocks anywhere;
   open-subtitling and teletext rows) is C05_read_rendered, at the end of this file with its own comment block. *)
From Coq Require Import List ZArith NArith Bool.
From Astisub Require Import Kit.Base Kit.Str Kit.Utf8 Kit.Scan Model.Dur Model.Stl Gen.StlTables Proofs.StlCodec Proofs.StlBlocks
  Proofs.StlTti Proofs.StlGsi Proofs.StlRows Proofs.StlRowsTtx Proofs.StlDoc Proofs.StlWriteRead Proofs.StlReadSpec.
From Astisub Require Import Model.TtxRow Model.TtxRowStl Proofs.StlTtxAgree.
Import ListNotations.

(* ---- character codec ---- *)
Theorem C05_chars : forall cs, Forall (fun c => In c stl_repertoire) cs ->
  decode_bytes None (encode_text_stl (concat cs)) = (concat cs, None).
Proof. exact codec_roundtrip. Qed.
Print Assumptions C05_chars.
Theorem C05_chars_sweep : forallb char_ok stl_repertoire = true.
Proof. exact repertoire_ok. Qed.
Print Assumptions C05_chars_sweep.
Theorem C05_chars_dollar_refuted :
  exists c, In (164%N, c) stl_table /\ decode_bytes None (encode_text_stl c) <> (c, None).
Proof. exact codec_dollar_refuted. Qed.
Print Assumptions C05_chars_dollar_refuted.
Theorem C05_encode_by_character : forall cs, Forall (fun c => In c stl_repertoire) cs ->
  encode_text_stl (concat cs) = concat (map encode_text_stl cs).
Proof. exact encode_concat. Qed.
Print Assumptions C05_encode_by_character.

(* ---- timecodes ---- *)
Theorem C05_timecode_exact : forall h m s f fps, (fps = 25 \/ fps = 30)%Z -> tc_ok h m s f fps ->
  (tc_exact_fps h m s f fps <= parse_stl_bytes (tc_bytes h m s f) fps * fps < tc_exact_fps h m s f fps + fps)%Z.
Proof. exact tti_timecode_exact. Qed.
Print Assumptions C05_timecode_exact.
Theorem C05_timecode_roundtrip : forall h m s f fps, (fps = 25 \/ fps = 30)%Z -> tc_ok h m s f fps ->
  format_stl_bytes (parse_stl_bytes (tc_bytes h m s f) fps) fps = tc_bytes h m s f.
Proof. exact tti_timecode_roundtrip. Qed.
Print Assumptions C05_timecode_roundtrip.
Theorem C05_rewrite_timecodes : forall h m s f fps tcp, (fps = 25 \/ fps = 30)%Z -> tc_ok h m s f fps ->
  let cue_time := (parse_stl_bytes (tc_bytes h m s f) fps - tcp)%Z in
  format_stl_bytes (cue_time + tcp) fps = tc_bytes h m s f.
Proof. exact rewrite_keeps_timecode. Qed.
Print Assumptions C05_rewrite_timecodes.

(* ---- layout ---- *)
Theorem C05_write_layout : forall now md items out, write_stl now md items = Ok out ->
  length out = (1024 + 128 * length items)%nat.
Proof. exact write_layout. Qed.
Print Assumptions C05_write_layout.
Theorem C05_write_ok_iff : forall now md items, (exists out, write_stl now md items = Ok out) <-> items <> [].
Proof. exact write_ok_iff. Qed.
Print Assumptions C05_write_ok_iff.
Theorem C05_block_lengths : (forall g, length (gsi_bytes g) = 1024%nat) /\ (forall fps dsc tcp t, length (tti_bytes fps dsc tcp t) = 128%nat).
Proof. split; [exact gsi_bytes_length | exact tti_bytes_length]. Qed.
Print Assumptions C05_block_lengths.

(* ---- tables and layouts probed from the code ---- *)
Theorem C05_layouts_are_ebu :
  stl_gsi_write_layout = ebu_gsi_layout /\
  stl_gsi_parse_layout = ((0, 3, 8) :: filter (fun e => negb (fst (fst e) =? 9)%N) ebu_gsi_layout ++ [(30, 448, 576)])%N /\
  stl_tti_parse_layout = ebu_tti_layout /\ stl_tti_write_layout = ebu_tti_layout.
Proof. split; [exact gsi_write_layout_is_ebu | split; [exact gsi_parse_layout_is_ebu | exact tti_layouts_are_ebu]]. Qed.
Print Assumptions C05_layouts_are_ebu.
Theorem C05_tables : stl_tables_existing = [stl_c_cctLatin] /\
  forallb (fun e => negb (match snd e with [] => true | _ => false end)) stl_table = true.
Proof. split; [exact tables_only_latin | exact table_strings_nonempty]. Qed.
Print Assumptions C05_tables.

(* ---- totality ---- *)
Theorem C05_read_total : forall ign data site, read_stl ign data <> Panic site.
Proof. exact read_total. Qed.
Print Assumptions C05_read_total.
Theorem C05_write_total : forall now md items site, write_stl now md items <> Panic site.
Proof. exact write_total. Qed.
Print Assumptions C05_write_total.

(* ---- the reader's character handler ---- *)
Theorem C05_decode_units : forall us, forallb cunit_ok us = true ->
  decode_bytes None (flat_map cunit_bytes us) = (concat (map cunit_text us), None).
Proof. exact decode_units. Qed.
Print Assumptions C05_decode_units.

(* ---- GSI and TTI blocks ---- *)
Theorem C05_gsi : forall g, gsi_repr g -> parse_gsi (gsi_bytes g) = Ok g.
Proof. exact gsi_roundtrip. Qed.
Print Assumptions C05_gsi.
Theorem C05_gsi_decidable : forall g, gsi_reprb g = true <-> gsi_repr g.
Proof. exact gsi_reprb_iff. Qed.
Print Assumptions C05_gsi_decidable.
Theorem C05_tti : forall fps dsc tcp t, (fps = 25 \/ fps = 30)%Z -> tti_repr fps dsc tcp t ->
  parse_tti (tti_bytes fps dsc tcp t) fps =
  mkTti (t_cf t) (t_cs t) (t_ebn t) (t_jc t) (t_sgn t) (t_sn t) (pad_right_cut 143 112 (encode_text_stl (t_text t)))
        (t_in t + tcp)%Z (t_out t + tcp)%Z (t_vp t).
Proof. exact tti_roundtrip. Qed.
Print Assumptions C05_tti.
Theorem C05_user_data_skipped : forall p rest fuel g tcp acc items,
  length p = 128%nat -> nth 3 p 0%N = 254%N ->
  tti_loop (S fuel) (p ++ rest) g tcp acc items = tti_loop fuel rest g tcp acc items.
Proof. exact user_data_skipped. Qed.
Print Assumptions C05_user_data_skipped.

(* ---- rows ---- *)
Theorem C05_rows_open : forall i : witem,
  wi_lines i <> [] -> Forall line_repr (wi_lines i) -> (length (encode_text_stl (stl_item_text i)) <= 112)%nat ->
  exists lines,
    rows_open (split_byte 138 (pad_right_cut 143 112 (encode_text_stl (stl_item_text i)))) None [] = Ok (lines, None)
    /\ map (map eff) lines = map (map wflags) (wi_lines i)
    /\ (forall l x, In l lines -> In x l -> ru_sb x = None /\ ru_sa x = None).
Proof. exact open_rows_flags. Qed.
Print Assumptions C05_rows_open.
Theorem C05_rows_teletext : forall i : witem,
  wi_lines i <> [] -> Forall line_repr (wi_lines i) -> (length (encode_text_stl (stl_item_text i)) <= 112)%nat ->
  rows_ttx (split_byte 138 (pad_right_cut 143 112 (encode_text_stl (stl_item_text i)))) None []
  = (map expected_ttx_line (wi_lines i), None).
Proof. exact ttx_rows_roundtrip. Qed.
Print Assumptions C05_rows_teletext.
Theorem C05_rows_teletext_flags : forall l, map eff (expected_ttx_line l) = map wflags l.
Proof. exact eff_ttx_line. Qed.
Print Assumptions C05_rows_teletext_flags.

(* ---- documents ---- *)
Theorem C05_write_read_open : forall now md items, doc_repr_open now md items ->
  exists out, write_stl now md items = Ok out /\
              read_stl false out = Ok (read_back (new_gsi now md items) expected_line items).
Proof. exact write_read_open. Qed.
Print Assumptions C05_write_read_open.
Theorem C05_write_read_teletext : forall now md items, doc_repr_ttx now md items ->
  exists out, write_stl now md items = Ok out /\
              read_stl false out = Ok (read_back (new_gsi now md items) expected_ttx_line items).
Proof. exact write_read_ttx. Qed.
Print Assumptions C05_write_read_teletext.
(* what read_back contains: times, lines, position and justification of every cue; the metadata *)
Theorem C05_read_back_items : forall g line items,
  map (fun x => (ri_st x, ri_en x)) (rd_items (read_back g line items)) = map (fun i => (wi_st i, wi_en i)) items /\
  map ri_lines (rd_items (read_back g line items)) = map (fun i => map line (wi_lines i)) items /\
  map ri_vp (rd_items (read_back g line items)) = map (fun i => match wi_vp i with Some v => v | None => 20%Z end) items /\
  map ri_just (rd_items (read_back g line items)) = map (fun i => parse_jc (jc_of (wi_just i))) items.
Proof. exact read_back_items. Qed.
Print Assumptions C05_read_back_items.
Theorem C05_open_line_flags : forall l, map eff (expected_line l) = map wflags l.
Proof. exact eff_line. Qed.
Print Assumptions C05_open_line_flags.
Theorem C05_justification : forall j,
  In j [stl_c_justificationUnchanged; stl_c_justificationLeft; stl_c_justificationCentered; stl_c_justificationRight] ->
  parse_jc (jc_of (Some j)) = j.
Proof. exact justification_roundtrip. Qed.
Print Assumptions C05_justification.
Theorem C05_read_back_metadata : forall now m items line,
  let d := read_back (new_gsi now (Some m) items) line items in
  rd_title d = wm_title m /\ rd_oet d = wm_oet m /\ rd_tpt d = wm_tpt m /\ rd_tet d = wm_tet m /\ rd_tn d = wm_tn m /\
  rd_tcd d = wm_tcd m /\ rd_slr d = wm_slr m /\ rd_pub d = wm_pub m /\ rd_en d = wm_en m /\ rd_ecd d = wm_ecd m /\
  rd_rn d = wm_rn m /\ rd_tcp d = wm_tcp m /\
  rd_cd d = match wm_cd m with Some c => c | None => now end /\ rd_rd d = match wm_rd m with Some c => c | None => now end /\
  rd_mnc d = match wm_mnc m with Some v => v | None => 40%Z end /\ rd_mnr d = match wm_mnr m with Some v => v | None => 23%Z end /\
  rd_co d = match wm_co m with [] => stl_s_countryFrance | c => c end /\
  rd_dsc d = match wm_dsc m with [] => stl_s_dscLevel1 | c => c end /\
  rd_fps d = (if (wm_fps m =? 25)%Z || (wm_fps m =? 30)%Z then wm_fps m else 25%Z).
Proof. exact read_back_metadata. Qed.
Print Assumptions C05_read_back_metadata.
(* a non-trivial document satisfies the representability predicate *)
Theorem C05_example_document : doc_repr_open ex_now (Some ex_md) ex_items.
Proof. exact ex_doc_repr. Qed.
Print Assumptions C05_example_document.

(* ---- the reader on any file: block framing, user-data blocks, times, the ignore option ----
   C05_read_spec is a STRUCTURAL lemma, not a fidelity statement: it restates the reader without fuel and block reading
   (blocks_spec is the reader's own loop body over a list of 128-byte blocks), which is what the proofs about concrete
   files rest on.  The fidelity statement - the reader returns what a file MEANS, for every rendering of a ground-truth
   model - is C05_read_rendered (end of this file), whose denotation denote_stl is defined independently of the parser
   functions' control flow and which is proved through this lemma. *)
Theorem C05_read_spec : forall (ign : bool) (gb : str) (blocks : list str) (g : gsi),
  length gb = 1024%nat -> Forall (fun p => length p = 128%nat) blocks ->
  parse_gsi gb = Ok g -> nmem (g_cct g) stl_tables_existing = true ->
  let tcp := if ign then 0%Z else g_tcp g in
  read_stl ign (gb ++ concat blocks) =
  match blocks_spec g tcp None blocks with Ok items => Ok (rdoc_with g tcp items) | Err k => Err k | Panic s => Panic s end.
Proof. exact read_spec. Qed.
Print Assumptions C05_read_spec.
Theorem C05_read_count : forall g tcp (blocks : list str) acc items, blocks_spec g tcp acc blocks = Ok items ->
  length items = length (filter (fun p => negb (is_user_data p)) blocks).
Proof. exact blocks_spec_count. Qed.
Print Assumptions C05_read_count.
Theorem C05_read_item_fields : forall g tcp p nrows lines,
  let x := item_of g tcp (parse_tti p (g_fps g)) nrows lines in
  ri_st x = (parse_stl_bytes (stl_sl 5 4 p) (g_fps g) - tcp)%Z /\ ri_en x = (parse_stl_bytes (stl_sl 9 4 p) (g_fps g) - tcp)%Z /\
  ri_vp x = Z.of_N (nth 13 p 0%N) /\ ri_just x = parse_jc (nth 14 p 0%N) /\ ri_maxrows x = g_mnr g /\ ri_lines x = lines.
Proof. exact item_of_fields. Qed.
Print Assumptions C05_read_item_fields.
Theorem C05_read_short : forall ign data, (length data < 1024)%nat -> exists k, read_stl ign data = Err k.
Proof. exact read_short_gsi. Qed.
Print Assumptions C05_read_short.

(* ---- one row model for the teletext display standards: the shared parser of Model/TtxRow.v with the STL styler
   (Model/TtxRowStl.v, used by the teletext slice's stl_parse_row_encoded) and the STL character handler as its decoder
   computes what stl_ttx_row computes, for every row and every pending accent ---- *)
Theorem C05_teletext_row_is_shared_model : forall row acc,
  stl_parse_row stl_handler acc row =
  Ok (let '(l, acc') := stl_ttx_row row [] [] sattr0_stl false acc in (map trun_of l, acc')).
Proof. exact stl_ttx_row_is_parse_row. Qed.
Print Assumptions C05_teletext_row_is_shared_model.

(* ================= THE READING HALF FOR ALL RENDERINGS (Proofs/StlRead*.v) =================
   A rendering of an EBU STL file over a ground-truth model, as in the property's quantifier:
   * GSI block: the value g of every field with the form of its rendering (gsi_forms: each number zero-padded, blank-padded
     on the left or on the right, or left blank when zero; text fields with leading blanks and trailing padding; programme
     start / first in-cue as HHMMSSFF or blank when zero; dates as six digits or blank; the 75 spare bytes arbitrary;
     user-defined area; frame rate 25/30; any display standard code);
   * blocks in any order: user-data blocks (EBN 0xFE, any 128 bytes) anywhere; subtitle blocks with arbitrary subtitle group,
     subtitle number, cumulative status and comment flag bytes, any extension block number but 0xFE, ANY four bytes as in
     and out timecode, any vertical position and justification byte, and a 112-byte text field:
     - display standard 0: rows separated by 0x8A, each row ANY sequence of style codes 0x80..0x85 (redundant codes, closing
       codes omitted or repeated, codes at the start or the end of the row), characters (a spacing character of the Latin
       table - both positions of the currency sign -, or a floating diacritic followed by a spacing character), and bytes
       the table leaves undefined (0x8F padding anywhere, the unused codes), trailing blanks included;
     - any other display standard (1, 2): rows separated by 0x8A, each a structured teletext row (Model/TtxRowStl.v: anything
       but a start box in front, start box, alternating groups of colour / size / italic / underline / boxing codes and of
       other cells, optionally end box and what follows), decoded with the STL character handler.
   render_stl gives the bytes, denote_stl the meaning: the metadata of g; one cue per subtitle block in order; times = the
   timecodes converted at the file's frame rate (frames rounded up to the nanosecond: within 1 ns, C05_timecode_exact) minus
   the programme start, or minus zero when told to ignore it; justification, vertical position, number of rows; per row
   that has text one line of runs: a style code ends the run in front of it (kept, trimmed, when not blank) and sets its
   attribute; undefined bytes mean nothing.  C05_read_rendered: the reader returns denote_stl for every rendering that
   passes the decidable check rendering_okb, for both values of the option.
   Side conditions in rendering_okb beyond well-formed bytes, each outside the quantifier and shown necessary on a computed
   instance replayed on the library by the harness suite stl.needs: a floating diacritic is followed by its character in
   the same row (C05_read_rendered_needs_pair: otherwise the reader holds it and it lands on the next row's first character);
   no byte below 0x20 in an open-subtitling row (C05_read_rendered_needs_no_control: the reader rejects the file); the
   character code table is the Latin one (C05_read_rendered_needs_latin: the only table the library has). *)
From Astisub Require Import Proofs.StlReadGsi Proofs.StlReadRows Proofs.StlReadTtx Proofs.StlReadDoc Proofs.StlRead Proofs.StlReadBytes.
Theorem C05_read_rendered : forall ign f g blocks, rendering_okb f g blocks = true ->
  read_stl ign (render_stl f g blocks) = Ok (denote_stl ign g blocks).
Proof. exact read_rendered_stl. Qed.
Print Assumptions C05_read_rendered.
(* the parts: a GSI block in any accepted form; a row; a text field; the blocks after any GSI block that parses *)
Theorem C05_read_rendered_gsi : forall f g, gsi_forms_ok f g ->
  length (render_gsi f g) = 1024%nat /\ parse_gsi (render_gsi f g) = Ok g.
Proof. exact parse_rendered_gsi. Qed.
Print Assumptions C05_read_rendered_gsi.
Theorem C05_read_rendered_row : forall es items text a, forallb relem_ok es = true ->
  open_row (row_bytes es) items text a None = Ok (denote_open es items text a, None).
Proof. exact open_row_rendered. Qed.
Print Assumptions C05_read_rendered_row.
Theorem C05_read_rendered_teletext_row : forall d r, srow_ok r = true ->
  stl_ttx_row (srow_cells r) [] [] sattr0_stl false d = denote_trow d r.
Proof. exact ttx_row_rendered. Qed.
Print Assumptions C05_read_rendered_teletext_row.
Theorem C05_read_rendered_blocks : forall (ign : bool) (gb : str) (g : gsi) (blocks : list rblock),
  length gb = 1024%nat -> parse_gsi gb = Ok g -> g_cct g = stl_c_cctLatin ->
  forallb (block_okb (is_open g) (g_fps g)) blocks = true ->
  read_stl ign (gb ++ concat (map render_block blocks)) = Ok (denote_stl ign g blocks).
Proof. exact read_rendered_blocks. Qed.
Print Assumptions C05_read_rendered_blocks.
Theorem C05_read_rendered_cue_count : forall g tcp blocks,
  length (denote_blocks g tcp blocks) = length (filter (fun b => match b with BCue _ => true | BUser _ => false end) blocks).
Proof. exact denote_blocks_count. Qed.
Print Assumptions C05_read_rendered_cue_count.
(* the writer's GSI block is one of the renderings *)
Theorem C05_read_rendered_covers_writer : forall g, gsi_repr g -> render_gsi writer_forms g = gsi_bytes g /\ gsi_forms_ok writer_forms g.
Proof. intros g H. split; [exact (render_gsi_writer g H) | exact (writer_forms_ok g H)]. Qed.
Print Assumptions C05_read_rendered_covers_writer.
(* worked instances using every freedom at once: open subtitling at 30 fps (numbers in three forms, blank one-character
   number, leading blanks, non-blank spare bytes and user-defined area, two user-data blocks, arbitrary header bytes,
   extension block number 5, italics on before any text and on again, closing code twice, boxing never closed, a code at
   the end of a row, padding in the middle of the text, both currency positions, acute + e, trailing blanks, a row of
   undefined bytes only) and a teletext standard (colour and double height in front of the start box, repeated start box,
   attribute groups, end box, a row without end box); their bytes are spelled out in Proofs/StlReadBytes.v *)
Example C05_read_rendered_example : forall ign,
  rendering_okb x_f x_g x_blocks = true /\ read_stl ign x_bytes = Ok (denote_stl ign x_g x_blocks).
Proof. intros ign. split; [exact x_ok | rewrite <- x_bytes_are_rendering; apply x_read]. Qed.
Example C05_read_rendered_example_teletext : forall ign,
  rendering_okb writer_forms y_g y_blocks = true /\ read_stl ign y_bytes = Ok (denote_stl ign y_g y_blocks).
Proof. intros ign. split; [exact y_ok | rewrite <- y_bytes_are_rendering; apply y_read]. Qed.
(* the side conditions the proof forced, each on a computed instance *)
Example C05_read_rendered_needs_pair :
  rows_open [[97; 194]; [101]]%N None [] = Ok ([[mkErun [97]%N sattr0_stl None None]; [mkErun [195; 169]%N sattr0_stl None None]], None).
Proof. exact needs_pair_in_row. Qed.
Example C05_read_rendered_needs_no_control : rows_open [[97; 11; 98]]%N None [] = Err EParse.
Proof. exact needs_no_control_code_in_open_text. Qed.
Example C05_read_rendered_needs_latin :
  let g := mkGsi 12337 3683632 [] [] 1 [48]%N [] [] 25 [] 40 23 [] [] [] [] 0 [] 0 0 [49]%N 1 1 0 0 [] [] [] [] [] in
  gsi_forms_okb writer_forms g = true /\ read_stl false (render_stl writer_forms g []) = Err EParse.
Proof. exact needs_latin_table. Qed.

(* what the meaning of a rendered file contains: every metadata field is the GSI value; the language is the image of the
   language code under the library's mapping and empty for a code it does not know; the country code passes through *)
Theorem C05_read_rendered_metadata : forall ign g blocks,
  let d := denote_stl ign g blocks in
  rd_fps d = g_fps g /\ rd_dsc d = g_dsc g /\ rd_title d = g_opt g /\ rd_oet d = g_oet g /\ rd_tpt d = g_tpt g /\ rd_tet d = g_tet g /\
  rd_tn d = g_tn g /\ rd_tcd d = g_tcd g /\ rd_slr d = g_slr g /\ rd_cd d = g_cd g /\ rd_rd d = g_rd g /\ rd_rn d = g_rn g /\
  rd_mnc d = g_mnc g /\ rd_mnr d = g_mnr g /\ rd_co d = g_co g /\ rd_pub d = g_pub g /\ rd_en d = g_en g /\ rd_ecd d = g_ecd g /\
  rd_tcp d = (if ign then 0%Z else g_tcp g) /\
  rd_lang d = match slookup (g_lc g) stl_language with Some l => l | None => [] end.
Proof. exact denote_stl_metadata. Qed.
Print Assumptions C05_read_rendered_metadata.
(* a number field in each accepted form; a text field with leading blanks *)
Theorem C05_read_rendered_number : forall f k v, (0 < k <= 18)%nat -> numform_ok f k v -> num_field (render_num f k v) = Ok v.
Proof. exact render_num_field. Qed.
Print Assumptions C05_read_rendered_number.
Theorem C05_read_rendered_text_field : forall lead w s, trim_space s = s -> trim_space (render_text lead w s) = s.
Proof. exact render_text_trim. Qed.
Print Assumptions C05_read_rendered_text_field.

(* ---- the model's byte offsets are the offsets probed from the code on this run (audit item: C05_layouts_are_ebu above
   compares generated constants with literals; these theorems tie the MODEL's functions to the generated tables: the
   parsers written over a layout table equal the model's parsers when the table is the generated one, and the writers'
   field sequences have the generated offsets and widths; all by computation, so a layout change in the code breaks them) *)
From Astisub Require Import Proofs.StlLayout.
Theorem C05_parse_gsi_uses_generated_layout : forall b, parse_gsi b = parse_gsi_at stl_gsi_parse_layout b.
Proof. exact parse_gsi_uses_generated_layout. Qed.
Theorem C05_parse_tti_uses_generated_layout : forall p fps, parse_tti p fps = parse_tti_at stl_tti_parse_layout p fps.
Proof. exact parse_tti_uses_generated_layout. Qed.
Theorem C05_gsi_bytes_uses_generated_layout :
  sort_by_id (offsets gsi_field_ids gsi_widths 0) = stl_gsi_write_layout /\
  (forall g, gsi_bytes g = concat (gsi_fields g) /\ map (@length N) (gsi_fields g) = gsi_widths).
Proof. exact gsi_bytes_uses_generated_layout. Qed.
Theorem C05_tti_bytes_uses_generated_layout :
  sort_by_id (offsets tti_field_ids tti_widths 0) = stl_tti_write_layout /\
  (forall fps dsc tcp t, tti_bytes fps dsc tcp t = concat (tti_fields fps dsc tcp t) /\ map (@length N) (tti_fields fps dsc tcp t) = tti_widths).
Proof. exact tti_bytes_uses_generated_layout. Qed.
Print Assumptions C05_parse_gsi_uses_generated_layout.
Print Assumptions C05_parse_tti_uses_generated_layout.
Print Assumptions C05_gsi_bytes_uses_generated_layout.
Print Assumptions C05_tti_bytes_uses_generated_layout.

(* ---- the ignore option after a write, re-writing at document level, styled instances under display standards 1 and 2
   (audit items).  C05_read_ignore: for EVERY file made of a GSI block and whole blocks, reading with the option is reading
   without it with the programme start set to zero and added back to every time.  C05_write_read_*_ignore: the write->read
   theorems for the option's other value.  C05_rewrite_keeps_timecodes_*: write d, read the file (either option value),
   write what was read (any clock): every TTI block carries the in and out timecode bytes of the first file; holds for
   every representable document (display standard 0 resp. any other) - no further condition: the timecode bytes do not
   depend on the text.  (wmeta_of / witem_of: the writer's view of what the reader returned.) *)
From Astisub Require Import Kit.IOW Model.StlIO Proofs.StlRewrite.
Theorem C05_read_ignore : forall (gb : str) (blocks : list str) (g : gsi) d,
  length gb = 1024%nat -> Forall (fun p => length p = 128%nat) blocks ->
  parse_gsi gb = Ok g -> nmem (g_cct g) stl_tables_existing = true ->
  read_stl false (gb ++ concat blocks) = Ok d -> read_stl true (gb ++ concat blocks) = Ok (unshift_doc d).
Proof. exact read_ignore_is_unshift. Qed.
Theorem C05_write_read_open_ignore : forall now md items, doc_repr_open now md items ->
  exists out, write_stl now md items = Ok out /\
              read_stl true out = Ok (unshift_doc (read_back (new_gsi now md items) expected_line items)).
Proof. exact write_read_open_ignore. Qed.
Theorem C05_write_read_teletext_ignore : forall now md items, doc_repr_ttx now md items ->
  exists out, write_stl now md items = Ok out /\
              read_stl true out = Ok (unshift_doc (read_back (new_gsi now md items) expected_ttx_line items)).
Proof. exact write_read_ttx_ignore. Qed.
Theorem C05_rewrite_keeps_timecodes_open : forall ign now now' md items, doc_repr_open now md items ->
  exists d ws ws', read_stl ign (written now md items) = Ok d /\
    stl_writes now md items = Ok ws /\ stl_writes now' (Some (wmeta_of d)) (map witem_of (rd_items d)) = Ok ws' /\
    length ws' = length ws /\ timecode_bytes ws' = timecode_bytes ws.
Proof. exact rewrite_keeps_timecodes_open. Qed.
Theorem C05_rewrite_keeps_timecodes_teletext : forall ign now now' md items, doc_repr_ttx now md items ->
  exists d ws ws', read_stl ign (written now md items) = Ok d /\
    stl_writes now md items = Ok ws /\ stl_writes now' (Some (wmeta_of d)) (map witem_of (rd_items d)) = Ok ws' /\
    length ws' = length ws /\ timecode_bytes ws' = timecode_bytes ws.
Proof. exact rewrite_keeps_timecodes_ttx. Qed.
(* styled runs (italics + underline, boxing, italics; an accented letter, the currency sign) under display standards 1 and
   2 at 30 frames per second with programme start 10:00:00:00: representable, and both option values read them back *)
Example C05_example_document_teletext : forall dsc, dsc = stl_s_dscLevel1 \/ dsc = stl_s_dscLevel2 ->
  doc_repr_ttx ex_now (Some (ex_md_dsc dsc)) ex_items /\
  exists out, write_stl ex_now (Some (ex_md_dsc dsc)) ex_items = Ok out /\
    (exists d, read_stl false out = Ok d /\ rd_dsc d = dsc /\
       map (fun x => (ri_st x, ri_en x, map (map eff) (ri_lines x))) (rd_items d) =
       map (fun i => (wi_st i, wi_en i, map (map wflags) (wi_lines i))) ex_items) /\
    (exists d, read_stl true out = Ok d /\ rd_tcp d = 0%Z /\
       map (fun x => (ri_st x, ri_en x)) (rd_items d) = map (fun i => (wi_st i + 10 * hour_ns, wi_en i + 10 * hour_ns)%Z) ex_items).
Proof. intros dsc Hd. split; [exact (ex_doc_repr_ttx dsc Hd) | exact (ex_doc_ttx_roundtrip dsc Hd)]. Qed.
Print Assumptions C05_read_ignore.
Print Assumptions C05_write_read_open_ignore.
Print Assumptions C05_write_read_teletext_ignore.
Print Assumptions C05_rewrite_keeps_timecodes_open.
Print Assumptions C05_rewrite_keeps_timecodes_teletext.
Print Assumptions C05_example_document_teletext.

(* ---- OUTSIDE the proviso "text lies in the Latin repertoire and fits" (audit N9b): observations, computed on the model and
   compared with the library byte for byte on the same pinned cases (harness/stl_outside.go: stl.encode_text.outside,
   stl.write.outside, stl.read.outside).  Not fidelity statements: they record what WriteToSTL does with input the property
   excludes, all of it WITHOUT an error:
   - a code point outside the repertoire is written as its low byte (U+0416 -> 0x16, U+1F600 -> 0x00, U+20AC -> 0xAC which reads
     back as the left arrow, U+4E2D -> 0x2D which reads back as "-");
   - a cue whose encoded text is longer than 112 bytes is cut at 112 bytes;
   - the file written for U+0416 under display standard "0" is rejected by the library's own reader (a byte below 0x20 in an
     open-subtitling text field: C05_read_rendered_needs_no_control); under the default standard it is read and the character
     is gone.
   C07 does not enforce "representable" either: a conversion into STL of text outside the repertoire goes through this. *)
From Astisub Require Import Proofs.StlOutside.
Example C05_outside_low_byte :
  encode_text_stl out_zhe = [22]%N /\ encode_text_stl out_grin = [0]%N /\ encode_text_stl out_euro = [172]%N /\
  encode_text_stl out_zhong = [45]%N /\ encode_text_stl ([97]%N ++ out_zhe ++ [98]%N) = [97; 22; 98]%N /\
  text_faithful out_zhe = false /\ text_faithful out_grin = false.
Proof. exact outside_low_byte. Qed.
Example C05_outside_long_line_cut :
  match write_stl out_now None [out_item (repeat 120%N 130)] with
  | Ok f => length f = 1152%nat /\ skipn (1024 + 16) f = repeat 120%N 112 /\
            match read_stl false f with
            | Ok d => map (fun it => map (map ru_text) (ri_lines it)) (rd_items d) = [[[repeat 120%N 112]]]
            | _ => False
            end
  | _ => False
  end.
Proof. exact outside_long_line_cut. Qed.
Example C05_outside_unreadable_open :
  match write_stl out_now (out_md [48]%N) [out_item ([97]%N ++ out_zhe ++ [98]%N)] with
  | Ok f => nth (1024 + 17) f 0%N = 22%N /\ read_stl false f = Err EParse
  | _ => False
  end.
Proof. exact outside_unreadable_open. Qed.
Example C05_outside_lost_teletext :
  match write_stl out_now None [out_item ([97]%N ++ out_zhe ++ [98]%N)] with
  | Ok f => nth (1024 + 17) f 0%N = 22%N /\
            match read_stl false f with
            | Ok d => map (fun it => map (map ru_text) (ri_lines it)) (rd_items d) = [[[[97; 98]%N]]]
            | _ => False
            end
  | _ => False
  end.
Proof. exact outside_lost_teletext. Qed.
Print Assumptions C05_outside_low_byte.
Print Assumptions C05_outside_long_line_cut.
Print Assumptions C05_outside_unreadable_open.
Print Assumptions C05_outside_lost_teletext.

(* ---- THE WRITER'S OWN FILES ARE RENDERINGS (second audit, items (i)7 / (i)8; Proofs/StlWriteRendering.v) ----
   Until now a teletext row of a rendering always had a start box, which WriteToSTL never writes, and only the writer's GSI
   block was shown to be a rendering (C05_read_rendered_covers_writer): C05_read_rendered did not cover the library's own
   output.  Two changes:
   (1) the rendering relation: a teletext row is now a [brow] = a structured row with its start box WRITTEN or OMITTED
       (Proofs/StlReadTtx.v); omitted only when nothing stands in front of it and no other cell is a start box (the reader
       puts a start box in front of a row that has none: stl.go 290) - both conditions are in the decidable check and
       shown necessary (z_needs_no_pre); the meaning of the row is the same [denote_trow].  C05_read_rendered keeps its
       statement over the wider relation; C05_read_rendered_example_no_start_box is a worked file with box-less rows
       (replayed on the library: stl.needs.worked_instance_teletext_no_start_box; the generator omits the start box in half
       of the rows that allow it: stl.free.start_box_omitted).
   (2) C05_write_is_rendering_open / _teletext: for every representable document the bytes WriteToSTL produces ARE
       [render_stl writer_forms g (wrn_blocks open g items)], g the GSI value the writer builds, [wrn_blocks] built from the
       writer's INPUT alone (one subtitle block per item, numbered from 1, subtitle group 0, extension block number 255,
       the timecode bytes the writer computes, position, justification, and the text field as structured rows: style codes
       around the encoded characters, runs joined by a blank, 0x8F padding; under the teletext standards box-less rows), and
       that rendering passes [rendering_okb].  Hence C05_read_rendered applies to the library's own output, for both values
       of the option (C05_write_read_rendered_open, _teletext), and the meaning it gives is the read-back of C05_write_read_open /
       _teletext (C05_write_denotes_open, _teletext). *)
From Astisub Require Import Proofs.StlWriteRendering.
Theorem C05_write_is_rendering_open : forall now md items, doc_repr_open now md items -> let g := new_gsi now md items in
  write_stl now md items = Ok (render_stl writer_forms g (wrn_blocks true g items)) /\
  rendering_okb writer_forms g (wrn_blocks true g items) = true.
Proof. exact write_is_rendering_open. Qed.
Theorem C05_write_is_rendering_teletext : forall now md items, doc_repr_ttx now md items -> let g := new_gsi now md items in
  write_stl now md items = Ok (render_stl writer_forms g (wrn_blocks false g items)) /\
  rendering_okb writer_forms g (wrn_blocks false g items) = true.
Proof. exact write_is_rendering_ttx. Qed.
Theorem C05_write_read_rendered_open : forall ign now md items, doc_repr_open now md items -> let g := new_gsi now md items in
  exists out, write_stl now md items = Ok out /\ read_stl ign out = Ok (denote_stl ign g (wrn_blocks true g items)).
Proof. exact write_read_rendered_open. Qed.
Theorem C05_write_read_rendered_teletext : forall ign now md items, doc_repr_ttx now md items -> let g := new_gsi now md items in
  exists out, write_stl now md items = Ok out /\ read_stl ign out = Ok (denote_stl ign g (wrn_blocks false g items)).
Proof. exact write_read_rendered_ttx. Qed.
Theorem C05_write_denotes_open : forall now md items, doc_repr_open now md items -> let g := new_gsi now md items in
  denote_stl false g (wrn_blocks true g items) = read_back g expected_line items.
Proof. exact write_denotes_open. Qed.
Theorem C05_write_denotes_teletext : forall now md items, doc_repr_ttx now md items -> let g := new_gsi now md items in
  denote_stl false g (wrn_blocks false g items) = read_back g expected_ttx_line items.
Proof. exact write_denotes_ttx. Qed.
(* a teletext row of a rendering with its start box omitted reads like the row with it *)
Theorem C05_read_rendered_row_without_start_box : forall b, brow_box_okb b = true ->
  (if nmem 11 (brow_cells b) then brow_cells b else 11%N :: brow_cells b) = srow_cells (br_row b).
Proof. exact brow_boxed. Qed.
Example C05_read_rendered_example_no_start_box : forall ign,
  rendering_okb writer_forms z_g z_blocks = true /\ read_stl ign z_bytes = Ok (denote_stl ign z_g z_blocks).
Proof. intros ign. split; [exact z_ok | rewrite <- z_bytes_are_rendering; apply z_read]. Qed.
(* the example documents of C05_example_document / C05_example_document_teletext: their written bytes are the rendering *)
Example C05_write_is_rendering_example :
  let g := new_gsi ex_now (Some ex_md) ex_items in
  rendering_okb writer_forms g (wrn_blocks true g ex_items) = true /\
  write_stl ex_now (Some ex_md) ex_items = Ok (render_stl writer_forms g (wrn_blocks true g ex_items)).
Proof. exact wrn_ex_doc_open. Qed.
Print Assumptions C05_write_is_rendering_open.
Print Assumptions C05_write_is_rendering_teletext.
Print Assumptions C05_write_read_rendered_open.
Print Assumptions C05_write_read_rendered_teletext.
Print Assumptions C05_write_denotes_open.
Print Assumptions C05_write_denotes_teletext.
Print Assumptions C05_read_rendered_row_without_start_box.
Print Assumptions C05_read_rendered_example_no_start_box.
Print Assumptions C05_write_is_rendering_example.
