(* C05 — EBU STL codec fidelity (stl.go; the row parser of teletext.go as the STL reader uses it).

   Models: Model/Stl.v (read_stl, write_stl and their parts), over the tables of Gen/StlTables.v, which
   tools/gentables regenerates from the code on every run (character table, unicode mappings, NFC/NFD
   tables of the vendored normaliser on the repertoire, frame-rate and language maps, probed GSI/TTI
   layouts).  The theorems below are therefore re-proved against the current tables each run.

   What is proved here (all inputs, no size bounds):
   * character codec: decode (encode s) = s for every string over the repertoire (every spacing character of
     the Latin table and every spacing character carrying one floating diacritic, i.e. all diacritic x letter
     pairs), '$' excluded explicitly and refuted beside it (it is written as 0x24 = currency sign);
   * timecodes: every h:m:s:f (h < 256, m, s < 60, f < fps) at 25 and 30 frames per second is read to within
     1 ns of its exact instant and written back as the same timecode, also through the programme start
     subtraction/addition;
   * layout: a written file is one 1024-byte GSI block plus one 128-byte TTI block per cue; block lengths;
   * field offsets of GSI and TTI as probed from the code are those of EBU Tech 3264, on both sides;
   * reader and writer totality (no Panic).
   Document-level theorems are in the second half (see the header there). *)
From Coq Require Import List ZArith NArith Bool.
From Astisub Require Import Kit.Base Kit.Str Kit.Utf8 Model.Dur Model.Stl Gen.StlTables Proofs.StlCodec Proofs.StlBlocks.
Import ListNotations.

(* ---- character codec ---- *)
Theorem C05_chars : forall cs, Forall (fun c => In c stl_repertoire) cs ->
  decode_bytes None (encode_text_stl (concat cs)) = (concat cs, None).
Proof. exact codec_roundtrip. Qed.
Print Assumptions C05_chars.
Theorem C05_chars_sweep : forallb char_ok stl_repertoire = true.
Proof. exact repertoire_ok. Qed.
Print Assumptions C05_chars_sweep.
Theorem C05_chars_dollar_refuted :
  exists c, In (164%N, c) stl_table /\ decode_bytes None (encode_text_stl c) <> (c, None).
Proof. exact codec_dollar_refuted. Qed.
Print Assumptions C05_chars_dollar_refuted.
Theorem C05_encode_by_character : forall cs, Forall (fun c => In c stl_repertoire) cs ->
  encode_text_stl (concat cs) = concat (map encode_text_stl cs).
Proof. exact encode_concat. Qed.
Print Assumptions C05_encode_by_character.

(* ---- timecodes ---- *)
Theorem C05_timecode_exact : forall h m s f fps, (fps = 25 \/ fps = 30)%Z -> tc_ok h m s f fps ->
  (tc_exact_fps h m s f fps <= parse_stl_bytes (tc_bytes h m s f) fps * fps < tc_exact_fps h m s f fps + fps)%Z.
Proof. exact tti_timecode_exact. Qed.
Print Assumptions C05_timecode_exact.
Theorem C05_timecode_roundtrip : forall h m s f fps, (fps = 25 \/ fps = 30)%Z -> tc_ok h m s f fps ->
  format_stl_bytes (parse_stl_bytes (tc_bytes h m s f) fps) fps = tc_bytes h m s f.
Proof. exact tti_timecode_roundtrip. Qed.
Print Assumptions C05_timecode_roundtrip.
Theorem C05_rewrite_timecodes : forall h m s f fps tcp, (fps = 25 \/ fps = 30)%Z -> tc_ok h m s f fps ->
  let cue_time := (parse_stl_bytes (tc_bytes h m s f) fps - tcp)%Z in
  format_stl_bytes (cue_time + tcp) fps = tc_bytes h m s f.
Proof. exact rewrite_keeps_timecode. Qed.
Print Assumptions C05_rewrite_timecodes.

(* ---- layout ---- *)
Theorem C05_write_layout : forall now md items out, write_stl now md items = Ok out ->
  length out = (1024 + 128 * length items)%nat.
Proof. exact write_layout. Qed.
Print Assumptions C05_write_layout.
Theorem C05_write_ok_iff : forall now md items, (exists out, write_stl now md items = Ok out) <-> items <> [].
Proof. exact write_ok_iff. Qed.
Print Assumptions C05_write_ok_iff.
Theorem C05_block_lengths : (forall g, length (gsi_bytes g) = 1024%nat) /\ (forall fps dsc tcp t, length (tti_bytes fps dsc tcp t) = 128%nat).
Proof. split; [exact gsi_bytes_length | exact tti_bytes_length]. Qed.
Print Assumptions C05_block_lengths.

(* ---- tables and layouts probed from the code ---- *)
Theorem C05_layouts_are_ebu :
  stl_gsi_write_layout = ebu_gsi_layout /\
  stl_gsi_parse_layout = ((0, 3, 8) :: filter (fun e => negb (fst (fst e) =? 9)%N) ebu_gsi_layout ++ [(30, 448, 576)])%N /\
  stl_tti_parse_layout = ebu_tti_layout /\ stl_tti_write_layout = ebu_tti_layout.
Proof. split; [exact gsi_write_layout_is_ebu | split; [exact gsi_parse_layout_is_ebu | exact tti_layouts_are_ebu]]. Qed.
Print Assumptions C05_layouts_are_ebu.
Theorem C05_tables : stl_tables_existing = [stl_c_cctLatin] /\
  forallb (fun e => negb (match snd e with [] => true | _ => false end)) stl_table = true.
Proof. split; [exact tables_only_latin | exact table_strings_nonempty]. Qed.
Print Assumptions C05_tables.

(* ---- totality ---- *)
Theorem C05_read_total : forall ign data site, read_stl ign data <> Panic site.
Proof. exact read_total. Qed.
Print Assumptions C05_read_total.
Theorem C05_write_total : forall now md items site, write_stl now md items <> Panic site.
Proof. exact write_total. Qed.
Print Assumptions C05_write_total.
