(* C18 — I/O faults are reported, never swallowed.
   Readers: when the scanner stops on an error (read failure at any offset, or a line too long to buffer) the
   reader model returns an error, whatever tokens were delivered before (SubRip, WebVTT and SSA/ASS models).
   Writers: a writer is the list of Write calls it issues, each checked; a destination failing before the end of the
   document makes the writer fail, and without a fault every byte is handed over (SubRip and WebVTT: one Write; SSA/ASS:
   up to three Writes - script info, styles, events - modelled by write_ssa_chunks).
   EBU STL: a stream that fails (an error other than end-of-file) after delivering any prefix, under any schedule,
   makes ReadFromSTL return an error - also when the failure falls exactly on a block boundary, because the reader
   always asks for the next block and only io.EOF ends its loop (C18_read_stl_fault); an end-of-file inside a block is
   an error (C18_read_stl_partial_block); an end-of-file at a block boundary is a shorter well-formed file (C05_read_spec
   on the complete blocks).  WriteToSTL issues one Write for the GSI block and one per TTI block, each checked
   (C18_write_stl_fault / _complete). *)
From Coq Require Import List NArith Bool Arith.
From Astisub Require Import Kit.Base Kit.Scan Kit.IOW Model.Srt Model.Vtt Proofs.ScanProofs Proofs.SrtIOProofs Proofs.VttIOProofs.
From Astisub Require Import Model.Ssa Proofs.SsaIOProofs.
From Astisub Require Import Model.Stl Model.StlIO Proofs.StlIOProofs.
From Astisub Require Import Model.Ttml Proofs.TtmlIO.
Import ListNotations.

Theorem C18_read_srt_fault : forall ls, exists k, read_srt_lines ls true = Err k.
Proof. exact read_srt_fault. Qed.
Theorem C18_read_vtt_fault : forall ls, exists k, read_vtt_lines ls true = Err k.
Proof. exact read_vtt_fault. Qed.
Theorem C18_read_ssa_fault : forall ls, exists k, read_ssa_lines ls true = Err k.
Proof. exact read_ssa_fault. Qed.

(* over both ways a stream can end: a reader that returns cues did so on a stream that ended at end-of-file, and what it
   returns is the one-shot result on the whole document - success is never a silent truncation *)
Theorem C18_success_means_complete : forall data e counts,
  (forall l, read_srt_lines (fst (scan_stream data e counts)) (snd (scan_stream data e counts)) = Ok l ->
             e = SEof /\ read_srt data = Ok l) /\
  (forall d, read_vtt_lines (fst (scan_stream data e counts)) (snd (scan_stream data e counts)) = Ok d ->
             e = SEof /\ read_vtt data = Ok d) /\
  (forall d, read_ssa_lines (fst (scan_stream data e counts)) (snd (scan_stream data e counts)) = Ok d ->
             e = SEof /\ read_ssa data = Ok d).
Proof.
  intros data e counts. destruct e as [|k]; cbn [scan_stream scan_fail fst snd].
  - rewrite (scan_lines data counts). unfold read_srt, read_vtt, read_ssa.
    split; [|split]; intros x Hx; (split; [reflexivity | exact Hx]).
  - split; [|split]; intros x Hx; exfalso.
    + destruct (read_srt_fault (scan (firstn k data) counts)) as (q & E); congruence.
    + destruct (read_vtt_fault (scan (firstn k data) counts)) as (q & E); congruence.
    + destruct (read_ssa_fault (scan (firstn k data) counts)) as (q & E); congruence.
Qed.
Print Assumptions C18_success_means_complete.

Theorem C18_writes_fault : forall ws k, (k < total ws)%nat -> run_writes ws (fail_at k) 0 = Err EIO.
Proof. exact writes_fault. Qed.
Theorem C18_writes_complete : forall ws, run_writes ws ok_dest 0 = Ok (total ws).
Proof. exact writes_complete. Qed.
(* for ANY destination: a successful return means every byte was handed over *)
Theorem C18_writes_ok_complete : forall ws d m, run_writes ws d 0 = Ok m -> m = total ws.
Proof. exact writes_ok_complete. Qed.
Print Assumptions C18_writes_ok_complete.
Theorem C18_write_srt_fault : forall l doc k, write_srt l = Ok doc -> (k < length doc)%nat -> write_srt_to l (fail_at k) = Err EIO.
Proof. exact write_srt_fault. Qed.
Theorem C18_write_srt_complete : forall l doc, write_srt l = Ok doc -> write_srt_to l ok_dest = Ok (length doc).
Proof. exact write_srt_complete. Qed.
Theorem C18_write_vtt_fault : forall d so ro doc k, write_vtt d so ro = Ok doc -> (k < length doc)%nat ->
  write_vtt_to d so ro (fail_at k) = Err EIO.
Proof. exact write_vtt_fault. Qed.
Theorem C18_write_vtt_complete : forall d so ro doc, write_vtt d so ro = Ok doc -> write_vtt_to d so ro ok_dest = Ok (length doc).
Proof. exact write_vtt_complete. Qed.
Theorem C18_write_ssa_fault : forall d order doc k, write_ssa d order = Ok doc -> (k < length doc)%nat ->
  write_ssa_to d order (fail_at k) = Err EIO.
Proof. exact write_ssa_fault. Qed.
Theorem C18_write_ssa_complete : forall d order doc, write_ssa d order = Ok doc -> write_ssa_to d order ok_dest = Ok (length doc).
Proof. exact write_ssa_complete. Qed.
(* TTML writer: the bytes reach the destination through xml.Encoder's bufio.Writer; where the document is cut into
   Write calls depends on the buffer size and the destination's type, so the cut is a parameter: for ANY cut whose
   pieces concatenate to the document, each Write checked (bufio keeps the first error, Encode returns it).  Contract
   (not modelled): bufio.Writer and the encoder hand over every byte in order and report the first error; on the
   reader side xml.Decoder's own read loop returns the stream's error (exercised by the harness at every offset). *)
Theorem C18_write_ttml_fault : forall (cut : list N -> list (list N)), (forall s, concat (cut s) = s) ->
  forall ind d doc k, write_ttml_bytes ind d = Ok doc -> (k < length doc)%nat -> write_ttml_to cut ind d (fail_at k) = Err EIO.
Proof. exact write_ttml_fault. Qed.
Theorem C18_write_ttml_complete : forall (cut : list N -> list (list N)), (forall s, concat (cut s) = s) ->
  forall ind d doc, write_ttml_bytes ind d = Ok doc -> write_ttml_to cut ind d ok_dest = Ok (length doc).
Proof. exact write_ttml_complete. Qed.
(* a stream failing after k bytes under any delivery schedule: the readers return an error, not a shorter cue list *)
Theorem C18_read_fault_at_offset : forall data k counts,
  (exists e, read_srt_lines (fst (scan_fail data k counts)) (snd (scan_fail data k counts)) = Err e) /\
  (exists e, read_vtt_lines (fst (scan_fail data k counts)) (snd (scan_fail data k counts)) = Err e).
Proof. intros data k counts. cbn [scan_fail fst snd]. split; [apply read_srt_fault | apply read_vtt_fault]. Qed.
Theorem C18_read_ssa_fault_at_offset : forall data k counts,
  exists e, read_ssa_lines (fst (scan_fail data k counts)) (snd (scan_fail data k counts)) = Err e.
Proof. exact read_ssa_fault_at_offset. Qed.

(* EBU STL *)
Theorem C18_read_stl_fault : forall ign data k counts, exists e, read_stl_fail_at ign data k counts = Err e.
Proof. exact read_stl_fault_at_offset. Qed.
Theorem C18_read_stl_partial_block : forall ign data j r,
  length data = (1024 + 128 * j + r)%nat -> (0 < r < 128)%nat -> exists k, read_stl ign data = Err k.
Proof. exact read_stl_partial_block. Qed.
Theorem C18_write_stl_fault : forall now md items doc k, write_stl now md items = Ok doc -> (k < length doc)%nat ->
  write_stl_to now md items (fail_at k) = Err EIO.
Proof. exact write_stl_fault. Qed.
Theorem C18_write_stl_complete : forall now md items doc, write_stl now md items = Ok doc ->
  write_stl_to now md items ok_dest = Ok (length doc).
Proof. exact write_stl_complete. Qed.
Theorem C18_write_stl_calls : forall now md items doc, write_stl now md items = Ok doc ->
  exists ws, stl_writes now md items = Ok ws /\ concat ws = doc /\ length ws = S (length items).
Proof. exact stl_writes_spec. Qed.
Print Assumptions C18_read_stl_fault.
Print Assumptions C18_read_stl_partial_block.
Print Assumptions C18_write_stl_fault.
Print Assumptions C18_write_stl_complete.
Print Assumptions C18_write_stl_calls.

Print Assumptions C18_write_vtt_fault.
Print Assumptions C18_write_vtt_complete.
Print Assumptions C18_read_fault_at_offset.
Print Assumptions C18_read_srt_fault.
Print Assumptions C18_writes_fault.
Print Assumptions C18_writes_complete.
Print Assumptions C18_write_srt_fault.
Print Assumptions C18_write_srt_complete.
Print Assumptions C18_read_vtt_fault.
Print Assumptions C18_read_ssa_fault.
Print Assumptions C18_write_ssa_fault.
Print Assumptions C18_write_ssa_complete.
Print Assumptions C18_read_ssa_fault_at_offset.
Print Assumptions C18_write_ttml_fault.
Print Assumptions C18_write_ttml_complete.

(* EBU STL, strengthened after the fuel audit (notes/fuel.md, Proofs/FuelStl.v): the error of a failing stream / of an
   end-of-file inside a block is a genuine one, never the out-of-fuel value Err EOther of the fuelled loop (which the
   weaker statements C18_read_stl_fault / C18_read_stl_partial_block above would also accept) *)
From Astisub Require Import Proofs.FuelStl.
Theorem C18_read_stl_fault_genuine : forall ign data k counts,
  exists e, read_stl_fail_at ign data k counts = Err e /\ e <> EOther.
Proof. intros ign data k counts. exact (read_stl_fail_err_genuine ign (firstn k data) counts). Qed.
Theorem C18_read_stl_partial_block_genuine : forall ign data j r,
  length data = (1024 + 128 * j + r)%nat -> (0 < r < 128)%nat -> exists k, read_stl ign data = Err k /\ k <> EOther.
Proof. exact read_stl_partial_block_genuine. Qed.
Print Assumptions C18_read_stl_fault_genuine.
Print Assumptions C18_read_stl_partial_block_genuine.
