(* C18 — I/O faults are reported, never swallowed.
   Readers: when the scanner stops on an error (read failure at any offset, or a line too long to buffer) the
   reader model returns an error, whatever tokens were delivered before (SubRip, WebVTT and SSA/ASS models).
   Writers: a writer is the list of Write calls it issues, each checked; a destination failing before the end of the
   document makes the writer fail, and without a fault every byte is handed over (SubRip and WebVTT: one Write; SSA/ASS:
   up to three Writes - script info, styles, events - modelled by write_ssa_chunks).
   EBU STL: a stream that fails (an error other than end-of-file) after delivering any prefix, under any schedule,
   makes ReadFromSTL return an error - also when the failure falls exactly on a block boundary, because the reader
   always asks for the next block and only io.EOF ends its loop (C18_read_stl_fault); an end-of-file inside a block is
   an error (C18_read_stl_partial_block); an end-of-file at a block boundary is a shorter well-formed file (C05_read_spec
   on the complete blocks).  WriteToSTL issues one Write for the GSI block and one per TTI block, each checked
   (C18_write_stl_fault / _complete). *)
From Coq Require Import List NArith Bool Arith.
From Astisub Require Import Kit.Base Kit.Scan Kit.IOW Model.Srt Model.Vtt Proofs.ScanProofs Proofs.SrtIOProofs Proofs.VttIOProofs.
From Astisub Require Import Model.Ssa Proofs.SsaIOProofs.
From Astisub Require Import Model.Stl Model.StlIO Proofs.StlIOProofs.
From Astisub Require Import Model.Ttml Proofs.TtmlIO Model.TtmlGo Proofs.TtmlGoProofs.
Import ListNotations.

Theorem C18_read_srt_fault : forall ls, exists k, read_srt_lines ls true = Err k.
Proof. exact read_srt_fault. Qed.
Theorem C18_read_vtt_fault : forall ls, exists k, read_vtt_lines ls true = Err k.
Proof. exact read_vtt_fault. Qed.
Theorem C18_read_ssa_fault : forall ls, exists k, read_ssa_lines ls true = Err k.
Proof. exact read_ssa_fault. Qed.

(* over both ways a stream can end: a reader that returns cues did so on a stream that ended at end-of-file, and what it
   returns is the one-shot result on the whole document - success is never a silent truncation *)
Theorem C18_success_means_complete : forall data e counts,
  (forall l, read_srt_lines (fst (scan_stream data e counts)) (snd (scan_stream data e counts)) = Ok l ->
             e = SEof /\ read_srt data = Ok l) /\
  (forall d, read_vtt_lines (fst (scan_stream data e counts)) (snd (scan_stream data e counts)) = Ok d ->
             e = SEof /\ read_vtt data = Ok d) /\
  (forall d, read_ssa_lines (fst (scan_stream data e counts)) (snd (scan_stream data e counts)) = Ok d ->
             e = SEof /\ read_ssa data = Ok d).
Proof.
  intros data e counts. destruct e as [|k]; cbn [scan_stream scan_fail fst snd].
  - rewrite (scan_lines data counts). unfold read_srt, read_vtt, read_ssa.
    split; [|split]; intros x Hx; (split; [reflexivity | exact Hx]).
  - split; [|split]; intros x Hx; exfalso.
    + destruct (read_srt_fault (scan (firstn k data) counts)) as (q & E); congruence.
    + destruct (read_vtt_fault (scan (firstn k data) counts)) as (q & E); congruence.
    + destruct (read_ssa_fault (scan (firstn k data) counts)) as (q & E); congruence.
Qed.
Print Assumptions C18_success_means_complete.

Theorem C18_writes_fault : forall ws k, (k < total ws)%nat -> run_writes ws (fail_at k) 0 = Err EIO.
Proof. exact writes_fault. Qed.
Theorem C18_writes_complete : forall ws, run_writes ws ok_dest 0 = Ok (total ws).
Proof. exact writes_complete. Qed.
(* for ANY destination: a successful return means every byte was handed over *)
Theorem C18_writes_ok_complete : forall ws d m, run_writes ws d 0 = Ok m -> m = total ws.
Proof. exact writes_ok_complete. Qed.
Print Assumptions C18_writes_ok_complete.
Theorem C18_write_srt_fault : forall l doc k, write_srt l = Ok doc -> (k < length doc)%nat -> write_srt_to l (fail_at k) = Err EIO.
Proof. exact write_srt_fault. Qed.
Theorem C18_write_srt_complete : forall l doc, write_srt l = Ok doc -> write_srt_to l ok_dest = Ok (length doc).
Proof. exact write_srt_complete. Qed.
Theorem C18_write_vtt_fault : forall d so ro doc k, write_vtt d so ro = Ok doc -> (k < length doc)%nat ->
  write_vtt_to d so ro (fail_at k) = Err EIO.
Proof. exact write_vtt_fault. Qed.
Theorem C18_write_vtt_complete : forall d so ro doc, write_vtt d so ro = Ok doc -> write_vtt_to d so ro ok_dest = Ok (length doc).
Proof. exact write_vtt_complete. Qed.
Theorem C18_write_ssa_fault : forall d order doc k, write_ssa d order = Ok doc -> (k < length doc)%nat ->
  write_ssa_to d order (fail_at k) = Err EIO.
Proof. exact write_ssa_fault. Qed.
Theorem C18_write_ssa_complete : forall d order doc, write_ssa d order = Ok doc -> write_ssa_to d order ok_dest = Ok (length doc).
Proof. exact write_ssa_complete. Qed.
(* TTML writer: the bytes reach the destination through xml.Encoder's bufio.Writer; where the document is cut into
   Write calls depends on the buffer size and the destination's type, so the cut is a parameter: for ANY cut whose
   pieces concatenate to the document, each Write checked (bufio keeps the first error, Encode returns it).  Contract
   (not modelled): bufio.Writer and the encoder hand over every byte in order and report the first error; on the
   reader side xml.Decoder's own read loop returns the stream's error (exercised by the harness at every offset). *)
Theorem C18_write_ttml_fault : forall (cut : list N -> list (list N)), (forall s, concat (cut s) = s) ->
  forall ind d doc k, write_ttml_bytes_go ind d = Ok doc -> (k < length doc)%nat -> write_ttml_to_go cut ind d (fail_at k) = Err EIO.
Proof. exact write_ttml_go_fault. Qed.
Theorem C18_write_ttml_complete : forall (cut : list N -> list (list N)), (forall s, concat (cut s) = s) ->
  forall ind d doc, write_ttml_bytes_go ind d = Ok doc -> write_ttml_to_go cut ind d ok_dest = Ok (length doc).
Proof. exact write_ttml_go_complete. Qed.
(* a stream failing after k bytes under any delivery schedule: the readers return an error, not a shorter cue list *)
Theorem C18_read_fault_at_offset : forall data k counts,
  (exists e, read_srt_lines (fst (scan_fail data k counts)) (snd (scan_fail data k counts)) = Err e) /\
  (exists e, read_vtt_lines (fst (scan_fail data k counts)) (snd (scan_fail data k counts)) = Err e).
Proof. intros data k counts. cbn [scan_fail fst snd]. split; [apply read_srt_fault | apply read_vtt_fault]. Qed.
Theorem C18_read_ssa_fault_at_offset : forall data k counts,
  exists e, read_ssa_lines (fst (scan_fail data k counts)) (snd (scan_fail data k counts)) = Err e.
Proof. exact read_ssa_fault_at_offset. Qed.

(* EBU STL *)
Theorem C18_read_stl_fault : forall ign data k counts, exists e, read_stl_fail_at ign data k counts = Err e.
Proof. exact read_stl_fault_at_offset. Qed.
Theorem C18_read_stl_partial_block : forall ign data j r,
  length data = (1024 + 128 * j + r)%nat -> (0 < r < 128)%nat -> exists k, read_stl ign data = Err k.
Proof. exact read_stl_partial_block. Qed.
Theorem C18_write_stl_fault : forall now md items doc k, write_stl now md items = Ok doc -> (k < length doc)%nat ->
  write_stl_to now md items (fail_at k) = Err EIO.
Proof. exact write_stl_fault. Qed.
Theorem C18_write_stl_complete : forall now md items doc, write_stl now md items = Ok doc ->
  write_stl_to now md items ok_dest = Ok (length doc).
Proof. exact write_stl_complete. Qed.
Theorem C18_write_stl_calls : forall now md items doc, write_stl now md items = Ok doc ->
  exists ws, stl_writes now md items = Ok ws /\ concat ws = doc /\ length ws = S (length items).
Proof. exact stl_writes_spec. Qed.
Print Assumptions C18_read_stl_fault.
Print Assumptions C18_read_stl_partial_block.
Print Assumptions C18_write_stl_fault.
Print Assumptions C18_write_stl_complete.
Print Assumptions C18_write_stl_calls.

Print Assumptions C18_write_vtt_fault.
Print Assumptions C18_write_vtt_complete.
Print Assumptions C18_read_fault_at_offset.
Print Assumptions C18_read_srt_fault.
Print Assumptions C18_writes_fault.
Print Assumptions C18_writes_complete.
Print Assumptions C18_write_srt_fault.
Print Assumptions C18_write_srt_complete.
Print Assumptions C18_read_vtt_fault.
Print Assumptions C18_read_ssa_fault.
Print Assumptions C18_write_ssa_fault.
Print Assumptions C18_write_ssa_complete.
Print Assumptions C18_read_ssa_fault_at_offset.
Print Assumptions C18_write_ttml_fault.
Print Assumptions C18_write_ttml_complete.

(* ---- "a single line exceeds what the reader can buffer" (audit follow-up; Kit/ScanLim.v, Proofs/ScanLimProofs.v,
   Proofs/ScanLimReaders.v): [scan_lim max data counts] is the line scanner with bufio.Scanner's buffer limit
   (bufio.MaxScanTokenSize = 65536 = [max_scan_token]: newScanner never calls scanner.Buffer); see C17.v for the exact
   boundary and the one schedule-dependent case (a last line that exactly fills the buffer). ---- *)
From Coq Require Import Lia.
From Astisub Require Import Kit.ScanLim Proofs.ScanLimProofs Proofs.ScanLimReaders.

(* the scanner: some line longer than the buffer -> ErrTooLong under every schedule, after delivering a strict prefix of
   the lines *)
Theorem C18_scanner_too_long : forall max data, Exists (fun l => (max < length l)%nat) (lines data) ->
  exists j, (j < length (lines data))%nat /\ forall counts, scan_lim max data counts = (firstn j (lines data), true).
Proof. exact scan_lim_long_line. Qed.
(* ... the exact condition ([lim_overlong max data j]: line j is the first whose look-ahead exceeds the buffer, or a last
   line longer than the buffer) *)
Theorem C18_scanner_overlong : forall max data counts j, lim_overlong max data j ->
  scan_lim max data counts = (firstn j (lines data), true).
Proof. exact scan_lim_overlong. Qed.
(* the three line-based readers return an error instead of a shorter cue list, for every schedule *)
Theorem C18_too_long : forall max data counts, Exists (fun l => (max < length l)%nat) (lines data) ->
  (exists e, read_srt_lines (fst (scan_lim max data counts)) (snd (scan_lim max data counts)) = Err e) /\
  (exists e, read_vtt_lines (fst (scan_lim max data counts)) (snd (scan_lim max data counts)) = Err e) /\
  (exists e, read_ssa_lines (fst (scan_lim max data counts)) (snd (scan_lim max data counts)) = Err e).
Proof. exact read_lim_too_long. Qed.
Theorem C18_too_long_exact : forall max data counts j, lim_overlong max data j ->
  (exists e, read_srt_lines (fst (scan_lim max data counts)) (snd (scan_lim max data counts)) = Err e) /\
  (exists e, read_vtt_lines (fst (scan_lim max data counts)) (snd (scan_lim max data counts)) = Err e) /\
  (exists e, read_ssa_lines (fst (scan_lim max data counts)) (snd (scan_lim max data counts)) = Err e).
Proof. exact read_lim_overlong. Qed.
(* for EVERY input and schedule, the schedule-dependent boundary included: a reader that returns cues was given every
   line, and returns the one-shot result on the whole document - never a truncation at the buffer limit *)
Theorem C18_limit_success_means_complete : forall max data counts,
  (forall l, read_srt_lines (fst (scan_lim max data counts)) (snd (scan_lim max data counts)) = Ok l ->
             snd (scan_lim max data counts) = false /\ read_srt data = Ok l) /\
  (forall d, read_vtt_lines (fst (scan_lim max data counts)) (snd (scan_lim max data counts)) = Ok d ->
             snd (scan_lim max data counts) = false /\ read_vtt data = Ok d) /\
  (forall d, read_ssa_lines (fst (scan_lim max data counts)) (snd (scan_lim max data counts)) = Ok d ->
             snd (scan_lim max data counts) = false /\ read_ssa data = Ok d).
Proof. exact read_lim_success_complete. Qed.
(* non-vacuity at the real constant: a SubRip document whose text line has 65536 bytes (observed on the library:
   ReadFromSRT / ReadFromWebVTT / ReadFromSSA return "astisub: scanning failed: bufio.Scanner: token too long") *)
Definition C18_timing_line : str := [48;48;58;48;48;58;48;49;44;48;48;48;32;45;45;62;32;48;48;58;48;48;58;48;50;44;48;48;48]%N.
Definition C18_long_srt : str := [49]%N ++ LF :: (C18_timing_line ++ LF :: (a_line 65536 ++ [LF])).
Example C18_too_long_example : forall counts,
  scan_lim max_scan_token C18_long_srt counts = ([[49]%N; C18_timing_line], true) /\
  exists e, read_srt_lines (fst (scan_lim max_scan_token C18_long_srt counts)) (snd (scan_lim max_scan_token C18_long_srt counts)) = Err e.
Proof.
  intros counts.
  assert (N1 : forallb (fun c => negb (is_brk c)) [49]%N = true) by reflexivity.
  assert (N2 : forallb (fun c => negb (is_brk c)) C18_timing_line = true) by reflexivity.
  assert (HO : lim_overlong max_scan_token C18_long_srt 2).
  { unfold C18_long_srt. set (r2 := a_line 65536 ++ [LF]). set (r1 := C18_timing_line ++ LF :: r2).
    apply (lo_later max_scan_token ([49]%N ++ LF :: r1) _ [49]%N r1 1%nat (need_lf [49]%N r1 N1));
      [unfold max_scan_token; cbn [length]; lia | exact (split_lf [49]%N r1 N1) |].
    unfold r1.
    apply (lo_later max_scan_token (C18_timing_line ++ LF :: r2) _ C18_timing_line r2 0%nat (need_lf C18_timing_line r2 N2));
      [unfold max_scan_token, C18_timing_line; cbn [length]; lia | exact (split_lf C18_timing_line r2 N2) |].
    unfold r2. apply (lo_here max_scan_token _ _ (need_lf (a_line 65536) [] (nobrk_repeat _))).
    unfold max_scan_token. rewrite a_line_length. lia. }
  split.
  - rewrite (scan_lim_overlong _ _ counts 2 HO). unfold C18_long_srt.
    rewrite (lines_cons_lf [49]%N _ N1), (lines_cons_lf C18_timing_line _ N2). reflexivity.
  - exact (proj1 (read_lim_overlong max_scan_token C18_long_srt counts 2 HO)).
Qed.

Print Assumptions C18_scanner_too_long.
Print Assumptions C18_scanner_overlong.
Print Assumptions C18_too_long.
Print Assumptions C18_too_long_exact.
Print Assumptions C18_limit_success_means_complete.
(* EBU STL, strengthened after the fuel audit (notes/fuel.md, Proofs/FuelStl.v): the error of a failing stream / of an
   end-of-file inside a block is a genuine one, never the out-of-fuel value Err EOther of the fuelled loop (which the
   weaker statements C18_read_stl_fault / C18_read_stl_partial_block above would also accept) *)
From Astisub Require Import Proofs.FuelStl.
Theorem C18_read_stl_fault_genuine : forall ign data k counts,
  exists e, read_stl_fail_at ign data k counts = Err e /\ e <> EOther.
Proof. intros ign data k counts. exact (read_stl_fail_err_genuine ign (firstn k data) counts). Qed.
Theorem C18_read_stl_partial_block_genuine : forall ign data j r,
  length data = (1024 + 128 * j + r)%nat -> (0 < r < 128)%nat -> exists k, read_stl ign data = Err k /\ k <> EOther.
Proof. exact read_stl_partial_block_genuine. Qed.
Print Assumptions C18_read_stl_fault_genuine.
Print Assumptions C18_read_stl_partial_block_genuine.

(* Teletext in transport streams (second audit, N1): the wrapper teletextFullReader (Model/TtxFull.v, see the block at the
   end of C17.v for what is and is not modelled).  A stream failing at offset k <= length data, under EVERY schedule and
   whether the failure comes with the last bytes or alone: the demuxer's Reads return the one-shot sequence of the first k
   bytes ending in the failure; the Read that would cross offset k returns the bytes up to k together with the failure,
   the Reads before it are filled and report nothing, nothing beyond offset k is ever delivered and the failure is never
   turned into end-of-file or nil (in particular not by the ErrUnexpectedEOF -> nil step of the wrapper); a failure the
   demuxer does not reach changes nothing.  What astits does with the error of its Read is its contract (it returns it:
   harness suite fault.read.teletext on the implementation). *)
From Astisub Require Import Model.TtxFull Proofs.TtxFullProofs.
Theorem C18_ttx_fault_reads : forall data k counts w ns, (k <= length data)%nat ->
  tf_reads (tf_of data (SFail k) counts w) ns = Some (tf_oneshot (firstn k data) TfFault ns).
Proof. exact ttx_fault_reads. Qed.
Print Assumptions C18_ttx_fault_reads.
Theorem C18_ttx_fault_propagates : forall data k counts w ns, (k <= length data)%nat -> (k < list_sum ns)%nat ->
  exists pre b post, tf_reads (tf_of data (SFail k) counts w) ns = Some (pre ++ (b, Some TfFault) :: post) /\
                     Forall (fun x => snd x = None) pre /\ concat (map fst pre) ++ b = firstn k data /\ Forall (fun x => fst x = []) post.
Proof. exact ttx_fault_propagates. Qed.
Print Assumptions C18_ttx_fault_propagates.
Theorem C18_ttx_fault_unreached : forall data k counts w ns, (k <= length data)%nat -> (list_sum ns <= k)%nat ->
  tf_reads (tf_of data (SFail k) counts w) ns = tf_reads (tf_of data SEof counts w) ns.
Proof. exact ttx_fault_unreached. Qed.
Print Assumptions C18_ttx_fault_unreached.
(* non-vacuity: failure at offset 5 delivered with the last bytes; the second Read of 3 crosses it *)
Example C18_ttx_fault_example :
  tf_reads (tf_of [1;2;3;4;5;6;7]%N (SFail 5) [1;0;2]%nat true) [3;3;3]%nat =
  Some [([1;2;3]%N, None); ([4;5]%N, Some TfFault); ([], Some TfFault)].
Proof. reflexivity. Qed.
Print Assumptions C18_ttx_fault_example.
(* ---- EBU STL reader, the failing Read delivers bytes together with its error (audit N9a) ----
   io.Reader allows Read to return (n, err) with n > 0, and does not oblige a stream to repeat an error: after the failing
   Read it may report end-of-file or go on.  io.ReadFull DROPS an error that arrives with the last requested bytes, so a
   stream failing exactly at the end of a block (offsets 1024 + 128 i) and reporting end-of-file afterwards made
   ReadFromSTL return the cues read so far with a nil error (3 cues, failure after 1152 bytes: 1 cue, no error) - a silent
   truncation, inside this property's quantifier ("fails with an error other than end-of-file at any byte offset").
   Repaired in the repository (readNBytes keeps the error; seeded/C18-stl-read-error-dropped-with-last-bytes-of-block).
   C18_read_stl_fault above models "the stream delivers a prefix, then a Read fails without data"; the reader never
   calls Read again after a failing one, so the statement does not depend on the stream being sticky.
   read_stl_fail_at_wd (Model/StlIO.v) is the other way of failing: the Read that delivers the last byte of the prefix
   returns the error with it; a block completed by that byte is not looked at.  Both are errors, and genuine ones (not the
   out-of-fuel value of the loop).  C18_read_stl_fault_example: the audit's file, and the same prefix as a stream that
   simply ends (a one-cue file).  The harness's failing reader (stl_io.go) fails with and without data and then is
   sticky, reports end-of-file, or resumes. *)
From Astisub Require Import Model.Stl Model.StlIO Proofs.StlIOWithData.
Theorem C18_read_stl_fault_with_data : forall ign data k counts,
  exists e, read_stl_fail_at_wd ign data k counts = Err e /\ e <> EOther.
Proof. intros ign data k counts. exact (read_stl_fail_wd_err_genuine ign (firstn k data) counts). Qed.
Example C18_read_stl_fault_example :
  length wd_ex_file = 1408%nat /\
  read_stl_fail_at_wd false wd_ex_file 1152 nil = Err EIO /\ read_stl_fail_at false wd_ex_file 1152 nil = Err EIO /\
  read_stl_fail_at_wd false wd_ex_file 1024 nil = Err EIO /\
  read_stl_fail_at_wd false wd_ex_file 1408 (1024 :: 128 :: 128 :: 128 :: nil)%nat = Err EIO /\
  match read_stl false (firstn 1152 wd_ex_file) with Ok d => length (rd_items d) = 1%nat | _ => False end.
Proof. exact wd_ex. Qed.
Print Assumptions C18_read_stl_fault_with_data.
Print Assumptions C18_read_stl_fault_example.
