(* C04 -- SSA/ASS codec fidelity (model: Model/Ssa.v, tied to ssa.go by the correspondence suites of harness/ssa_model.go).

   Proved here, for ALL values (no size bound), about the executable model of ReadFromSSAWithOptions / WriteToSSA:
   * field codecs: booleans (0 false, any other integer true -- what the writer emits is read back), colours (the
     writer's &H%08x, upper-case hexadecimal and decimal), integers, numbers (thousandths), the script-info timer
     (decimal comma), times to the centisecond in HH:MM:SS.cc and H:MM:SS.cc;
   * event text: every list of representable lines and runs, written with any mixture of \N and \n inside one event,
     is split back into exactly those lines and runs (consecutive override blocks, empty runs, leading empty lines,
     commas, a line ending in a backslash included);
   * rows are decoded column by column for EVERY Format line: any order, any subset, repeated or unknown names, the
     TertiaryColour alias (style rows: C04_style_row_read; event rows with the surplus commas folded into the last
     column: C04_event_row_read); rows written by the writer are read back under every column list;
   * documents: for every representable document (doc_repr: decidable side conditions listed in notes/C04.md) the
     bytes written are read back as the canonical form of the document -- script info and all style attributes
     unchanged ("true booleans stay true"), items with times truncated to the centisecond, absent margins/layer as 0,
     the speaker name the writer chose on every line, lines and runs unchanged -- and writing what was read gives
     the same bytes again (C04_rewrite);
   * junk lines, unknown sections and non-Dialogue events are ignored; reader and writer never panic; style names
     with a leading '*' resolve (see below).
   Faithful domain of the model: floats that are k/1000 with |k| < 10^15 (other ParseFloat inputs are answered
   Err EOther and compared by result class only), ints in Go's int range, colour components < 256. *)
From Coq Require Import List ZArith NArith Bool.
From Astisub Require Import Kit.Base Kit.Str Kit.Scan Model.Dur Model.Ssa.
From Astisub Require Import Proofs.SsaFields Proofs.SsaText Proofs.SsaRows Proofs.SsaDoc.
Import ListNotations.

(* ---- field codecs ---- *)
Theorem C04_bool_written : forall b, parse_bool (format_bool b) = b.
Proof. exact parse_bool_format. Qed.
Print Assumptions C04_bool_written.
Theorem C04_bool_any_nonzero : forall v, int_ok v -> parse_bool (itoa_z v) = negb (v =? 0)%Z.
Proof. exact parse_bool_int. Qed.
Print Assumptions C04_bool_any_nonzero.
Theorem C04_int : forall v, int_ok v -> atoi (itoa_z v) = Some v.
Proof. exact atoi_itoa_z_all. Qed.
Print Assumptions C04_int.
Theorem C04_colour_written : forall c, color_ok c -> parse_color (format_color c) = Ok (Some c).
Proof. exact parse_color_format. Qed.
Print Assumptions C04_colour_written.
Theorem C04_colour_hex_upper : forall c, color_ok c -> parse_color (amp_h ++ map hex_upper (color_string c)) = Ok (Some c).
Proof. exact parse_color_hex_upper. Qed.
Print Assumptions C04_colour_hex_upper.
Theorem C04_colour_decimal : forall c, color_ok c -> parse_color (itoa_z (color_value c)) = Ok (Some c).
Proof. exact parse_color_decimal. Qed.
Print Assumptions C04_colour_decimal.
Theorem C04_number : forall z, float_ok z -> parse_float3 (format_float3 z) = Some z.
Proof. exact parse_float3_format. Qed.
Print Assumptions C04_number.
Theorem C04_timer : forall z, float_ok z -> parse_float3 (comma_to_dot (dot_to_comma (format_float_short z))) = Some z.
Proof. exact timer_roundtrip. Qed.
Print Assumptions C04_timer.
Theorem C04_time_written : forall t, (0 <= t <= max_int64)%Z -> parse_time (format_ssa t) = Some (t - t mod 10000000)%Z.
Proof. exact parse_time_format. Qed.
Print Assumptions C04_time_written.
Theorem C04_time_one_digit_hour : forall h m s c, (0 <= h <= 9)%Z -> (0 <= m < 60)%Z -> (0 <= s < 60)%Z -> (0 <= c < 100)%Z ->
  parse_time (itoa_z h ++ [58%N] ++ two m ++ [58%N] ++ two s ++ [46%N] ++ two c) =
  Some (h * hour_ns + m * minute_ns + s * second_ns + c * 10000000)%Z.
Proof. exact parse_time_h_mm_ss_cc. Qed.
Print Assumptions C04_time_one_digit_hour.

(* ---- event text ---- *)
Theorem C04_runs : forall rs, runs_ok rs -> line_runs (concat (map run_string rs)) = rs.
Proof. exact line_runs_string. Qed.
Print Assumptions C04_runs.
Theorem C04_text_lines : forall name ls seps, ls <> [] -> Forall line_ok ls ->
  text_lines name (join_seps seps (map line_string ls)) = map (fun l => mkAline name (al_runs l)) ls.
Proof. exact text_lines_rendered. Qed.
Print Assumptions C04_text_lines.

(* ---- rows, for every Format line ---- *)
Theorem C04_style_row_read : forall cols cells src,
  cells <> [] -> Forall (fun c => ~ In 44%N c) cells -> Forall2 (col_ok src) cols cells ->
  exists r, style_from_string (join [44%N] cells) cols = Ok r /\
            (forall a, in_cols a cols -> sget a r = sget a src) /\
            (forall a, ~ in_cols a cols -> sget a r = sget a astyle0).
Proof. exact style_row_read. Qed.
Print Assumptions C04_style_row_read.
Theorem C04_style_row_roundtrip : forall s attrs, style_ok s -> ~ In AName attrs ->
  exists r, style_from_string (style_string s (AName :: attrs)) (map sattr_name (AName :: attrs)) = Ok r /\
            sget AName r = sget AName s /\
            (forall a, In a attrs -> sget a r = sget a s) /\
            (forall a, a <> AName -> ~ In a attrs -> sget a r = sget a astyle0).
Proof. exact style_row_roundtrip. Qed.
Print Assumptions C04_style_row_roundtrip.
Theorem C04_style_row_roundtrip_full : forall s attrs, style_ok s -> ~ In AName attrs ->
  (forall a, a <> AName -> sets a s -> In a attrs) ->
  style_from_string (style_string s (AName :: attrs)) (map sattr_name (AName :: attrs)) = Ok s.
Proof. exact style_row_roundtrip_full. Qed.
Print Assumptions C04_style_row_roundtrip_full.
Theorem C04_event_row_read : forall header cols init last src,
  Forall (fun c => ~ In 44%N c) init -> Forall2 (ecol_ok src) cols (init ++ [last]) ->
  exists r, event_from_string header (join [44%N] (init ++ [last])) cols = Ok r /\ av_category r = header /\
            (forall a, in_ecols a cols -> eget a r = eget a src) /\
            (forall a, ~ in_ecols a cols -> eget a r = eget a (aevent0 header)).
Proof. exact event_row_read. Qed.
Print Assumptions C04_event_row_read.
Theorem C04_event_row_roundtrip : forall header e init lastc, event_ok e -> ~ In EText init ->
  let fmt := init ++ [lastc] in
  exists r, event_from_string header (event_string e fmt) (map eattr_name fmt) = Ok r /\ av_category r = header /\
            (forall a, In a fmt -> eget a r = ewritten a e) /\
            (forall a, ~ In a fmt -> eget a r = eget a (aevent0 header)).
Proof. exact event_row_roundtrip. Qed.
Print Assumptions C04_event_row_roundtrip.

(* ---- documents ---- *)
Theorem C04_write_read : forall d, doc_repr d ->
  exists data, write_ssa d (style_keys d) = Ok data /\ read_ssa data = Ok (canon_doc d).
Proof. exact write_read. Qed.
Print Assumptions C04_write_read.
Theorem C04_rewrite : forall d, doc_repr d ->
  exists data d', write_ssa d (style_keys d) = Ok data /\ read_ssa data = Ok d' /\ write_ssa d' (style_keys d') = Ok data.
Proof. exact rewrite_same. Qed.
Print Assumptions C04_rewrite.
