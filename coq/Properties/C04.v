From Astisub Require Import Kit.Base.
Theorem C04_placeholder : True. Proof. exact I. Qed.
