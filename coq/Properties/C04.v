(* C04 -- SSA/ASS codec fidelity (model: Model/Ssa.v, tied to ssa.go by the correspondence suites of harness/ssa_model.go).

   Proved here, for ALL values (no size bound), about the executable model of ReadFromSSAWithOptions / WriteToSSA:
   * field codecs: booleans (0 false, any other integer true -- what the writer emits is read back), colours (the
     writer's &H%08x, upper-case hexadecimal and decimal), integers, numbers (thousandths), the script-info timer
     (decimal comma), times to the centisecond in HH:MM:SS.cc and H:MM:SS.cc;
   * event text: every list of representable lines and runs, written with any mixture of \N and \n inside one event,
     is split back into exactly those lines and runs (consecutive override blocks, empty runs, leading empty lines,
     commas, a line ending in a backslash included);
   * rows are decoded column by column for EVERY Format line: any order, any subset, repeated or unknown names, the
     TertiaryColour alias (style rows: C04_style_row_read; event rows with the surplus commas folded into the last
     column: C04_event_row_read); rows written by the writer are read back under every column list;
   * documents: for every representable document (doc_repr: decidable side conditions listed in notes/C04.md) the
     bytes written are read back as the canonical form of the document -- script info and all style attributes
     unchanged ("true booleans stay true"), items with times truncated to the centisecond, absent margins/layer as 0,
     the speaker name the writer chose on every line, lines and runs unchanged -- and writing what was read gives
     the same bytes again (C04_rewrite);
   * reading: for every order of the script-info keys, every spelling of the section names, every pair of Format
     lines and every admissible cell encoding, a rendered document is read as the script info, styles and items it
     denotes (C04_read_rendered: sections in the order script info, styles, events; C04_read_sections: sections in
     any order and number, comments and key lines interleaved);
   * junk lines, unknown sections and non-Dialogue events are ignored; LF / CR LF / CR and the byte-order mark; reader
     and writer never panic; style names with a leading '*' resolve; the bytes do not depend on the map order.
   Faithful domain of the model: floats that are k/1000 with |k| < 10^15 (other ParseFloat inputs are answered
   Err EOther and compared by result class only), ints in Go's int range, colour components < 256. *)
From Coq Require Import List ZArith NArith Bool.
From Astisub Require Import Kit.Base Kit.Str Kit.Scan Model.Dur Model.Ssa.
From Coq Require Import Permutation.
From Astisub Require Import Proofs.EolProofs Proofs.SsaFields Proofs.SsaText Proofs.SsaRows Proofs.SsaDoc Proofs.SsaInfo Proofs.SsaInfoOrder Proofs.SsaIgnore Proofs.SsaOrder Proofs.SsaRepr Proofs.SsaRead Proofs.SsaReadAny Proofs.SsaEvents Proofs.SsaWriteRender.
From Astisub Require Import Proofs.SsaStyles Proofs.SsaRewrite Proofs.FuelSsa.
From Astisub Require Import Kit.Chk Model.SsaC Proofs.SsaChk.
From Astisub Require Import Proofs.SsaReadAll Proofs.SsaRewriteAll.
Import ListNotations.

(* ---- field codecs ---- *)
Theorem C04_bool_written : forall b, parse_bool (format_bool b) = b.
Proof. exact parse_bool_format. Qed.
Print Assumptions C04_bool_written.
Theorem C04_bool_any_nonzero : forall v, int_ok v -> parse_bool (itoa_z v) = negb (v =? 0)%Z.
Proof. exact parse_bool_int. Qed.
Print Assumptions C04_bool_any_nonzero.
Theorem C04_int : forall v, int_ok v -> atoi (itoa_z v) = Some v.
Proof. exact atoi_itoa_z_all. Qed.
Print Assumptions C04_int.
Example C04_colour_written : forall c, color_ok c -> parse_color (format_color c) = Ok (Some c).
Proof. exact parse_color_format. Qed.
Print Assumptions C04_colour_written.
Example C04_colour_hex_upper : forall c, color_ok c -> parse_color (amp_h ++ map hex_upper (color_string c)) = Ok (Some c).
Proof. exact parse_color_hex_upper. Qed.
Print Assumptions C04_colour_hex_upper.
Example C04_colour_decimal : forall c, color_ok c -> parse_color (itoa_z (color_value c)) = Ok (Some c).
Proof. exact parse_color_decimal. Qed.
Print Assumptions C04_colour_decimal.
Theorem C04_number : forall z, float_ok z -> parse_float3 (format_float3 z) = Some z.
Proof. exact parse_float3_format. Qed.
Print Assumptions C04_number.
Theorem C04_timer : forall z, float_ok z -> parse_float3 (comma_to_dot (dot_to_comma (format_float_short z))) = Some z.
Proof. exact timer_roundtrip. Qed.
Print Assumptions C04_timer.
Theorem C04_time_written : forall t, (0 <= t <= max_int64)%Z -> parse_time (format_ssa t) = Some (t - t mod 10000000)%Z.
Proof. exact parse_time_format. Qed.
Print Assumptions C04_time_written.
Example C04_time_one_digit_hour : forall h m s c, (0 <= h <= 9)%Z -> (0 <= m < 60)%Z -> (0 <= s < 60)%Z -> (0 <= c < 100)%Z ->
  parse_time (itoa_z h ++ [58%N] ++ two m ++ [58%N] ++ two s ++ [46%N] ++ two c) =
  Some (h * hour_ns + m * minute_ns + s * second_ns + c * 10000000)%Z.
Proof. exact parse_time_h_mm_ss_cc. Qed.
Print Assumptions C04_time_one_digit_hour.

(* ---- event text ---- *)
Theorem C04_runs : forall rs, runs_ok rs -> line_runs (concat (map run_string rs)) = rs.
Proof. exact line_runs_string. Qed.
Print Assumptions C04_runs.
Theorem C04_text_lines : forall name ls seps, ls <> [] -> Forall line_ok ls ->
  text_lines name (join_seps seps (map line_string ls)) = map (fun l => mkAline name (al_runs l)) ls.
Proof. exact text_lines_rendered. Qed.
Print Assumptions C04_text_lines.

(* ---- rows, for every Format line ---- *)
Theorem C04_style_row_read : forall cols cells src,
  cells <> [] -> Forall (fun c => ~ In 44%N c) cells -> Forall2 (col_ok src) cols cells ->
  exists r, style_from_string (join [44%N] cells) cols = Ok r /\
            (forall a, in_cols a cols -> sget a r = sget a src) /\
            (forall a, ~ in_cols a cols -> sget a r = sget a astyle0).
Proof. exact style_row_read. Qed.
Print Assumptions C04_style_row_read.
Theorem C04_style_row_roundtrip : forall s attrs, style_ok s -> ~ In AName attrs ->
  exists r, style_from_string (style_string s (AName :: attrs)) (map sattr_name (AName :: attrs)) = Ok r /\
            sget AName r = sget AName s /\
            (forall a, In a attrs -> sget a r = sget a s) /\
            (forall a, a <> AName -> ~ In a attrs -> sget a r = sget a astyle0).
Proof. exact style_row_roundtrip. Qed.
Print Assumptions C04_style_row_roundtrip.
Theorem C04_style_row_roundtrip_full : forall s attrs, style_ok s -> ~ In AName attrs ->
  (forall a, a <> AName -> sets a s -> In a attrs) ->
  style_from_string (style_string s (AName :: attrs)) (map sattr_name (AName :: attrs)) = Ok s.
Proof. exact style_row_roundtrip_full. Qed.
Print Assumptions C04_style_row_roundtrip_full.
Theorem C04_event_row_read : forall header cols init last src,
  Forall (fun c => ~ In 44%N c) init -> Forall2 (ecol_ok src) cols (init ++ [last]) ->
  exists r, event_from_string header (join [44%N] (init ++ [last])) cols = Ok r /\ av_category r = header /\
            (forall a, in_ecols a cols -> eget a r = eget a src) /\
            (forall a, ~ in_ecols a cols -> eget a r = eget a (aevent0 header)).
Proof. exact event_row_read. Qed.
Print Assumptions C04_event_row_read.
Theorem C04_event_row_roundtrip : forall header e init lastc, event_ok e -> ~ In EText init ->
  let fmt := init ++ [lastc] in
  exists r, event_from_string header (event_string e fmt) (map eattr_name fmt) = Ok r /\ av_category r = header /\
            (forall a, In a fmt -> eget a r = ewritten a e) /\
            (forall a, ~ In a fmt -> eget a r = eget a (aevent0 header)).
Proof. exact event_row_roundtrip. Qed.
Print Assumptions C04_event_row_roundtrip.

(* ---- documents ---- *)
Theorem C04_write_read : forall d, doc_repr d ->
  exists data, write_ssa d (style_keys d) = Ok data /\ read_ssa data = Ok (canon_doc d).
Proof. exact write_read. Qed.
Print Assumptions C04_write_read.
Theorem C04_rewrite : forall d, doc_repr d ->
  exists data d', write_ssa d (style_keys d) = Ok data /\ read_ssa data = Ok d' /\ write_ssa d' (style_keys d') = Ok data.
Proof. exact rewrite_same. Qed.
Print Assumptions C04_rewrite.

(* the same for every order in which the runtime may range over the styles map *)
Theorem C04_write_read_any_order : forall d order, doc_repr d -> Permutation order (style_keys d) ->
  exists data, write_ssa d order = Ok data /\ read_ssa data = Ok (canon_doc d).
Proof. exact write_read_any_order. Qed.
Print Assumptions C04_write_read_any_order.
Theorem C04_rewrite_any_order : forall d order order', doc_repr d -> Permutation order (style_keys d) ->
  exists data d', write_ssa d order = Ok data /\ read_ssa data = Ok d' /\
                  (Permutation order' (style_keys d') -> write_ssa d' order' = Ok data).
Proof. exact rewrite_same_any_order. Qed.
Print Assumptions C04_rewrite_any_order.
Theorem C04_write_order_independent : forall d order order', Permutation order order' -> write_ssa d order = write_ssa d order'.
Proof. exact write_order_independent. Qed.
Print Assumptions C04_write_order_independent.
(* the side condition is decidable, and a document with script info, comments, two styles over all kinds of attributes,
   an event with an empty first line, consecutive override blocks, commas and a trailing backslash satisfies it *)
Theorem C04_repr_decidable : forall d, doc_reprb d = true -> doc_repr d.
Proof. exact doc_reprb_ok. Qed.
Print Assumptions C04_repr_decidable.
Example C04_example : doc_repr ex_doc.
Proof. exact ex_doc_repr. Qed.

(* ---- reading rendered documents ---- *)
(* every order (and repetition) of the script info keys, every spelling of the section names, every pair of Format lines (columns in any order, any subset, unknown names,
   any spacing around the commas), every admissible encoding of every cell: the reader returns the script info, the
   styles and, for every Dialogue row, the item its event denotes (text splitting: C04_text_lines, C04_runs; style
   look-up: C04_star_style).  Blank / junk lines, unknown sections, other event kinds, line endings and the byte-order
   mark compose with this statement through the theorems below. *)
Theorem C04_read_rendered : forall hi b keys styles he fe erows scols ecols e,
  section_hdr true hi SInfo -> info_ok b -> (forall f, In f keys) ->
  match styles with
  | Some (hs, fs, srows) => section_hdr false hs SStyles /\ format_value fs scols /\ scols <> [] /\
                            Forall (fun p : list str * astyle => style_row scols (fst p) (snd p)) srows
  | None => True
  end ->
  section_hdr false he SEvents -> format_value fe ecols -> ecols <> [] ->
  Forall (fun p : (list str * str) * aevent => event_row ecols (fst (fst p)) (snd (fst p)) (snd p)) erows ->
  let sts := match styles with Some (_, _, srows) => map snd srows | None => [] end in
  read_ssa_lines (rendered_lines hi b keys styles he fe erows) e =
  if e then Err EIO
  else Ok (mkAdoc (Some b) (styles_map sts) (map (fun ev => event_item ev (styles_map sts)) (map snd erows))).
Proof. exact read_rendered. Qed.
Print Assumptions C04_read_rendered.

(* the same with the sections in ANY order and number (events before styles, several script info sections), comment
   lines and key lines interleaved in any order inside the script info sections: the styles are looked up at the end *)
Theorem C04_read_sections : forall b secs e, info_ok b ->
  match secs with [] => True | x :: r => rsec_ok true x /\ Forall (rsec_ok false) r end ->
  comments_of (flat_map entries_of secs) = an_comments b -> (forall f, In (IK f) (flat_map entries_of secs)) ->
  let sts := flat_map styles_of secs in
  read_ssa_lines (flat_map (rsec_lines b) secs) e =
  if e then Err EIO
  else Ok (mkAdoc (Some b) (styles_map sts) (map (fun ev => event_item ev (styles_map sts)) (flat_map events_of secs))).
Proof. exact read_sections. Qed.
Print Assumptions C04_read_sections.

(* the item a Dialogue event denotes *)
Theorem C04_item : forall ev m ls seps, ls <> [] -> Forall line_ok ls ->
  av_text ev = join_seps seps (map line_string ls) ->
  event_item ev m =
  mkAitem (av_start ev) (av_end ev)
          (match av_style ev with
           | [] => None
           | n => if sm_mem n m then Some n else if sm_mem (trim_prefix star n) m then Some (trim_prefix star n) else None
           end)
          (Some (mkAevattr (av_effect ev) (av_layer ev) (av_ml ev) (av_mr ev) (av_mv ev) (av_marked ev)))
          (map (fun l => mkAline (av_name ev) (al_runs l)) ls).
Proof. exact event_item_denotes. Qed.
Print Assumptions C04_item.

(* ---- what the reader ignores ---- *)
Theorem C04_ignores_unintelligible_lines : forall l1 j l2 e, l1 <> [] -> junk j ->
  read_ssa_lines (l1 ++ j :: l2) e = read_ssa_lines (l1 ++ l2) e.
Proof. exact read_ignores_junk. Qed.
Print Assumptions C04_ignores_unintelligible_lines.
Theorem C04_ignores_unknown_sections : forall l1 u body l2 e, l1 <> [] -> unknown_hdr u -> Forall not_hdr body ->
  (l2 = [] \/ exists h r, l2 = h :: r /\ is_hdr h) ->
  read_ssa_lines (l1 ++ u :: body ++ l2) e = read_ssa_lines (l1 ++ l2) e.
Proof. exact read_ignores_unknown_section. Qed.
Print Assumptions C04_ignores_unknown_sections.
Theorem C04_ignores_other_events : forall l1 row l2 e ev, l1 <> [] -> is_dialogue ev = false ->
  (forall s, ssa_run rstate0 true l1 = Ok s ->
             ssa_step s false row = Ok (mkRstate (rs_sect s) (rs_fmt s) (rs_info s) (rs_styles s) (rs_events s ++ [ev]))) ->
  read_ssa_lines (l1 ++ row :: l2) e = read_ssa_lines (l1 ++ l2) e.
Proof. exact read_ignores_other_events. Qed.
Print Assumptions C04_ignores_other_events.
(* line endings and byte-order mark *)
Theorem C04_eol : forall e ls, eol_ok e -> Forall brkfree ls -> read_ssa (render_eol e ls) = read_ssa_lines ls false.
Proof. exact read_eol. Qed.
Print Assumptions C04_eol.
Theorem C04_bom : forall l ls e, l <> [] -> trim_space l = l -> prefix bom3 l = None ->
  read_ssa_lines ((bom3 ++ l) :: ls) e = read_ssa_lines (l :: ls) e.
Proof. exact read_bom. Qed.
Print Assumptions C04_bom.

(* ---- totality ---- *)
Theorem C04_reader_total : forall ls e p, read_ssa_lines ls e <> Panic p.
Proof. exact read_no_panic. Qed.
Print Assumptions C04_reader_total.
Theorem C04_writer_total : forall d order p, write_ssa d order <> Panic p.
Proof. exact write_no_panic. Qed.
Print Assumptions C04_writer_total.

(* ---- style references ---- *)
Theorem C04_star_style : forall e styles n, av_style e = star ++ n -> n <> [] ->
  sm_mem (star ++ n) styles = false -> sm_mem n styles = true -> ai_style (event_item e styles) = Some n.
Proof. exact star_style_resolves. Qed.
Print Assumptions C04_star_style.
Theorem C04_star_default : forall e, exists e', event_cell (eattr_name EStyle) n_star_default e = Ok e' /\ av_style e' = n_default.
Proof. exact star_default_cell. Qed.
Print Assumptions C04_star_default.

(* ---- writer output as a rendering: the reader-independent denotation of what the writer emits ----
   The renderer / denotation pair of C04_read_rendered decodes writer output.  For every representable document d the
   bytes written are, with LF line ends, the CANONICAL RENDERING of d (Proofs/SsaWriteRender.v):
     rendered_lines "[Script Info]" (canon_info d) all_fkeys (w_styles d) "[Events]" (w_fe d) (w_erows d)
   with one empty line before the styles header (when d has styles) and one before the events header (spaced_lines;
   blank_before l = [] :: l for a non-empty segment l), where
     w_styles d = None when d has no styles, else Some (the "[V4 Styles]" / "[V4+ Styles]" header, the names of
                  style_fmt (doc_styles d) joined by ", ", for every style st the cells ay_name st :: map (cell_of st) attrs
                  paired with st itself)  (style_fmt (doc_styles d) = AName :: attrs),
     w_fe d     = the names of event_format (is_v4plus d) joined by ", ",
     w_erows d  = for every item i, with e = event_of_item i, the nine cells before the text, the text cell, paired
                  with the event event_canon (is_v4plus d) e,
   and this rendering satisfies EVERY hypothesis of C04_read_rendered (rendering_ok is the conjunction of those
   hypotheses, C04_rendering_ok_reads is C04_read_rendered under that packaging) with scols / ecols the names of the two
   formats.  Hence (C04_write_denotes) the bytes are decoded -- by line splitting (lines_render), removal of the two
   empty lines (C04_ignores_unintelligible_lines only: C04_read_spaced) and C04_read_rendered -- to the document the
   rendering denotes, w_denotation d; this derivation does not use C04_write_read.  C04_write_denotes_agrees: that
   document is canon_doc d, the result of the block-by-block route of C04_write_read. *)
Theorem C04_read_spaced : forall hi b keys styles he fe erows e,
  read_ssa_lines (spaced_lines hi b keys styles he fe erows) e = read_ssa_lines (rendered_lines hi b keys styles he fe erows) e.
Proof. exact read_spaced. Qed.
Print Assumptions C04_read_spaced.
Example C04_rendering_ok_reads : forall hi b keys styles he fe erows scols ecols,
  rendering_ok hi b keys styles he fe erows scols ecols ->
  read_ssa_lines (rendered_lines hi b keys styles he fe erows) false = Ok (rendering_denotes b styles erows).
Proof. exact read_rendered_ok. Qed.
Print Assumptions C04_rendering_ok_reads.
(* the lines of the writer (doc_lines, C04's write_lines) are the spaced canonical rendering: for every document *)
Theorem C04_write_lines_rendering : forall d,
  doc_lines d = spaced_lines n_script_info_hdr (canon_info d) all_fkeys (w_styles d) n_events_hdr (w_fe d) (w_erows d).
Proof. exact write_is_rendering. Qed.
Print Assumptions C04_write_lines_rendering.
Theorem C04_write_is_rendering : forall d, doc_repr d ->
  write_ssa d (style_keys d) =
    Ok (render_eol [10%N] (spaced_lines n_script_info_hdr (canon_info d) all_fkeys (w_styles d) n_events_hdr (w_fe d) (w_erows d))) /\
  rendering_ok n_script_info_hdr (canon_info d) all_fkeys (w_styles d) n_events_hdr (w_fe d) (w_erows d) (w_scols d) (w_ecols d).
Proof. exact write_is_rendering_full. Qed.
Print Assumptions C04_write_is_rendering.
Theorem C04_write_denotes : forall d, doc_repr d ->
  exists data, write_ssa d (style_keys d) = Ok data /\
    read_ssa data = Ok (mkAdoc (Some (canon_info d)) (styles_map (doc_styles d))
                          (map (fun ev => event_item ev (styles_map (doc_styles d)))
                               (map (fun i => event_canon (is_v4plus d) (event_of_item i)) (ad_items d)))).
Proof. exact write_denotes. Qed.
Print Assumptions C04_write_denotes.
Theorem C04_write_denotes_agrees : forall d, doc_repr d ->
  mkAdoc (Some (canon_info d)) (styles_map (doc_styles d))
         (map (fun ev => event_item ev (styles_map (doc_styles d)))
              (map (fun i => event_canon (is_v4plus d) (event_of_item i)) (ad_items d))) = canon_doc d.
Proof. exact write_denotes_canon. Qed.
Print Assumptions C04_write_denotes_agrees.
Example C04_write_denotes_example : exists data, write_ssa ex_doc (style_keys ex_doc) = Ok data /\ read_ssa data = Ok (w_denotation ex_doc).
Proof. exact (write_denotes ex_doc ex_doc_repr). Qed.

(* ---- the second write is a fixpoint on the reader's image too (Proofs/SsaRewrite.v) ----
   C04_rewrite starts from a document whose styles map is listed in sorted order (doc_repr); the reader lists the styles
   in document order, so C04_rewrite did not apply to what the reader returns for an arbitrary rendering.
   C04_reader_styles_map: what the reader's styles map is for ANY list of style rows: one entry per distinct name (a
   repeated name overwrites in place), each under its own name, each one of the rows.
   C04_rewrite_image: for every document representable up to the listing order of its styles map (image_repr = doc_repr
   without sortedness) and every iteration order of the map at both writes: write, read, write again -> the same bytes.
   C04_rewrite_rendered: for EVERY rendering covered by C04_read_rendered with at least one Dialogue row, representable
   styles none of which is named *Default, and events whose values are in range, comma / break free, and whose text is
   some rendering (each break spelled \N or \n) of representable lines: read, write what was read (any map order), read,
   write again (any map order) -> the second write is byte-equal to the first.
   C04_rewrite_needs_no_star_default_style: the condition on *Default is needed (computed: a style literally named
   *Default referenced as **Default gives a second write with an empty Style cell), while the ordinary *-prefixed
   reference is a fixpoint. *)
Theorem C04_reader_styles_map : forall sts,
  styles_map sts = named_styles (styles_list sts) /\ NoDup (map ay_name (styles_list sts)) /\
  (forall st, In st (styles_list sts) -> In st sts).
Proof. exact styles_map_named. Qed.
Print Assumptions C04_reader_styles_map.
Theorem C04_rewrite_image : forall d order, image_repr d -> Permutation order (style_keys d) ->
  exists data d', write_ssa d order = Ok data /\ read_ssa data = Ok d' /\
                  (forall order', Permutation order' (style_keys d') -> write_ssa d' order' = Ok data).
Proof. exact rewrite_image. Qed.
Print Assumptions C04_rewrite_image.
Theorem C04_rewrite_rendered : forall hi b keys styles he fe erows scols ecols,
  section_hdr true hi SInfo -> info_ok b -> (forall f, In f keys) ->
  match styles with
  | Some (hs, fs, srows) => section_hdr false hs SStyles /\ format_value fs scols /\ scols <> [] /\
                            Forall (fun p : list str * astyle => style_row scols (fst p) (snd p)) srows
  | None => True
  end ->
  section_hdr false he SEvents -> format_value fe ecols -> ecols <> [] ->
  Forall (fun p : (list str * str) * aevent => event_row ecols (fst (fst p)) (snd (fst p)) (snd p)) erows ->
  let sts := match styles with Some (_, _, srows) => map snd srows | None => [] end in
  erows <> [] -> Forall style_repr sts -> ~ In n_star_default (map ay_name sts) ->
  Forall event_image_ok (map snd erows) ->
  exists d, read_ssa_lines (rendered_lines hi b keys styles he fe erows) false = Ok d /\
    forall order, Permutation order (style_keys d) ->
    exists data d', write_ssa d order = Ok data /\ read_ssa data = Ok d' /\
                    (forall order', Permutation order' (style_keys d') -> write_ssa d' order' = Ok data).
Proof. exact rewrite_rendered_events. Qed.
Print Assumptions C04_rewrite_rendered.
(* the same for every value of the shape the reading theorems return (C04_read_rendered, C04_read_sections, ...):
   rendered_doc b sts evs = mkAdoc (Some b) (styles_map sts) (map (fun ev => event_item ev (styles_map sts)) evs) *)
Theorem C04_rewrite_reader_image : forall b sts evs order, info_ok b -> Forall style_repr sts ->
  ~ In n_star_default (map ay_name sts) -> evs <> [] -> Forall event_image_ok evs ->
  Permutation order (style_keys (rendered_doc b sts evs)) ->
  exists data d', write_ssa (rendered_doc b sts evs) order = Ok data /\ read_ssa data = Ok d' /\
                  (forall order', Permutation order' (style_keys d') -> write_ssa d' order' = Ok data).
Proof. exact rewrite_reader_image. Qed.
Print Assumptions C04_rewrite_reader_image.
(* the item an event denotes is representable under conditions on the event alone *)
Theorem C04_event_item_representable : forall ev m, event_image_ok ev -> ~ In [] (map fst m) -> ~ In n_star_default (map fst m) ->
  item_repr (map fst m) (event_item ev m).
Proof. exact event_item_repr. Qed.
Print Assumptions C04_event_item_representable.
Example C04_rewrite_needs_no_star_default_style :
  ssa_differ (ssa_wr (read_ssa_lines sd_doc false)) (ssa_wr (ssa_rd (ssa_wr (read_ssa_lines sd_doc false)))) = true /\
  ssa_differ (ssa_wr (read_ssa_lines ok_doc false)) (ssa_wr (ssa_rd (ssa_wr (read_ssa_lines ok_doc false)))) = false /\
  (exists x, ssa_wr (read_ssa_lines ok_doc false) = Ok x).
Proof. exact rewrite_needs_no_star_default_style. Qed.

(* ---- the order argument of write_ssa ----
   order stands for the order in which the Go runtime ranges over s.Styles: every key exactly once (order_ok).  The
   statements above that hold "for all order" (C04_writer_total, C04_write_order_independent) cover these in particular;
   every statement that names the bytes written carries the hypothesis (C04_write_read_any_order, C04_rewrite_any_order,
   C04_rewrite_image, and the two below).  A list that does not enumerate the keys gives other bytes
   (C04_order_must_enumerate_the_keys: the empty list drops the styles): no execution of WriteToSSA corresponds to it. *)
Theorem C04_write_is_rendering_any_order : forall d order, doc_repr d -> order_ok d order ->
  write_ssa d order =
    Ok (render_eol [10%N] (spaced_lines n_script_info_hdr (canon_info d) all_fkeys (w_styles d) n_events_hdr (w_fe d) (w_erows d))).
Proof. exact write_is_rendering_any_order. Qed.
Print Assumptions C04_write_is_rendering_any_order.
Theorem C04_write_denotes_any_order : forall d order, doc_repr d -> order_ok d order ->
  exists data, write_ssa d order = Ok data /\ read_ssa data = Ok (w_denotation d).
Proof. exact write_denotes_any_order. Qed.
Print Assumptions C04_write_denotes_any_order.
Example C04_order_must_enumerate_the_keys : ssa_differ (write_ssa ex_doc []) (write_ssa ex_doc (style_keys ex_doc)) = true.
Proof. exact order_must_enumerate_the_keys. Qed.

(* ---- fuel ----
   The text theorems (C04_runs, C04_text_lines, C04_item) go through line_runs, i.e. through
   segments s = seg_fuel (S (length s)) s [], a fuelled transcription of the scan for override blocks whose out-of-fuel
   value looks like an ordinary result.  The fuel never runs out and the value does not depend on it: every larger fuel
   gives the same result (seg_fuel_indep), and segments satisfies the fuel-free equations of the loop (seg_c_cons), each
   recursive call on a strictly shorter string. *)
Theorem C04_segments_fuel_independent : forall fuel s cur, (S (length s) <= fuel)%nat ->
  seg_fuel fuel s cur = seg_fuel (S (length s)) s cur.
Proof. exact seg_fuel_indep. Qed.
Print Assumptions C04_segments_fuel_independent.
Theorem C04_segments_equation : forall c r cur,
  seg_c (c :: r) cur =
  if (c =? LB)%N then
    match match_block r with
    | Some (blk, rest) => let (t, more) := seg_c rest [] in (rev cur, (blk, t) :: more)
    | None => seg_c r (c :: cur)
    end
  else seg_c r (c :: cur).
Proof. exact seg_c_cons. Qed.
Print Assumptions C04_segments_equation.
Theorem C04_segments_is_seg_c : forall s, segments s = seg_c s [].
Proof. exact segments_c. Qed.
(* ---- the checked transcription (Model/SsaC.v, Proofs/SsaChk.v) ----
   The correspondence suites of C04 run the CHECKED transcription of ssa.go, in which every run-time panic site of the
   Go code is an explicit Panic behind the code's own guard (table: notes/C04.md, Real panic sites (C08) -- ssa.go).
   It is equal to the model on which every theorem above is stated -- the reader for every value of the options (the
   two callbacks, nil or not), the writer for every document and map order -- so the theorems above are about the
   functions that are compared with the library, and reader totality has content. *)
Theorem C04_checked_reader_agrees : forall o ls e, read_ssa_lines_c o ls e = read_ssa_lines ls e.
Proof. exact read_ssa_lines_c_ok. Qed.
Print Assumptions C04_checked_reader_agrees.
Theorem C04_checked_writer_agrees : forall d order, write_ssa_c d order = write_ssa d order.
Proof. exact write_ssa_c_ok. Qed.
Print Assumptions C04_checked_writer_agrees.
Theorem C04_checked_reader_total : forall o ls e p, read_ssa_lines_c o ls e <> Panic p.
Proof. exact read_ssa_lines_c_no_panic. Qed.
Print Assumptions C04_checked_reader_total.
Theorem C04_checked_writer_total : forall d order p, write_ssa_c d order <> Panic p.
Proof. exact write_ssa_c_no_panic. Qed.
Print Assumptions C04_checked_writer_total.
(* ---- cell encodings stated without the decoders (audit items c, d, f, g) ----
   The hypotheses of the reading theorems above (col_ok / cell_denotes, ecol_ok / decode_ecell, style_row, event_row) are
   phrased with the reader's own field decoders.  Proofs/SsaCells.v, SsaCellsTime.v and SsaCellsRows.v give, for every
   kind of cell, the explicit set of spellings that denote a value -- no decoder in the definitions -- and prove it
   equivalent to the decoder-based predicate, for every cell and every value (no side condition):
     integers   int_spelling v cell : optional + or -, one or more digits 0 .. 9 (leading zeros allowed), positional
                value, int64 range                                                   <-> atoi cell = Some v
     booleans   bool_spelling true cell : an integer other than zero; bool_spelling false cell : every other cell
                                                                                     <-> parse_bool cell = b
     colours    colour_spelling o cell : the empty cell (None); or ampersand, H and a hexadecimal integer (optional
                sign, digits 0-9 A-F a-f in any mixture of case, one or more digits, int64 range); or a decimal
                integer; the low 32 bits of the two's complement value are alpha, blue, green, red
                                                                                     <-> parse_color cell = Ok o
     numbers    float_spelling z cell (z thousandths): optional sign, digits, optionally a dot and digits of which all
                after the third are zeros, at least one digit, below 10^12, not the negative zero: the FAITHFUL
                DOMAIN of the float model                                            <-> parse_float3 cell = Some z
     times      time_spelling t cell : M:S, :M:S or H:M:S, each field an integer of any width with optional white
                space around it, optionally a dot and an integer of at most three bytes counting 10^(3 - bytes)
                milliseconds; the sum reduced to int64 modulo 2^64                   <-> parse_time cell = Some t
     text       trimmed core cell : cell is core with white space (ASCII 9-13, 32, the listed UTF-8 sequences) on either
                side and core neither begins nor ends with a white-space character  <-> trim_space cell = core
   and cell_denotes / decode_ecell / style_row / event_row are equivalent to their spelled counterparts.  Every float
   cell a reading theorem quantifies over is empty or inside the faithful domain (C04_float_cells_in_domain,
   C04_style_row_floats_in_domain); outside it the model answers Err EOther (C04_float_outside_domain), which the
   driver reports as NS.  notes/C04.md tabulates what the library does on each spelling, inside and outside. *)
From Coq Require Import Strings.String.
From Astisub Require Import Proofs.SsaCells Proofs.SsaCellsTime Proofs.SsaCellsRows.

Theorem C04_int_spellings : forall v cell, int_spelling v cell <-> atoi cell = Some v.
Proof. exact int_spelling_iff. Qed.
Print Assumptions C04_int_spellings.
Theorem C04_int_spellings_closed_form : forall (neg : bool) sg (k : nat) (n : N),
  sign_of sg neg -> int64 (signed neg n) -> int_spelling (signed neg n) (sg ++ repeat 48%N k ++ itoa n).
Proof. exact int_spelling_canonical. Qed.
Print Assumptions C04_int_spellings_closed_form.
Theorem C04_bool_spellings : forall b cell, bool_spelling b cell <-> parse_bool cell = b.
Proof. exact bool_spelling_iff. Qed.
Print Assumptions C04_bool_spellings.
Theorem C04_colour_spellings : forall o cell, colour_spelling o cell <-> parse_color cell = Ok o.
Proof. exact colour_spelling_iff. Qed.
Print Assumptions C04_colour_spellings.
(* audit item c: hexadecimal digits of either case mixed at will, any number of digits (six: no alpha byte) *)
Theorem C04_colour_hex_any_case : forall c ds, color_ok c -> ds <> [] -> Forall hex_char ds ->
  Z.of_N (hex_value ds) = color_value c -> parse_color (38%N :: 72%N :: ds) = Ok (Some c).
Proof. exact colour_hex_any_case. Qed.
Print Assumptions C04_colour_hex_any_case.
Theorem C04_colour_decimal_any : forall c (k : nat) sg, color_ok c -> sign_of sg false ->
  parse_color (sg ++ repeat 48%N k ++ itoa (Z.to_N (color_value c))) = Ok (Some c).
Proof. exact colour_decimal_any. Qed.
Print Assumptions C04_colour_decimal_any.
Theorem C04_number_spellings : forall z cell, float_spelling z cell <-> parse_float3 cell = Some z.
Proof. exact float_spelling_iff. Qed.
Print Assumptions C04_number_spellings.
Theorem C04_timer_spellings : forall z content, timer_spelling z content <-> parse_float3 (comma_to_dot content) = Some z.
Proof. exact timer_spelling_iff. Qed.
Print Assumptions C04_timer_spellings.
Theorem C04_time_spellings : forall t cell, time_spelling t cell <-> parse_time cell = Some t.
Proof. exact time_spelling_iff. Qed.
Print Assumptions C04_time_spellings.
(* audit item d: hours in any number of digits, with any number of leading zeros, up to the int64 range *)
Theorem C04_time_any_hours : forall (k : nat) h m s c, (0 <= h)%Z -> (0 <= m < 60)%Z -> (0 <= s < 60)%Z -> (0 <= c < 100)%Z ->
  (h * hour_ns + m * minute_ns + s * second_ns + c * 10000000 <= max_int64)%Z ->
  parse_time ((repeat 48%N k ++ itoa_z h) ++ [58%N] ++ two m ++ [58%N] ++ two s ++ [46%N] ++ two c) =
  Some (h * hour_ns + m * minute_ns + s * second_ns + c * 10000000)%Z.
Proof. exact parse_time_hh_mm_ss_cc. Qed.
Print Assumptions C04_time_any_hours.
Example C04_time_two_digit_hours : forall h m s c, (0 <= h < 100)%Z -> (0 <= m < 60)%Z -> (0 <= s < 60)%Z -> (0 <= c < 100)%Z ->
  parse_time (two h ++ [58%N] ++ two m ++ [58%N] ++ two s ++ [46%N] ++ two c) =
  Some (h * hour_ns + m * minute_ns + s * second_ns + c * 10000000)%Z.
Proof. exact parse_time_two_hours. Qed.
Print Assumptions C04_time_two_digit_hours.
Theorem C04_trimmed : forall core cell, trimmed core cell <-> trim_space cell = core.
Proof. exact trimmed_iff. Qed.
Print Assumptions C04_trimmed.
Theorem C04_cell_denotes_spellings : forall a src cell, cell_denotes a src cell <-> cell_spelled a src cell.
Proof. exact cell_denotes_spelling. Qed.
Print Assumptions C04_cell_denotes_spellings.
Theorem C04_event_cell_spellings : forall a cell v, decode_ecell a cell = Some v <-> ecell_spelled a v cell.
Proof. exact decode_ecell_spelling. Qed.
Print Assumptions C04_event_cell_spellings.
Theorem C04_style_row_spellings : forall cols cells st, style_row cols cells st <-> style_row_spelled cols cells st.
Proof. exact style_row_spelling. Qed.
Print Assumptions C04_style_row_spellings.
Theorem C04_event_row_spellings : forall cols init last ev, event_row cols init last ev <-> event_row_spelled cols init last ev.
Proof. exact event_row_spelling. Qed.
Print Assumptions C04_event_row_spellings.
(* audit item g *)
Example C04_float_cells_in_domain : forall x src cell, cell_denotes (AF x) src cell -> cell = [] \/ float_cell_in_domain cell.
Proof. exact cell_denotes_float_in_domain. Qed.
Print Assumptions C04_float_cells_in_domain.
Theorem C04_style_row_floats_in_domain : forall cols cells st, style_row cols cells st -> Forall2 float_col_in_domain cols cells.
Proof. exact style_row_floats_in_domain. Qed.
Print Assumptions C04_style_row_floats_in_domain.
Theorem C04_float_outside_domain : forall attr x cell s, sattr_of_name attr = Some (AF x) -> cell <> [] ->
  ~ float_cell_in_domain cell -> style_cell attr cell s = Err EOther.
Proof. exact style_cell_float_outside. Qed.
Print Assumptions C04_float_outside_domain.

Example C04_colour_mixed_case : parse_color (s2l "&H00ffFF"%string) = Ok (Some (mkAcolor 0 0 255 255)).
Proof. vm_compute. reflexivity. Qed.
Example C04_colour_six_digits : parse_color (s2l "&HFFFFFF"%string) = Ok (Some (mkAcolor 0 255 255 255)).
Proof. vm_compute. reflexivity. Qed.
Example C04_colour_above_32_bits : parse_color (s2l "&H123456789"%string) = Ok (Some (mkAcolor 35 69 103 137)).
Proof. vm_compute. reflexivity. Qed.
Example C04_time_two_digit_hours_example : parse_time (s2l "12:34:56.78"%string) = Some 45296780000000%Z.
Proof. vm_compute. reflexivity. Qed.
Example C04_time_three_digit_hours_example : parse_time (s2l "100:00:00.00"%string) = Some 360000000000000%Z.
Proof. vm_compute. reflexivity. Qed.
Example C04_number_outside_domain : parse_float3 (s2l "20.1234"%string) = None /\ parse_float3 (s2l "1e2"%string) = None.
Proof. vm_compute. split; reflexivity. Qed.
(* ---- reading, every line the format tolerates (Proofs/SsaReadAll.v) ----
   C04_read_sections covers documents made of section headers, "; c" comments and known key lines in script info
   sections, one Format line per styles / events section and Style / Dialogue rows.  Real ASS files also contain, and
   the reader tolerates:
   * unknown keys in [Script Info] (ScaledBorderAndShadow: yes, YCbCr Matrix: TV.601, ...).  unknown_key_line l: the
     trimmed line is not bracketed, does not start with ';' or ':', contains a ':' (kv_trimmed) and the trimmed text
     before its first ':' (kv_header) is none of info_key_names -- the 11 text keys, PlayDepth / PlayResX / PlayResY
     and Timer, i.e. the case labels of ssaScriptInfo.parse.  The value may be empty or contain colons.  Such a line
     is a no-op in a script info section (C04_unknown_info_key_ignored); C04_info_key_names_exact: the list is exact
     (a header in the list is one of the modelled keys, so it is looked at).
   * lines before the first section header: comment lines count as script info comments (PC), every other line that
     is not a section header is skipped (PS: unintelligible lines, "key: value" lines, rows).  Only the very first
     line of the input is looked at without its byte-order mark (adoc_ok: flag true for the first line only).
   * in styles / events sections (bline): comment lines (LComment, in any spelling ";c", "; c", ";  c  "; they are
     appended to the script info comments in document order across all sections), unintelligible lines (LJunk),
     several Format lines (LFormat v cols: format_value v cols; the columns in force after it are
     overlay cols previous = cols ++ skipn (length cols) previous, as in the Go map that is only emptied by a section
     header), rows under ANY header but Format (LStyle h: a styles section does not look at the header; LEvent h: an
     event of category h), each valid for the columns in force at that point (style_row / event_row_h) with cols <> []
     (without a Format line before, the reader fails: no format provided).  Events whose category is not Dialogue
     are parsed -- so they must be well formed -- and dropped at the end: the items are those of
     filter is_dialogue (all events), which C04_dialogue_rows identifies with the rows whose header is Dialogue.
   * sections of another name (AUnknown): every line up to the next header, comments included, is skipped.
   Side conditions as for C04_read_sections: info_ok b; the comment lines of the whole document are b's comments in
   order; every key occurs (a key b has no value for contributes no line).  C04_read_sections_again: C04_read_sections
   is the instance pre = [], secs = map embed secs (embed_lines / embed_ok: same lines, same hypotheses). *)
Theorem C04_unknown_info_key_ignored : forall s l, rs_sect s = SInfo -> unknown_key_line l -> ssa_step s false l = Ok s.
Proof. exact unknown_key_step. Qed.
Print Assumptions C04_unknown_info_key_ignored.
Theorem C04_unknown_info_key_parse : forall i h c, ~ In h info_key_names -> info_parse i h c = Ok i.
Proof. exact info_parse_unknown. Qed.
Print Assumptions C04_unknown_info_key_parse.
Theorem C04_info_key_names_exact : forall h, In h info_key_names ->
  (exists k, h = ikey_name k) \/ (exists k, h = nkey_name k) \/ h = n_timer.
Proof. exact info_key_names_known. Qed.
Print Assumptions C04_info_key_names_exact.
Theorem C04_read_sections_all : forall b pre secs e, info_ok b -> adoc_ok pre secs ->
  comments_of (adoc_entries pre secs) = an_comments b -> (forall f, In (IK f) (adoc_entries pre secs)) ->
  let sts := flat_map asec_styles secs in
  read_ssa_lines (adoc_lines b pre secs) e =
  if e then Err EIO
  else Ok (mkAdoc (Some b) (styles_map sts)
                  (map (fun ev => event_item ev (styles_map sts)) (filter is_dialogue (flat_map asec_events secs)))).
Proof. exact read_sections_all. Qed.
Print Assumptions C04_read_sections_all.
Theorem C04_dialogue_rows : forall pre secs, adoc_ok pre secs ->
  filter is_dialogue (flat_map asec_events secs) = flat_map asec_dialogues secs.
Proof. exact dialogue_rows. Qed.
Print Assumptions C04_dialogue_rows.
Example C04_read_sections_again : forall b secs e, info_ok b ->
  match secs with [] => True | x :: r => rsec_ok true x /\ Forall (rsec_ok false) r end ->
  comments_of (flat_map entries_of secs) = an_comments b -> (forall f, In (IK f) (flat_map entries_of secs)) ->
  let sts := flat_map styles_of secs in
  read_ssa_lines (flat_map (rsec_lines b) secs) e =
  if e then Err EIO
  else Ok (mkAdoc (Some b) (styles_map sts) (map (fun ev => event_item ev (styles_map sts)) (flat_map events_of secs))).
Proof. exact read_sections_again. Qed.
Print Assumptions C04_read_sections_again.
(* the document z_pre / z_secs of Proofs/SsaReadAll.v, line by line:
     ; top / some junk / [Script Info] / Title: t: x / ScaledBorderAndShadow: yes / ; c / YCbCr Matrix: TV.601 /
     Video Zoom: / Audio URI: a:b: c / what is this / ;d / WrapStyle: 1 / [EVENTS] /
     Format: End,Style , Start,Nonsense,Text / Dialogue: 0:00:03.00,*Main,0:00:01.50,?,Hello, world\N{\i1}x /
     Format: Style, End   (columns in force: Style, End, Start, Nonsense, Text) /
     Dialogue: Main,0:00:05.00,0:00:04.00,?,second, line / Comment: Main,0:00:05.00,0:00:04.00,?,note /
     [Fonts] / fontname: x.ttf / ; no comment here / [v4+ styles] / Format: Bold ,Name,Whatever,  TertiaryColour, Fontsize /
     Style: -1,Main,junk,&H0000FFFF,20.5 / ; between / Foo: 0,Alt,x,,12 / no colon here
   is read as z_expected: the comments top, c, d, between; Title and WrapStyle; the styles Main and Alt; the two
   Dialogue items (1.5 s - 3 s, two lines; 4 s - 5 s), both with style Main *)
Example C04_read_sections_all_example : read_ssa_lines (adoc_lines z_info z_pre z_secs) false = Ok z_expected.
Proof. exact z_read. Qed.

(* ---- the second write after reading ANY document of C04_read_sections_all ----
   sections in any order and number, preamble, unknown script-info keys, comments / junk / several Format lines inside the
   styles and events sections, rows of other categories, unknown sections; side conditions on what the document denotes
   only (as in C04_rewrite_rendered): at least one Dialogue row, representable styles none of which is named *Default,
   Dialogue events in range and comma / break free with a text made of representable lines *)
Theorem C04_rewrite_sections_all : forall b pre secs, info_ok b -> adoc_ok pre secs ->
  comments_of (adoc_entries pre secs) = an_comments b -> (forall f, In (IK f) (adoc_entries pre secs)) ->
  let sts := flat_map asec_styles secs in
  let evs := filter is_dialogue (flat_map asec_events secs) in
  Forall style_repr sts -> ~ In n_star_default (map ay_name sts) -> evs <> [] -> Forall event_image_ok evs ->
  exists d, read_ssa_lines (adoc_lines b pre secs) false = Ok d /\
    forall order, Permutation order (style_keys d) ->
    exists data d', write_ssa d order = Ok data /\ read_ssa data = Ok d' /\
                    (forall order', Permutation order' (style_keys d') -> write_ssa d' order' = Ok data).
Proof. exact rewrite_sections_all. Qed.
Print Assumptions C04_rewrite_sections_all.

(* ---- CORRECTION to the header of this file (second audit, N7): what is compared outside the faithful domain ----
   The header says that ParseFloat inputs outside the model's domain "are answered Err EOther and compared by result class
   only".  What the harness really compares there (harness/core.go, observations whose model answer starts with NS) is
   WEAKER: only whether the call PANICS -- model class Panic against a panic of the library.  The Ok / Err distinction is not
   compared, and must not be: the model is not faithful there (witness: the style row [Style: s,12.3456] -- Go accepts it,
   storing 12.3456; the model answers Err EOther).  So outside the domain nothing is claimed about the library beyond
   "no panic" (C08); inside it values are compared exactly.  The domain itself is explicit: C04_float_cells_in_domain,
   C04_number_spellings (every float cell a theorem quantifies over lies inside). *)

(* ---- second audit, item (i)10: instances are Examples ----
   The following statements are instances or repackagings of general theorems of this file and are therefore stated as
   Examples (they keep their names; they are not counted as theorems of the property):
   C04_colour_written, C04_colour_hex_upper, C04_colour_decimal (instances of C04_colour_spellings / C04_colour_hex_any_case /
   C04_colour_decimal_any); C04_time_one_digit_hour, C04_time_two_digit_hours (instances of C04_time_any_hours);
   C04_rendering_ok_reads (C04_read_rendered under the packaging rendering_ok); C04_read_sections_again (the statement of
   C04_read_sections re-derived from C04_read_sections_all: a consistency check); C04_float_cells_in_domain (the one-cell
   case of C04_style_row_floats_in_domain). *)
(* ---- the scanner's line limit (second audit, item N3; Proofs/LineBound.v, Proofs/LineBoundSsa.v) ----
   The document theorems above are stated on the unbounded line splitter (read_ssa data = read_ssa_lines (lines data) false;
   "for ALL values (no size bound)").  The real reader takes its lines from a bufio.Scanner with the default buffer: a line of
   65536 bytes or more makes ReadFromSSA fail with bufio.ErrTooLong -- and an event is ONE line: "Dialogue: ", the cells,
   and the whole text with its line breaks spelled \N.  A document whose one event has 65484 letters of text (a row of 65536
   bytes) satisfies doc_repr; the library writes it and cannot read it back, so C04_write_read(_any_order), C04_rewrite*,
   C04_write_denotes, C04_eol -- and C04_read_rendered, C04_read_sections(_all) once their lines are taken from bytes -- are
   true of the library only below that size.  The statements that are true of the library carry the line bound; they are
   about read_ssa_lim max data counts = the reader over the limit-aware scanner of C17 (buffer of max bytes -- the real value
   is max_scan_token = 65536 --, delivery schedule counts), for EVERY max and EVERY schedule (lines_within: every line two
   bytes shorter than the buffer, the bound of C17_readers_within_limit, enough for all three line ends; lines_within_lf: one
   byte shorter, exact for the LF-terminated bytes of the writer; line_beyond_lf: some line of max bytes or more):
   C04_write_read_within_limit, C04_write_read_any_order_within_limit   the round trip, bound on the written bytes;
   C04_write_read_exact_limit       the writer's bytes are read back when no line of doc_lines d has max bytes or more, and
                                    REFUSED (an error, never a shorter document) when one has;
   C04_rewrite_within_limit, C04_rewrite_any_order_within_limit   write, read under the limit, write again: the same bytes
                                    (hence read under the limit exactly as the first file);
   C04_read_rendered_within_limit, C04_read_sections_all_within_limit, C04_eol_within_limit   every rendering given as bytes,
                                    every line end (C04_eol_within_limit transports every line-level theorem of this file);
   C04_written_lines_within_limit, C04_event_rows_within_limit, C04_event_row_length   the bound on doc_lines d block by block;
                                    an event row has at most 10 + the cell lengths + one comma per cell bytes;
   C04_refused_beyond_limit         the refusal without representability;
   C04_line_bound_sharp             one event with n letters of text (row = 52 + n bytes; representable for every n > 0): read
                                    back iff 52 + n + 1 <= max, for every max >= 81 and every schedule;
   C04_needs_line_bound             the same by computation on a buffer of 128 bytes, with the error returned (EIO); 75 letters
                                    pass with LF and fail once the lines end in CR LF;
   C04_real_line_bound              the real constant: a row of 65535 bytes is read back, one of 65536 bytes refused, under
                                    every schedule, while the document with the 65536-byte row satisfies doc_repr.
   Replayed on the library by the harness suite ssa.linebound (rows of 65533 .. 65537 bytes). *)
From Astisub Require Import Kit.ScanLim Proofs.ScanLimProofs Proofs.LineBound Proofs.LineBoundSsa.

Theorem C04_write_read_within_limit : forall (max : nat) d, (0 < max)%nat -> doc_repr d ->
  forall data, write_ssa d (style_keys d) = Ok data -> lines_within max (lines data) ->
  forall counts, read_ssa_lim max data counts = Ok (canon_doc d).
Proof. exact write_read_ssa_within. Qed.
Print Assumptions C04_write_read_within_limit.

Theorem C04_write_read_any_order_within_limit : forall (max : nat) d order, (0 < max)%nat -> doc_repr d ->
  Permutation order (style_keys d) ->
  forall data, write_ssa d order = Ok data -> lines_within max (lines data) ->
  forall counts, read_ssa_lim max data counts = Ok (canon_doc d).
Proof. exact write_read_ssa_any_order_within. Qed.
Print Assumptions C04_write_read_any_order_within_limit.

Theorem C04_write_read_exact_limit : forall (max : nat) d, (0 < max)%nat -> doc_repr d ->
  exists data, write_ssa d (style_keys d) = Ok data /\
    (lines_within_lf max (doc_lines d) -> forall counts, read_ssa_lim max data counts = Ok (canon_doc d)) /\
    (line_beyond_lf max (doc_lines d) -> forall counts, exists k, read_ssa_lim max data counts = Err k).
Proof. exact write_read_ssa_exact. Qed.
Print Assumptions C04_write_read_exact_limit.

Theorem C04_rewrite_within_limit : forall (max : nat) d, (0 < max)%nat -> doc_repr d -> lines_within_lf max (doc_lines d) ->
  exists data d', write_ssa d (style_keys d) = Ok data /\
                  (forall counts, read_ssa_lim max data counts = Ok d') /\
                  write_ssa d' (style_keys d') = Ok data.
Proof. exact rewrite_ssa_within. Qed.
Print Assumptions C04_rewrite_within_limit.

Theorem C04_rewrite_any_order_within_limit : forall (max : nat) d order, (0 < max)%nat -> doc_repr d ->
  Permutation order (style_keys d) -> lines_within_lf max (doc_lines d) ->
  exists data d', write_ssa d order = Ok data /\
                  (forall counts, read_ssa_lim max data counts = Ok d') /\
                  (forall order', Permutation order' (style_keys d') -> write_ssa d' order' = Ok data).
Proof. exact rewrite_ssa_any_order_within. Qed.
Print Assumptions C04_rewrite_any_order_within_limit.

Theorem C04_read_rendered_within_limit : forall (max : nat) e hi b keys styles he fe erows scols ecols,
  (0 < max)%nat -> eol_ok e ->
  section_hdr true hi SInfo -> info_ok b -> (forall f, In f keys) ->
  match styles with
  | Some (hs, fs, srows) => section_hdr false hs SStyles /\ format_value fs scols /\ scols <> [] /\
                            Forall (fun p : list str * astyle => style_row scols (fst p) (snd p)) srows
  | None => True
  end ->
  section_hdr false he SEvents -> format_value fe ecols -> ecols <> [] ->
  Forall (fun p : (list str * str) * aevent => event_row ecols (fst (fst p)) (snd (fst p)) (snd p)) erows ->
  Forall brkfree (rendered_lines hi b keys styles he fe erows) -> lines_within max (rendered_lines hi b keys styles he fe erows) ->
  let sts := match styles with Some (_, _, srows) => map snd srows | None => [] end in
  forall counts, read_ssa_lim max (render_eol e (rendered_lines hi b keys styles he fe erows)) counts =
    Ok (mkAdoc (Some b) (styles_map sts) (map (fun ev => event_item ev (styles_map sts)) (map snd erows))).
Proof. exact read_rendered_ssa_within. Qed.
Print Assumptions C04_read_rendered_within_limit.

Theorem C04_read_sections_all_within_limit : forall (max : nat) e b pre secs, (0 < max)%nat -> eol_ok e ->
  info_ok b -> adoc_ok pre secs ->
  comments_of (adoc_entries pre secs) = an_comments b -> (forall f, In (IK f) (adoc_entries pre secs)) ->
  Forall brkfree (adoc_lines b pre secs) -> lines_within max (adoc_lines b pre secs) ->
  let sts := flat_map asec_styles secs in
  forall counts, read_ssa_lim max (render_eol e (adoc_lines b pre secs)) counts =
    Ok (mkAdoc (Some b) (styles_map sts)
               (map (fun ev => event_item ev (styles_map sts)) (filter is_dialogue (flat_map asec_events secs)))).
Proof. exact read_sections_all_ssa_within. Qed.
Print Assumptions C04_read_sections_all_within_limit.

Theorem C04_eol_within_limit : forall (max : nat) e (ls : list str) counts, (0 < max)%nat -> eol_ok e ->
  Forall brkfree ls -> lines_within max ls -> read_ssa_lim max (render_eol e ls) counts = read_ssa_lines ls false.
Proof. exact read_ssa_lim_eol. Qed.
Print Assumptions C04_eol_within_limit.

Theorem C04_written_lines_within_limit : forall (max : nat) d, lines_within max (info_lines (canon_info d)) ->
  (ad_styles d = [] \/ lines_within max (styles_lines (is_v4plus d) (doc_styles d))) ->
  lines_within max (events_lines (is_v4plus d) (ad_items d)) -> lines_within max (doc_lines d).
Proof. exact ssa_doc_lines_within. Qed.
Print Assumptions C04_written_lines_within_limit.

Theorem C04_event_row_length : forall v4p i,
  (List.length (n_dialogue_pfx ++ event_string (event_of_item i) (event_format v4p)) <= ssa_row_len v4p i)%nat.
Proof. exact event_row_length. Qed.
Print Assumptions C04_event_row_length.

Theorem C04_event_rows_within_limit : forall (max : nat) v4p items, (82 <= max)%nat ->
  Forall (fun i => (ssa_row_len v4p i + 2 <= max)%nat) items -> lines_within max (events_lines v4p items).
Proof. exact ssa_events_within. Qed.
Print Assumptions C04_event_rows_within_limit.

Theorem C04_refused_beyond_limit : forall (max : nat) d, styles_repr (ad_styles d) (doc_styles d) -> ad_items d <> [] ->
  Forall brkfree (doc_lines d) -> line_beyond_lf max (doc_lines d) ->
  exists data, write_ssa d (style_keys d) = Ok data /\ forall counts, exists k, read_ssa_lim max data counts = Err k.
Proof. exact write_ssa_beyond. Qed.
Print Assumptions C04_refused_beyond_limit.

(* the bound is needed and sharp: a_adoc n = no script info, no styles, one event with one line of n letters a; the row has
   52 + n bytes, the Format line 80; representable for every n > 0, read back iff 52 + n + 1 <= max, for every buffer size
   above the Format line and every schedule *)
Theorem C04_line_bound_sharp : forall (max : nat) (n : N), (81 <= max)%nat -> (0 < n)%N ->
  doc_repr (a_adoc n) /\
  exists data, write_ssa (a_adoc n) (style_keys (a_adoc n)) = Ok data /\ read_ssa data = Ok (canon_doc (a_adoc n)) /\
    ((52 + N.to_nat n + 1 <= max)%nat -> forall counts, read_ssa_lim max data counts = Ok (canon_doc (a_adoc n))) /\
    ((max < 52 + N.to_nat n + 1)%nat -> forall counts, exists k, read_ssa_lim max data counts = Err k).
Proof. exact ssa_line_bound_sharp. Qed.
Print Assumptions C04_line_bound_sharp.

Theorem C04_real_line_bound :
  doc_repr (a_adoc 65484) /\
  (exists data, write_ssa (a_adoc 65483) (style_keys (a_adoc 65483)) = Ok data /\
     forall counts, read_ssa_lim max_scan_token data counts = Ok (canon_doc (a_adoc 65483))) /\
  (exists data, write_ssa (a_adoc 65484) (style_keys (a_adoc 65484)) = Ok data /\ read_ssa data = Ok (canon_doc (a_adoc 65484)) /\
     forall counts, exists k, read_ssa_lim max_scan_token data counts = Err k).
Proof. exact ssa_real_line_bound_full. Qed.
Print Assumptions C04_real_line_bound.

Example C04_needs_line_bound :
  map (@List.length byte) (lines (ssa_bytes (a_adoc 76))) = [13; 0; 8; 80; 128]%nat /\
  read_ssa (ssa_bytes (a_adoc 76)) = Ok (canon_doc (a_adoc 76)) /\
  read_ssa_lim 128 (ssa_bytes (a_adoc 76)) [] = Err EIO /\
  read_ssa_lim 128 (ssa_bytes (a_adoc 76)) [7%nat; 0%nat; 100%nat] = Err EIO /\
  lines_withinb 128 (lines (ssa_bytes (a_adoc 74))) = true /\
  read_ssa_lim 128 (ssa_bytes (a_adoc 74)) [7%nat; 0%nat; 100%nat] = Ok (canon_doc (a_adoc 74)) /\
  lines_withinb 128 (lines (ssa_bytes (a_adoc 75))) = false /\
  read_ssa_lim 128 (ssa_bytes (a_adoc 75)) [7%nat; 0%nat; 100%nat] = Ok (canon_doc (a_adoc 75)) /\
  read_ssa_lim 128 (render_eol [CR; LF] (lines (ssa_bytes (a_adoc 75)))) [7%nat; 0%nat; 100%nat] = Err EIO /\
  read_ssa (render_eol [CR; LF] (lines (ssa_bytes (a_adoc 75)))) = Ok (canon_doc (a_adoc 75)).
Proof. exact ssa_needs_line_bound. Qed.
Example C04_real_line_bound_computed :
  map (fun l => N.of_nat (List.length l)) (lines (ssa_bytes (a_adoc 65484))) = [13; 0; 8; 80; 65536]%N /\
  read_ssa_lim max_scan_token (ssa_bytes (a_adoc 65484)) [] = Err EIO /\
  read_ssa_lim max_scan_token (ssa_bytes (a_adoc 65484)) [max_scan_token; 0%nat] = Err EIO.
Proof. exact ssa_real_line_bound_computed. Qed.
(* ---- the model's literals are the constants of the Go source (Proofs/ConstTie.v, Gen/Consts.v regenerated from the
   repository on every run by tools/genconsts): the SSA/ASS separators, keywords and names the model spells out equal the
   NAMED package-level constants, struct tags and bidirectional-map entries of the source (literals inside function bodies and
   regexp patterns are deliberately not tied: see Proofs/ConstTie.v).  A closed boolean computed by the kernel. ---- *)
From Astisub Require Proofs.ConstTie Proofs.ConstTieSsa.
Theorem C04_constants_from_source : ConstTie.all ConstTieSsa.SsaTie.ties = true.
Proof. exact ConstTieSsa.SsaTie.consts_from_source. Qed.
Print Assumptions C04_constants_from_source.
