From Astisub Require Import Kit.Base Model.Lin.
Theorem C15_placeholder : True. Proof. exact I. Qed.
