(* C15 — Linear correction is the affine map through the two reference points.
   [lin] is the binary64 evaluation of subtitles.go (Flocq BinarySingleNaN, round to nearest even,
   no fused operations), in the code's order: a = (d2-d1)/(a2-a1); b = trunc(d1 - a*a1); t -> trunc(a*t) + b. *)
From Coq Require Import List ZArith Reals.
From Astisub Require Import Kit.Base Kit.Float64 Model.Ops Model.Lin Proofs.FracFloatProofs Proofs.LinProofs Proofs.LinListProofs.
Import ListNotations.

(* every boundary in [0,24h], reference points in [0,24h], exact slope in [1/2,2] (either orientation of
   the two points): the result is within 3 ns (< 1 us) of d1 + (t-a1)(d2-d1)/(a2-a1) *)
Theorem C15_affine : forall a1 d1 a2 d2 t : Z,
  in_day a1 -> in_day d1 -> in_day a2 -> in_day d2 -> in_day t -> a1 <> a2 -> slope_ok a1 d1 a2 d2 ->
  (Rabs (IZR (lin a1 d1 a2 d2 t) - (IZR d1 + IZR (t - a1) * IZR (d2 - d1) / IZR (a2 - a1))) <= 3)%R.
Proof. exact lin_affine. Qed.
(* a1 lands on d1 and a2 on d2 *)
Theorem C15_anchor1 : forall a1 d1 a2 d2 : Z,
  in_day a1 -> in_day d1 -> in_day a2 -> in_day d2 -> a1 <> a2 -> slope_ok a1 d1 a2 d2 ->
  (Z.abs (lin a1 d1 a2 d2 a1 - d1) <= 3)%Z.
Proof. exact lin_anchor1. Qed.
Theorem C15_anchor2 : forall a1 d1 a2 d2 : Z,
  in_day a1 -> in_day d1 -> in_day a2 -> in_day d2 -> a1 <> a2 -> slope_ok a1 d1 a2 d2 ->
  (Z.abs (lin a1 d1 a2 d2 a2 - d2) <= 3)%Z.
Proof. exact lin_anchor2. Qed.
(* the order of boundaries is preserved (the slope is positive) *)
Theorem C15_monotone : forall a1 d1 a2 d2 t t' : Z,
  in_day a1 -> in_day d1 -> in_day a2 -> in_day d2 -> in_day t -> in_day t' -> a1 <> a2 -> slope_ok a1 d1 a2 d2 ->
  (t <= t')%Z -> (lin a1 d1 a2 d2 t <= lin a1 d1 a2 d2 t')%Z.
Proof. exact lin_monotone. Qed.
(* cue text, style, identity and list order untouched; both boundaries of every cue go through [lin] *)
Theorem C15_payload_order : forall a1 d1 a2 d2 l,
  map (fun x => (uid x, i_lines x, i_reg x, i_sty x, i_inl x)) (linear_correction a1 d1 a2 d2 l) =
  map (fun x => (uid x, i_lines x, i_reg x, i_sty x, i_inl x)) l.
Proof. exact linear_correction_payload. Qed.
Theorem C15_times : forall a1 d1 a2 d2 l,
  map (fun x => (st x, en x)) (linear_correction a1 d1 a2 d2 l) =
  map (fun x => (lin a1 d1 a2 d2 (st x), lin a1 d1 a2 d2 (en x))) l.
Proof. exact linear_correction_times. Qed.
(* "scales every cue's length by the slope" is the difference of two instances of C15_affine (6 ns). *)

(* non-vacuity: the PAL -> NTSC-film ratio 25/23.976 over one hour *)
Example C15_example :
  in_day 0 /\ in_day 3600000000000 /\ in_day 3753753753753 /\ slope_ok 0 0 3600000000000 3753753753753 /\
  lin 0 0 3600000000000 3753753753753 1800000000000 = 1876876876876%Z.
Proof. unfold in_day, slope_ok, day. repeat split; try (vm_compute; discriminate). left. repeat split; vm_compute; discriminate. Qed.

Print Assumptions C15_affine.
Print Assumptions C15_anchor1.
Print Assumptions C15_anchor2.
Print Assumptions C15_monotone.
Print Assumptions C15_payload_order.
Print Assumptions C15_times.

(* ---- audit follow-ups (Proofs/OpsLinExtra.v) ---- *)
From Astisub Require Import Proofs.OrderProofs Proofs.OpsLinExtra.

(* "scales every cue's length by the slope": for two boundaries t, t' the corrected distance is slope * (t' - t) to
   within 3 ns - in fact 17/8 ns: the truncated intercept is added to both and cancels *)
Theorem C15_length : forall a1 d1 a2 d2 t t' : Z,
  in_day a1 -> in_day d1 -> in_day a2 -> in_day d2 -> in_day t -> in_day t' -> a1 <> a2 -> slope_ok a1 d1 a2 d2 ->
  (Rabs (IZR (lin a1 d1 a2 d2 t' - lin a1 d1 a2 d2 t) - IZR (t' - t) * IZR (d2 - d1) / IZR (a2 - a1)) <= 3)%R.
Proof. exact lin_length. Qed.
Theorem C15_length_sharp : forall a1 d1 a2 d2 : Z,
  in_day a1 -> in_day d1 -> in_day a2 -> in_day d2 -> slope_ok a1 d1 a2 d2 ->
  forall t t' : Z, in_day t -> in_day t' ->
  (Rabs (IZR (lin a1 d1 a2 d2 t' - lin a1 d1 a2 d2 t) - IZR (t' - t) * slope a1 d1 a2 d2) <= 17 / 8)%R.
Proof. exact lin_length_slope. Qed.
(* list level: every cue's length, in list order *)
Theorem C15_lengths_list : forall a1 d1 a2 d2 : Z,
  in_day a1 -> in_day d1 -> in_day a2 -> in_day d2 -> a1 <> a2 -> slope_ok a1 d1 a2 d2 ->
  forall l, Forall cue_in_day l ->
  Forall2 (fun x y => (Rabs (IZR (en y - st y) - IZR (en x - st x) * IZR (d2 - d1) / IZR (a2 - a1)) <= 3)%R)
          l (linear_correction a1 d1 a2 d2 l).
Proof. exact linear_correction_lengths. Qed.
(* start <= end is preserved for every cue of the list (monotonicity applied to both ends); zero-length cues stay
   zero-length; a start-ordered list stays start-ordered *)
Theorem C15_preserves_wf : forall a1 d1 a2 d2 : Z,
  in_day a1 -> in_day d1 -> in_day a2 -> in_day d2 -> a1 <> a2 -> slope_ok a1 d1 a2 d2 ->
  forall l, Forall cue_in_day l -> Forall (fun x => (st x <= en x)%Z) l ->
  Forall (fun y => (st y <= en y)%Z) (linear_correction a1 d1 a2 d2 l).
Proof. exact linear_correction_wf. Qed.
Theorem C15_zero_length : forall a1 d1 a2 d2 l,
  Forall2 (fun x y => st x = en x -> st y = en y) l (linear_correction a1 d1 a2 d2 l).
Proof. exact linear_correction_zero_length. Qed.
Theorem C15_preserves_sorted : forall a1 d1 a2 d2 : Z,
  in_day a1 -> in_day d1 -> in_day a2 -> in_day d2 -> a1 <> a2 -> slope_ok a1 d1 a2 d2 ->
  forall l, Forall cue_in_day l -> sorted l -> sorted (linear_correction a1 d1 a2 d2 l).
Proof. exact linear_correction_sorted. Qed.
(* the degenerate quadruple a1 = a2, outside the property's domain: the model's slope is x/0 (an infinity or NaN), all
   products and the intercept are non-finite and Flocq's truncation maps them to 0, so the MODEL returns 0 for every
   boundary.  In Go the float64 -> int64 conversion of +-Inf/NaN is implementation-defined: no agreement is claimed. *)
Theorem C15_degenerate_model : forall a d1 d2 t : Z, lin a d1 a d2 t = 0%Z.
Proof. exact lin_degenerate. Qed.

(* non-vacuity: three cues with text (one of zero length), ratio 25/23.976 anchored over one hour *)
Example C15_list_example :
  map (fun x => (uid x, st x, en x, item_text x)) (linear_correction 0 0 3600000000000 3753753753753 ex_lin) =
  [(1%N, 1042709376, 3649482816, [65%N]); (2%N, 3649482816, 3649482816, [66%N]);
   (3%N, 1876876876876, 1878962295628, [67%N])]%Z.
Proof. exact ex_lin_result. Qed.
Example C15_list_example_hyps : in_day 0 /\ in_day 3600000000000 /\ in_day 3753753753753 /\
  slope_ok 0 0 3600000000000 3753753753753 /\ Forall cue_in_day ex_lin /\ Forall (fun x => (st x <= en x)%Z) ex_lin /\ sorted ex_lin.
Proof. exact ex_lin_hyps. Qed.

Print Assumptions C15_length.
Print Assumptions C15_length_sharp.
Print Assumptions C15_lengths_list.
Print Assumptions C15_preserves_wf.
Print Assumptions C15_zero_length.
Print Assumptions C15_preserves_sorted.
Print Assumptions C15_degenerate_model.

(* ---- int64 (second audit, N10; Model/Ops64.v lin64, Proofs/Lin64Proofs.v) ----
   [lin64] is ApplyLinearCorrection with int64 subtractions (desired2 - desired1, actual2 - actual1), the truncating
   float64 -> int64 conversions (outside int64 and for NaN: the amd64 result MinInt64 - implementation-defined in Go) and
   a wrapping final addition.  Inside the domain of the theorems above (anchors and boundary within a day, slope in
   [1/2, 2]) nothing wraps and every conversion is of a finite value below 2^50: [lin64] is [lin]. *)
From Astisub Require Import Kit.Int64 Model.Ops64 Proofs.Lin64Proofs.
Theorem C15_int64 : forall a1 d1 a2 d2 t : Z,
  in_day a1 -> in_day d1 -> in_day a2 -> in_day d2 -> in_day t -> slope_ok a1 d1 a2 d2 ->
  lin64 a1 d1 a2 d2 t = lin a1 d1 a2 d2 t /\ in_i64 (lin a1 d1 a2 d2 t).
Proof. exact lin64_eq. Qed.
Theorem C15_int64_list : forall a1 d1 a2 d2 l,
  in_day a1 -> in_day d1 -> in_day a2 -> in_day d2 -> slope_ok a1 d1 a2 d2 ->
  Forall (fun x => in_day (st x) /\ in_day (en x)) l ->
  linear_correction64 a1 d1 a2 d2 l = linear_correction a1 d1 a2 d2 l.
Proof. exact linear_correction64_eq. Qed.
Example C15_int64_wraps :
  lin64 0 (- 4611686018427387904) 4611686018427387904 4611686018427387905 1000 <>
  lin 0 (- 4611686018427387904) 4611686018427387904 4611686018427387905 1000.
Proof. exact lin64_wraps. Qed.
Print Assumptions C15_int64.
Print Assumptions C15_int64_list.
