(* C19 — Writers are pure and deterministic.
   What the model carries: (1) every writer that ranges over a definition map first sorts the keys; for
   ANY function folded over the sorted keys the result is independent of the runtime's iteration order
   (this is the mechanism of WriteToTTML, WriteToWebVTT (regions, STYLE block) and WriteToSSA (Format line,
   Style rows) after the repair); (2) the SubRip writer model is a function of the cue list alone (no map,
   no clock): determinism is immediate; (3) Merge's definition maps do not depend on the iteration order
   (C12_merge_order_independent); (4) the WebVTT and SSA/ASS writer models take the iteration orders of their maps as
   parameters and their bytes are proved independent of them (C19_vtt_deterministic, C19_ssa_deterministic); (5) the EBU
   STL writer ranges over no map and has one hidden input, the clock (Now()), which the model takes as an argument: the
   bytes depend on it only through the creation and revision date fields of the GSI block (offsets 224..235) and not at
   all when the metadata supplies both dates.  Purity ("no writer modifies the list") is a property of the functional
   models by construction; for the real writers it and the byte-level determinism on the real clock / hash seeds are
   established by the harness (50 repetitions x 5 processes x 6 writer orders, deep snapshots): that half is
   correspondence, not proof. *)
From Coq Require Import List NArith Permutation.
From Astisub Require Import Kit.Base Kit.GoMap Model.Srt Model.Vtt Proofs.VttIOProofs.
From Astisub Require Import Model.Ssa Proofs.SsaOrder.
From Astisub Require Import Model.Stl Proofs.StlClock.
From Astisub Require Import Model.Ttml Proofs.TtmlIO Model.TtmlGo Proofs.TtmlGoProofs.
Import ListNotations.

Theorem C19_sorted_range_independent : forall (V A : Type) (m : list (N * V)) (order order' : list N)
  (f : A -> N -> option V -> A) (a : A),
  Permutation order order' -> range_sorted m order f a = range_sorted m order' f a.
Proof. exact @range_sorted_independent. Qed.
Theorem C19_sort_forgets_order : forall l l', Permutation l l' -> nsort l = nsort l'.
Proof. exact nsort_order_independent. Qed.
(* The SubRip writer model has no input besides the cue list ([write_srt : list sitem -> res str]): "same list, same bytes"
   is the functionality of Gallina functions and is not restated as a theorem (an implication from [l = l'] would say
   nothing).  What ties that to the real writer is the byte comparison of the model with WriteToSRT on every case and the
   repeated-write / cross-process suite. *)

(* the WebVTT writer model takes the iteration orders of the style and region maps as parameters: its
   bytes do not depend on them *)
Theorem C19_vtt_deterministic : forall d so so' ro ro',
  Permutation so so' -> Permutation ro ro' -> write_vtt d so ro = write_vtt d so' ro'.
Proof. exact write_vtt_order_independent. Qed.
(* the SSA/ASS writer model takes the iteration order of the styles map as a parameter: its bytes (script info, Format
   line, Style rows, events) do not depend on it *)
Theorem C19_ssa_deterministic : forall d order order', Permutation order order' -> write_ssa d order = write_ssa d order'.
Proof. exact write_order_independent. Qed.

(* EBU STL: the clock is the only hidden input *)
Theorem C19_stl_clock_only_when_dates_absent : forall now now' m c r items,
  wm_cd m = Some c -> wm_rd m = Some r -> write_stl now (Some m) items = write_stl now' (Some m) items.
Proof. exact clock_unused_with_dates. Qed.
Theorem C19_stl_clock_only_in_dates : forall now now' md items out out',
  write_stl now md items = Ok out -> write_stl now' md items = Ok out' ->
  firstn 224 out = firstn 224 out' /\ skipn 236 out = skipn 236 out'.
Proof. exact clock_only_dates. Qed.
Print Assumptions C19_stl_clock_only_when_dates_absent.
Print Assumptions C19_stl_clock_only_in_dates.

(* the TTML writer model (bytes) has no clock and no iteration-order input: its bytes are a function of the
   document value and the indent option; the style and region tables enter as association lists and the bytes do
   not depend on the order in which they are listed (keys distinct, as in a Go map) *)
Theorem C19_ttml_deterministic : forall ind meta items st st' rg rg',
  Permutation st st' -> Permutation rg rg' -> NoDup (map fst st) -> NoDup (map fst rg) ->
  write_ttml_bytes_go ind (mkDoc meta st rg items) = write_ttml_bytes_go ind (mkDoc meta st' rg' items).
Proof. exact write_ttml_bytes_go_perm. Qed.

Example C19_example : nsort [3; 1; 2]%N = nsort [2; 3; 1]%N. Proof. reflexivity. Qed.

Print Assumptions C19_sorted_range_independent.
Print Assumptions C19_sort_forgets_order.
Print Assumptions C19_vtt_deterministic.
Print Assumptions C19_ssa_deterministic.
Print Assumptions C19_ttml_deterministic.
