(* C03 — TTML codec fidelity: time expressions, line breaks, styles, regions.

   What is proved here is about the Gallina model of ttml.go (Model/Ttml.v) over the XML token tree of
   Kit/Xml.v.  The encoding/xml layer (bytes <-> tree: "decoding the encoder's output of a tree gives that
   tree with the encoder's indentation text nodes; names are matched by local name") is a named contract
   of the trusted base, tied by the harness on every generated case (notes/C03.md).

   - time expressions: for every expression of each syntactic form (clock time with a 0-3 digit fraction,
     clock time with frames, offsets in h/m/s/ms with a decimal fraction, f, t) the parser returns the
     instant the expression means: exactly for the integer-only forms; for the forms that go through
     binary64 (ParseFloat, one multiplication or a division and a multiplication, math.Round) the result r
     satisfies [denotes_instant r num den]: r = num/den when that is a whole number of nanoseconds, and
     |r - num/den| < 1 ns otherwise.  Side conditions: the decimal has a mantissa below 2^53 and at most 22
     fraction digits (Go's exact ParseFloat path; 15 significant digits always qualify), counts and rates
     below 2^53, and the instant below 2^49 ns (156 h) - needed because above it one binary64 unit in the
     last place exceeds 1/8 ns.
   - parse (format t) = t truncated to the millisecond, for every 0 <= t <= max_int64.
   - line splitting: every rendering of a paragraph's lines and runs ([render_content]: <br/> between
     elements or inside an element, indentation before any node, around any <br/> and before the end tag)
     is read back as exactly those runs and line breaks; lines survive the token view.
   - references: every style element is linked to the parent named by its style attribute, for any shape
     of the parent relation (several styles sharing a parent, parents defined later), and the parent is a
     style of the document; the five language codes map to their languages with any subtag.
   - the reader's result does not depend on name spaces (prefixes, default namespace) nor on the order of
     an element's attributes (distinct local names).
   - write -> read round trip on trees for all representable documents and every white-space indent option
     (Proofs/TtmlDoc.v, theorem C03_write_read below).
   - reader and writer are total (no Panic). *)
From Coq Require Import List ZArith NArith Bool Permutation.
From Astisub Require Import Kit.Base Kit.Str Kit.Float64 Kit.Float64x Kit.Xml Model.Dur Model.Ttml
  Proofs.DurProofs Proofs.TtmlBase Proofs.TtmlSpec Proofs.TtmlTime Proofs.TtmlFloat Proofs.TtmlFloat2 Proofs.TtmlTimeAll
  Proofs.TtmlLines Proofs.TtmlPara Proofs.TtmlRefs Proofs.TtmlDocSpec Proofs.TtmlDoc Kit.XmlParse Proofs.XmlParseProofs Proofs.TtmlBytes
  Proofs.TtmlRender Proofs.TtmlRenderTime Proofs.TtmlRenderDoc Proofs.TtmlReadRendered Proofs.TtmlRenderEx
  Kit.XmlParse2 Proofs.XmlParse2Proofs Proofs.TtmlRenderBytesSpec Proofs.TtmlRenderBytes
  Kit.XmlEsc Model.TtmlGo Proofs.TtmlLegal Proofs.TtmlAudit Proofs.Parse2Written.
Import ListNotations.
Open Scope Z_scope.

(* ---------------- time expressions ---------------- *)
Theorem C03_time_clock : forall hs ms ss fs fr tr, digits hs -> digits ms -> digits ss -> digits fs ->
  hs <> [] -> ms <> [] -> ss <> [] -> (length fs <= 3)%nat ->
  dval hs <= max_int64 -> dval ms <= max_int64 -> dval ss <= max_int64 -> dval fs <= max_int64 ->
  ttml_time (clock_expr hs ms ss fs) fr tr = Some (hms_ns hs ms ss + frac_ns fs).
Proof. exact clock_time. Qed.
Print Assumptions C03_time_clock.

Theorem C03_time_clock_frames : forall hs ms ss fds fr tr, digits hs -> digits ms -> digits ss -> digits fds ->
  hs <> [] -> ms <> [] -> ss <> [] -> fds <> [] ->
  dval hs <= max_int64 -> dval ms <= max_int64 -> dval ss <= max_int64 ->
  0 <= dval fds < 2 ^ 53 -> 0 < fr < 2 ^ 53 -> dval fds * second_ns < 2 ^ 49 * fr ->
  exists r, ttml_time (clock_frames_expr hs ms ss fds) fr tr = Some (hms_ns hs ms ss + r) /\
            denotes_instant r (dval fds * second_ns) fr.
Proof. exact clock_frames_denotes. Qed.
Print Assumptions C03_time_clock_frames.

Theorem C03_time_offset : forall ip fp m fr tr, digits ip -> digits fp -> ip <> [] ->
  (m = Mh \/ m = Mm \/ m = Ms \/ m = Mms) ->
  let n := dec_mant ip fp in let den := 10 ^ Z.of_nat (length fp) in
  0 <= n < 2 ^ 53 -> (length fp <= 22)%nat -> n * timebase m < 2 ^ 49 * den ->
  exists r, ttml_time (offset_expr ip fp m) fr tr = Some r /\ denotes_instant r (n * timebase m) den.
Proof. exact offset_time_denotes. Qed.
Print Assumptions C03_time_offset.

(* offsets in frames and in ticks; the count may carry a fraction (12.5f) *)
Theorem C03_time_frames : forall ip fp fr tr, digits ip -> digits fp -> ip <> [] ->
  let n := dec_mant ip fp in let den := 10 ^ Z.of_nat (length fp) in
  0 < n < 2 ^ 53 -> (length fp <= 22)%nat -> 0 < fr < 2 ^ 53 -> n * second_ns < 2 ^ 49 * (den * fr) ->
  exists r, ttml_time (offset_expr ip fp Mf) fr tr = Some r /\ denotes_instant r (n * second_ns) (den * fr).
Proof. exact frames_offset_denotes. Qed.
Print Assumptions C03_time_frames.

Theorem C03_time_ticks : forall ip fp fr tr, digits ip -> digits fp -> ip <> [] ->
  let n := dec_mant ip fp in let den := 10 ^ Z.of_nat (length fp) in
  0 < n < 2 ^ 53 -> (length fp <= 22)%nat -> 0 < tr < 2 ^ 53 -> n * second_ns < 2 ^ 49 * (den * tr) ->
  exists r, ttml_time (offset_expr ip fp Mt) fr tr = Some r /\ denotes_instant r (n * second_ns) (den * tr).
Proof. exact ticks_offset_denotes. Qed.
Print Assumptions C03_time_ticks.

Theorem C03_time_zero_count : forall ip fp m fr tr, digits ip -> digits fp -> ip <> [] -> (m = Mf \/ m = Mt) ->
  dec_mant ip fp = 0 -> ttml_time (offset_expr ip fp m) fr tr = Some 0.
Proof. exact zero_count_time. Qed.
Print Assumptions C03_time_zero_count.

(* reading what TTMLOutDuration.MarshalText prints *)
Theorem C03_time_format_roundtrip : forall t fr tr, 0 <= t <= max_int64 ->
  ttml_time (format_ttml t) fr tr = Some (t - t mod 1000000).
Proof. exact time_format_roundtrip. Qed.
Print Assumptions C03_time_format_roundtrip.

(* ---------------- line splitting ---------------- *)
Theorem C03_lines : forall gs wl, content_ok gs wl = true ->
  exists its, items_of (strip_content (render_content gs wl)) = Some its /\
              flat_map run_toks its = flat_map group_toks gs.
Proof. exact content_read. Qed.
Print Assumptions C03_lines.
Theorem C03_lines_tokens : forall ls : list (list trun), ls <> [] -> lines_of (lines_toks ls) = ls.
Proof. exact lines_of_lines_toks. Qed.
Print Assumptions C03_lines_tokens.

(* a whole paragraph: begin/end through their parsed values (any syntax, see the time theorems), any
   rendering of the lines, references resolved *)
Theorem C03_paragraph : forall (styles regions : list (str * tstyle)) fr tr nm al gs wl b e ta,
  content_ok gs wl = true ->
  dur_attr s_begin al = Some (Some b) -> dur_attr s_end al = Some (Some e) -> tt_read_attrs al = Some ta ->
  ref_known regions (attr_str s_region al) = true -> ref_known styles (attr_str s_style al) = true ->
  forallb (group_style_ok styles) gs = true ->
  read_p styles regions fr tr (XElem nm al (render_content gs wl)) =
  Ok (mkItem (ttml_duration b fr tr) (ttml_duration e fr tr) (opt_ref (attr_str s_region al)) (opt_ref (attr_str s_style al)) ta
             (lines_of (flat_map group_toks gs))).
Proof. exact read_p_rendered. Qed.
Print Assumptions C03_paragraph.

(* ---------------- references, parents, language ---------------- *)
Theorem C03_parents : forall root d, read_ttml root = Ok d -> NoDup (map elem_id (style_elems root)) ->
  forall n, In n (style_elems root) ->
  exists s, map_get (elem_id n) (td_styles d) = Some s /\ ts_id s = elem_id n /\ ts_ref s = elem_style n /\
            match elem_style n with Some p => map_mem p (td_styles d) = true | None => True end.
Proof. exact styles_linked. Qed.
Print Assumptions C03_parents.
(* every reference the reader returns names an entry of the document's tables *)
Theorem C03_refs : forall root d, read_ttml root = Ok d ->
  Forall (fun it => opt_in (td_regions d) (ti_region it) /\ opt_in (td_styles d) (ti_style it) /\
                    Forall (Forall (fun r => opt_in (td_styles d) (tr_style r))) (ti_lines it)) (td_items d).
Proof. exact refs_closed. Qed.
Print Assumptions C03_refs.
Theorem C03_language : forall code name rest, In (code, name) lang_table -> lang_of (code ++ rest) = name.
Proof. exact lang_of_table. Qed.
Print Assumptions C03_language.

(* ---------------- rendering freedoms the reader does not see ---------------- *)
Theorem C03_prefixes : forall f t, read_ttml (respace f t) = read_ttml t.
Proof. exact read_ttml_respace. Qed.
Print Assumptions C03_prefixes.
Theorem C03_attr_order : forall al al', Permutation al al' -> NoDup (map attr_local al) ->
  tt_read_attrs al' = tt_read_attrs al /\
  (forall l, attr_str l al' = attr_str l al /\ dur_attr l al' = dur_attr l al /\ int_attr l al' = int_attr l al).
Proof. exact attr_order_irrelevant. Qed.
Print Assumptions C03_attr_order.

(* ---------------- write -> read ---------------- *)
(* for every representable document value ([repr_doc], Example [ex_doc_repr]) and every indent option made
   of blanks, tabs and line breaks, the tree the writer builds, with the indentation text nodes the XML
   encoder adds for that option, is read back as the same styles (with parents), regions, title, copyright,
   mapped language, and cues with ms-truncated times and the same lines, runs, references, attributes *)
Theorem C03_write_read : forall d ind, repr_doc d = true -> indent_ok ind = true ->
  exists t, write_ttml d = Ok t /\ read_ttml (indent_doc ind t) = Ok (written_value d).
Proof. exact write_read. Qed.
Print Assumptions C03_write_read.

(* the same through bytes: [xml_parse] (Kit/XmlParse.v) is an executable parser for the XML subset the
   encoder emits (start/end tags, quoted attributes, the eight escapes, namespace resolution as Go's decoder
   does it); it inverts the byte-level writer model on every document value and indent option ... *)
Theorem C03_parse_written : forall d ind b, indent_ok ind = true -> write_ttml_bytes ind d = Ok b ->
  exists t, write_ttml d = Ok t /\ xml_parse b = Some (indent_doc ind t).
Proof. exact parse_written. Qed.
Print Assumptions C03_parse_written.
(* ... so the bytes the writer model emits parse to a tree the reader model reads as the written value *)
Theorem C03_write_read_bytes : forall d ind, repr_doc d = true -> indent_ok ind = true ->
  exists b t, write_ttml_bytes ind d = Ok b /\ xml_parse b = Some t /\ read_ttml t = Ok (written_value d).
Proof. exact write_read_bytes. Qed.
Print Assumptions C03_write_read_bytes.

(* ---------------- the composite reading theorem ---------------- *)
(* Ground-truth model [gdoc] (Proofs/TtmlRender.v): cues whose boundaries are exact instants (fractions of ns),
   lines of runs with style references and inline attributes; styles in any order with arbitrary parent links
   (shared parents, forward references - even cycles), regions with optional style; title, copyright, one of the
   five mapped languages or none; frame rate, tick rate.  Rendering record [rendering]: per boundary ANY time
   expression of the grammar ([texpr]: clock time with 0-3 fraction digits, clock time with frames, offsets in
   h/m/s/ms/f/t with decimal fractions) that means the model's instant; the attributes of tt, style, region and p
   in any order; any name-space assignment to element and attribute names (prefixes, default namespace); ANY
   character data between structural elements (indentation or not) at every level; the three sections of head in
   any order, title/copyright in either order; the paragraph content as groups (<br/> between or inside elements,
   indentation before any node and around any <br/>); a language subtag; frameRate/tickRate written or omitted when
   0; further attributes on tt (name-space declarations).  [render_ok] is the decidable check (side conditions of
   the time theorems per boundary, permutations, references closed, identifiers distinct, content well formed and
   meaning the model's lines).  Conclusion: the reader returns [denote_ttml r m] - the model's styles (with
   parents), regions, metadata, cues - and every boundary read is the instant the model means ([boundary_ok]:
   [denotes_instant], exact when a whole number of ns, else within 1 ns).  [ex_render_ok]/[ex_read_rendered]
   (Proofs/TtmlRenderEx.v) is a worked example exercising every freedom at once; the harness replays it on the
   library (suite ttmlrenderex). *)
Theorem C03_read_rendered : forall r m, render_ok r m = true ->
  read_ttml (render_ttml r m) = Ok (denote_ttml r m) /\
  Forall2 boundary_ok (gd_items m) (td_items (denote_ttml r m)).
Proof. exact read_rendered. Qed.
Print Assumptions C03_read_rendered.
Example C03_read_rendered_example : render_ok ex_rendering ex_model = true /\
  read_ttml (render_ttml ex_rendering ex_model) = Ok (denote_ttml ex_rendering ex_model).
Proof. split; [exact ex_render_ok | exact ex_read_rendered]. Qed.

(* ---------------- the XML parser model for hand-written documents ---------------- *)
(* [xml_parse2] (Kit/XmlParse2.v): prolog (declaration, comments, processing instructions), single- or double-quoted
   attributes, white space inside tags, self-closing tags, the five predefined entities and numeric character
   references (UTF-8), comments in content (character data merged), name-space resolution as Go's decoder; tied per
   case to encoding/xml on every rendered document, the repository samples and the corpus (suite xmlparse2).  It
   inverts the printer [print2] for every printing choice (quotes, self-closing, white space in tags) on every
   printable tree ([wf2_root]: mixed content allowed, no CR). *)
Theorem C03_parse2_print2 : forall pc t prolog, wf2_root t = true -> pchoice_ok pc t = true -> prolog_ok prolog = true ->
  xml_parse2 (prolog ++ print2 print_name pc t) = Some t.
Proof. exact parse2_print2. Qed.
Print Assumptions C03_parse2_print2.

(* the composite reading theorem through bytes: under the standard name-space assignment ([render_std]: default
   namespace for elements, xml:id / xml:lang, tts:*, the two declarations on the root) and without CR ([bytes_ok]),
   the rendered document printed with ANY printing choice and prolog is parsed by the XML parser model to a tree the
   reader reads as what the rendering denotes *)
Theorem C03_read_rendered_bytes : forall r m pc prolog,
  render_ok r m = true -> bytes_ok r m = true -> pchoice_ok pc (render_std r m) = true -> prolog_ok prolog = true ->
  exists t, xml_parse2 (prolog ++ print2 print_name pc (render_std r m)) = Some t /\ read_ttml t = Ok (denote_ttml r m).
Proof. exact read_rendered_bytes. Qed.
Print Assumptions C03_read_rendered_bytes.
Example C03_read_rendered_bytes_example : render_ok ex_rendering ex_model = true /\ bytes_ok ex_rendering ex_model = true.
Proof. split; vm_compute; reflexivity. Qed.

(* ---------------- statement audit: domains made explicit, non-vacuity ---------------- *)
(* (a) Text that is not XML-legal.  The theorems above that mention [write_ttml_bytes] use the byte-wise escaping
   [esc_text]; Go's xml.EscapeText additionally replaces every rune outside the XML 1.0 Char production, and every byte
   that does not start a valid UTF-8 sequence, by U+FFFD.  [write_ttml_bytes_go] (Model/TtmlGo.v, Kit/XmlEsc.v) models
   that exactly - it is the function the harness compares byte for byte with WriteToTTML, on legal and illegal text -
   and coincides with [write_ttml_bytes] on legal document values; the Go-faithful round trip is
   [C03_write_read_bytes_go], whose premise [legal_doc] cannot be dropped ([C03_illegal_text_not_round_trip]: a NUL byte
   is written as U+FFFD and read back as U+FFFD; replayed on the library by the writer suite).  The tree-level
   [C03_write_read] is about the token tree and relies on the XML-layer contract, which holds for legal text only. *)
Theorem C03_escape_legal : forall s, xml_legal s = true -> esc_text_go s = esc_text s.
Proof. exact esc_text_go_legal. Qed.
Print Assumptions C03_escape_legal.
Theorem C03_write_bytes_go_legal : forall d ind, repr_doc d = true -> legal_doc d = true ->
  write_ttml_bytes_go ind d = write_ttml_bytes ind d.
Proof. exact write_ttml_bytes_go_legal. Qed.
Print Assumptions C03_write_bytes_go_legal.
Theorem C03_write_read_bytes_go : forall d ind, repr_doc d = true -> legal_doc d = true -> indent_ok ind = true ->
  exists b t, write_ttml_bytes_go ind d = Ok b /\ xml_parse b = Some t /\ read_ttml t = Ok (written_value d).
Proof. exact write_read_bytes_go. Qed.
Print Assumptions C03_write_read_bytes_go.
Example C03_illegal_text_not_round_trip :
  repr_doc illegal_doc = true /\ legal_doc illegal_doc = false /\
  exists b t d', write_ttml_bytes_go [] illegal_doc = Ok b /\ xml_parse b = Some t /\ read_ttml t = Ok d' /\
                 map ti_lines (td_items d') = [[[mkRun [239; 191; 189]%N None no_attrs]]].
Proof. exact illegal_text_not_round_trip. Qed.
(* (b) Clock times and int64.  [C03_time_clock] is stated over unbounded Z; Go's time.Duration arithmetic wraps beyond
   2^63 - 1 ns.  Every partial sum of parseDuration is non-negative and at most the result, so the bound below is
   exactly the domain on which Go computes the model's value; [texpr_okb] (hence [C03_read_rendered]) includes it.
   Boundary: "2562047:47:16.854" is the last millisecond, ".855" exceeds int64 (Go wraps; harness group
   ttml.time.malformed compares the model's out-of-range flag). *)
Theorem C03_time_clock_int64 : forall hs ms ss fs fr tr, digits hs -> digits ms -> digits ss -> digits fs ->
  hs <> [] -> ms <> [] -> ss <> [] -> (length fs <= 3)%nat ->
  dval hs <= max_int64 -> dval ms <= max_int64 -> dval ss <= max_int64 -> dval fs <= max_int64 ->
  hms_ns hs ms ss + frac_ns fs <= max_int64 ->
  ttml_time (clock_expr hs ms ss fs) fr tr = Some (hms_ns hs ms ss + frac_ns fs) /\
  0 <= hms_ns hs ms ss + frac_ns fs <= max_int64.
Proof. exact clock_time_int64. Qed.
Print Assumptions C03_time_clock_int64.
Example C03_clock_int64_boundary :
  ttml_time (clock_expr s_2562047 [52;55]%N [49;54]%N [56;53;52]%N) 0 0 = Some 9223372036854000000 /\
  9223372036854000000 <= max_int64 /\
  ttml_time (clock_expr s_2562047 [52;55]%N [49;54]%N [56;53;53]%N) 0 0 = Some 9223372036855000000 /\
  max_int64 < 9223372036855000000.
Proof. exact clock_int64_boundary. Qed.
(* (c) Non-finite binary64 values.  [round_Z] returns 0 on +Inf/-Inf/NaN, where Go's int64(math.Round(x)) is
   implementation-defined (amd64: -2^63, observed; the same for |x| >= 2^63), and an overflowing ParseFloat is an error
   in Go.  None of this is inside a domain used here: the side conditions of the time theorems bound every instant by
   2^49 ns, and the correspondence compares values only inside [time_simple] (at most 15 digits: all intermediates
   below 3.6 * 10^27) and |result| < 4 * 10^18, class only outside.  [time_finite] is the explicit predicate. *)
Example C03_nonfinite_outside_domain :
  round_Z (Flocq.IEEE754.BinarySingleNaN.B754_infinity false) = 0 /\ time_finite (repeat 57%N 400 ++ [115]%N) 0 0 = false.
Proof. split; [exact (proj1 (proj2 round_Z_nonfinite)) | exact (proj1 time_finite_witness)]. Qed.
(* (d) Non-vacuity: every hypothesis list above is satisfiable (Proofs/TtmlAudit.v): [ex_time_clock] "01:02:03.5",
   [ex_time_clock_frames] "00:00:02:12" at 25 fps, [ex_time_offset] "1.001s" = 1 001 000 000 ns, [ex_time_frames] "12.5f",
   [ex_time_ticks] "3t"/"1t" at rate 3, [ex_time_zero_count], [ex_time_format_roundtrip]; [ex_paragraph], [ex_parents]
   (two styles sharing a parent defined after them), [ex_refs] on the worked example of the composite theorem.
   (e) In [C03_paragraph] the frame and tick rates are free parameters: [C03_read_rendered] instantiates them with the
   root's frameRate/tickRate ([gd_framerate], [gd_tickrate]).  Zero rates: allowed by [render_ok] (frame/tick expressions
   then need a zero count: [C03_time_zero_count]; a positive count with rate 0 reads as 0 - [positive_rate_needed]).
   Unmapped or absent languages: [gd_lang = None] with any xml:lang whose first two bytes are not a mapped code
   ([lang_ok]).  Title/copyright/elements in foreign name spaces: [C03_prefixes] (matching is by local name). *)
Example C03_examples :
  ttml_time (clock_expr [48;49]%N [48;50]%N [48;51]%N [53]%N) 25 0 = Some 3723500000000 /\
  ttml_time (offset_expr [49]%N [48;48;49]%N Ms) 0 0 = Some 1001000000 /\
  ttml_time (offset_expr [49;50]%N [53]%N Mf) 25 0 = Some 500000000 /\
  ttml_time (offset_expr [51]%N [] Mt) 0 3 = Some 1000000000.
Proof. exact (conj ex_time_clock (conj ex_time_offset (conj ex_time_frames (proj1 ex_time_ticks)))). Qed.

(* the extended parser also inverts the writer model's bytes (every document value, every white-space indent), so it
   agrees with the first parser there *)
Theorem C03_parse2_written : forall d ind b, indent_ok ind = true -> write_ttml_bytes ind d = Ok b ->
  exists t, write_ttml d = Ok t /\ xml_parse2 b = Some (indent_doc ind t).
Proof. exact parse2_written. Qed.
Print Assumptions C03_parse2_written.

(* Second audit, N2.  [C03_read_rendered_bytes] lets the printing choice put a line break before an attribute inside a
   tag ([pc_gap]).  The library used to strip the indentation of a paragraph's inner XML line-wise regardless of context,
   gluing "<span\n tts:color" into "<spantts:color" (XML syntax error): a defect, repaired in the repository ("fix: TTML
   reader keeps attributes apart when a line break inside a tag is removed with the indentation"; seed
   seeded/C03-line-break-inside-a-tag-glues-attributes).  The tree-level model never saw the difference (white space inside
   a tag is not part of the token tree); the harness now generates line breaks inside span and br tags and counts them
   (ttml.freedom.linebreak_in_tag.*, ttml.read.start_tags_with_a_line_break_inside) instead of skipping them.  What remains
   outside: a line break inside a quoted attribute VALUE of an element inside a paragraph is replaced by a blank by the
   stripping (the value changes); [bytes_ok_go] excludes it, and this is the byte-level statement that is true of the library: *)
Theorem C03_read_rendered_bytes_go : forall r m pc prolog,
  render_ok r m = true -> bytes_ok_go r m = true -> pchoice_ok pc (render_std r m) = true -> prolog_ok prolog = true ->
  exists t, xml_parse2 (prolog ++ print2 print_name pc (render_std r m)) = Some t /\ read_ttml t = Ok (denote_ttml r m).
Proof. exact read_rendered_bytes_go. Qed.
Print Assumptions C03_read_rendered_bytes_go.

(* Second audit (i)4.  [C03_time_clock_frames] is stated over unbounded Z; Go adds the clock part and the frames term with
   wrap-around.  Under the theorem's hypotheses the frames term lies in [0, 2^49], so a clock part of at most
   max_int64 - 2^49 keeps the result inside int64: the domain on which Go computes the model's value.  ([texpr_okb], hence
   [C03_read_rendered], already bounds the result by max_int64.)  Boundary: "2562047:47:16:24" at 25 fps means
   9223372036960000000 ns - the model says so, Go wraps to -9223372036749551616 (observed; compared through the
   model's out-of-range flag in group ttml.time.malformed). *)
Theorem C03_time_clock_frames_int64 : forall hs ms ss fds fr tr, digits hs -> digits ms -> digits ss -> digits fds ->
  hs <> [] -> ms <> [] -> ss <> [] -> fds <> [] ->
  dval hs <= max_int64 -> dval ms <= max_int64 -> dval ss <= max_int64 ->
  0 <= dval fds < 2 ^ 53 -> 0 < fr < 2 ^ 53 -> dval fds * second_ns < 2 ^ 49 * fr ->
  hms_ns hs ms ss <= max_int64 - 2 ^ 49 ->
  exists r, ttml_time (clock_frames_expr hs ms ss fds) fr tr = Some (hms_ns hs ms ss + r) /\
            denotes_instant r (dval fds * second_ns) fr /\ 0 <= hms_ns hs ms ss + r <= max_int64.
Proof. exact clock_frames_int64. Qed.
Print Assumptions C03_time_clock_frames_int64.
Example C03_clock_frames_int64_boundary :
  ttml_time (clock_frames_expr s_2562047 [52;55]%N [49;54]%N [50;52]%N) 25 0 = Some 9223372036960000000 /\
  max_int64 < 9223372036960000000 /\ max_int64 - 2 ^ 49 < hms_ns s_2562047 [52;55]%N [49;54]%N.
Proof. exact clock_frames_int64_boundary. Qed.

(* Second audit (i)8: why there is no [C03_write_is_rendering].  The writer's tree is NOT an instance of [render_ttml]: the
   rendering skeleton always has the three head sections (metadata, styling, layout, in any order) with a title and a
   copyright element, whereas WriteToTTML omits the metadata element when title and copyright are empty and each of the two
   elements when its text is empty (and writes copyright before title).  Generalising the skeleton to optional elements
   would make the writer an instance; it has not been done.  The writer's own output is covered directly, and more
   strongly, by [C03_write_read] (trees, every representable value, every white-space indent option),
   [C03_write_read_bytes_go] (Go's bytes, legal text) and [C03_parse2_written]; its paragraphs ARE renderings in the sense of
   [C03_lines]/[C03_paragraph] (Proofs/TtmlDocB.v: [out_lines] is [render_content] of canonical groups). *)

(* ---------------- totality ---------------- *)
Theorem C03_read_total : forall root s, read_ttml root <> Panic s.
Proof. exact read_ttml_total. Qed.
Print Assumptions C03_read_total.
Theorem C03_write_total : forall d s, write_ttml d <> Panic s.
Proof. exact write_ttml_total. Qed.
Print Assumptions C03_write_total.
Theorem C03_write_empty : forall d, td_items d = [] <-> write_ttml d = Err ENothingToWrite.
Proof. exact write_ttml_empty. Qed.
Print Assumptions C03_write_empty.

(* ---- the model's literals are the constants of the Go source (Proofs/ConstTie.v, Gen/Consts.v regenerated from the
   repository on every run by tools/genconsts): the TTML separators, keywords and names the model spells out equal the
   NAMED package-level constants, struct tags and bidirectional-map entries of the source (literals inside function bodies and
   regexp patterns are deliberately not tied: see Proofs/ConstTie.v).  A closed boolean computed by the kernel. ---- *)
From Astisub Require Proofs.ConstTie Proofs.ConstTieTtml.
Theorem C03_constants_from_source : ConstTie.all ConstTieTtml.TtmlTie.ties = true.
Proof. exact ConstTieTtml.TtmlTie.consts_from_source. Qed.
Print Assumptions C03_constants_from_source.
