(* C03 — TTML codec fidelity (time expressions, line breaks, styles, regions), on the XML tree abstraction
   of Kit/Xml.v: the encoding/xml layer (bytes <-> tree) is a named contract of the trusted base, tied by
   the harness (notes/C03.md). *)
From Coq Require Import List ZArith NArith Bool.
From Astisub Require Import Kit.Base Kit.Str Kit.Xml Model.Dur Model.Ttml Proofs.TtmlBase.
Import ListNotations.

(* reader and writer are total: no document tree and no value makes them panic *)
Theorem C03_read_total : forall root s, read_ttml root <> Panic s.
Proof. exact read_ttml_total. Qed.
Print Assumptions C03_read_total.
Theorem C03_write_total : forall d s, write_ttml d <> Panic s.
Proof. exact write_ttml_total. Qed.
Print Assumptions C03_write_total.
Theorem C03_write_empty : forall d, td_items d = [] <-> write_ttml d = Err ENothingToWrite.
Proof. exact write_ttml_empty. Qed.
Print Assumptions C03_write_empty.
