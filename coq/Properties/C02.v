From Astisub Require Import Kit.Base.
Theorem C02_placeholder : True. Proof. exact I. Qed.
