(* C02 — WebVTT codec fidelity.
   Model: Model/Vtt.v transcribes ReadFromWebVTT (header loop, block state machine, regions, cue settings, the
   X-TIMESTAMP-MAP parser), parseTextWebVTT (tag stack, voices, inline timestamps, over the html tokenizer model)
   and WriteToWebVTT; it agrees with the implementation on every generated, mutated and repository document, on
   the writer's bytes and on hostile single lines (harness).  Theorems: write/read fidelity for ALL representable
   documents (C02_write_read: cues numbered 1..n, times truncated to the millisecond, settings with their fallbacks
   resolved, regions by sorted identifier, STYLE blocks, timestamp map, comments, voices, tag stacks with classes
   and annotations, inline timestamps); a written line parses back to its runs; regions are defined before use
   (for what the writer wrote and for ANY successfully read input); written lines lie inside the tokenizer model's
   faithful domain; line-ending conventions; totality, schedule independence, fault propagation, nothing-to-write,
   independence of the map iteration orders.  Restrictions stated by repr_vdoc / repr_vline (Proofs/VttDoc.v,
   VttLine.v): adjacent runs with identical tag stacks and no timestamp would be merged by the reader and are
   excluded; annotations and voice names hold no quote; setting values and region ids are ASCII without spaces. *)
From Coq Require Import List ZArith NArith Permutation.
From Astisub Require Import Kit.Base Kit.Str Kit.Scan Model.Dur Model.Vtt Proofs.VttIOProofs Proofs.VttBase Proofs.VttLine Proofs.VttSimple Proofs.VttDoc Proofs.EolProofs.
Import ListNotations.

(* writing any representable document, then reading it, returns the document (normalised as the format dictates) *)
Theorem C02_write_read : forall d so ro, repr_vdoc d so ro ->
  exists data, write_vtt d so ro = Ok data /\ read_vtt data = Ok (ndoc d so ro).
Proof. exact write_read_vtt. Qed.
Print Assumptions C02_write_read.

(* the cues read back are numbered 1..n *)
Theorem C02_cues_numbered : forall d so ro,
  map vi_idx (vd_items (ndoc d so ro)) = map Z.of_nat (seq 1 (length (vd_items d))).
Proof. exact written_cues_numbered. Qed.
Print Assumptions C02_cues_numbered.

(* a written text line (voice, tag stacks evolving from run to run, inline timestamps, escaped text) is parsed back
   into its runs; exactly, when the runs are canonical (no empty tag list, times on the millisecond grid) *)
Theorem C02_line_roundtrip : forall l, repr_vline l = true ->
  parse_text_vtt (removelast (vline_bytes l)) [] = (nline l, []).
Proof. exact parse_vline. Qed.
Print Assumptions C02_line_roundtrip.
Theorem C02_line_roundtrip_exact : forall l, repr_vline l = true -> forallb run_canon (vl_runs l) = true ->
  parse_text_vtt (removelast (vline_bytes l)) [] = (l, []).
Proof. exact parse_vline_exact. Qed.
Print Assumptions C02_line_roundtrip_exact.

(* the timestamp map survives (local part to the millisecond) *)
Theorem C02_timestamp_map : forall l m, (0 <= l <= max_int64)%Z -> (0 <= m <= max_int64)%Z ->
  parse_tsmap (tsmap_string (l, m)) = Some (trunc_ms l, m).
Proof. exact parse_tsmap_string. Qed.
Print Assumptions C02_timestamp_map.

(* regions are defined before use: in what the writer wrote ... *)
Theorem C02_written_regions_defined : forall d so ro, repr_vdoc d so ro ->
  Forall (fun it' => match vi_region it' with
                     | Some id => exists rg, aget id (vd_regions (ndoc d so ro)) = Some (nregion rg) /\ rg_id rg = id /\
                                             In (region_line rg) (hdr_lines d so ro)
                     | None => True
                     end) (vd_items (ndoc d so ro)).
Proof. exact written_regions_defined. Qed.
Print Assumptions C02_written_regions_defined.
(* ... and in ANY input the reader accepts *)
Theorem C02_read_regions_defined : forall data d, read_vtt data = Ok d ->
  Forall (fun it => match vi_region it with
                    | Some id => exists rg, aget id (vd_regions d) = Some rg /\ rg_id rg = id
                    | None => True
                    end) (vd_items d).
Proof. exact read_vtt_regions_defined. Qed.
Print Assumptions C02_read_regions_defined.

(* what the writer writes lies inside the domain on which the markup tokenizer model is declared faithful *)
Theorem C02_written_line_in_faithful_domain : forall l, repr_vline l = true -> line_html_ok l = true ->
  vtt_line_simple (removelast (vline_bytes l)) = true.
Proof. exact written_line_simple. Qed.
Print Assumptions C02_written_line_in_faithful_domain.

(* LF, CR LF and lone CR denote the same document *)
Theorem C02_eol : forall e (ls : list str), eol_ok e -> Forall brkfree ls ->
  read_vtt (render_eol e ls) = read_vtt_lines ls false.
Proof. intros e ls He HF. unfold read_vtt. rewrite (lines_render e ls He HF). reflexivity. Qed.
Print Assumptions C02_eol.

(* non-vacuity: a document with comments, a voice, nested tags, an inline timestamp, settings with fallbacks, two
   regions, a STYLE block and a timestamp map satisfies repr_vdoc *)
Example C02_example : repr_vdoc ex_doc ex_so ex_ro.
Proof. exact ex_doc_repr. Qed.

Theorem C02_reader_total : forall ls e p, read_vtt_lines ls e <> Panic p.
Proof. exact read_vtt_lines_no_panic. Qed.
Theorem C02_writer_total : forall d so ro p, write_vtt d so ro <> Panic p.
Proof. exact write_vtt_no_panic. Qed.
Theorem C02_reader_schedule_independent : forall data counts, read_vtt_lines (scan data counts) false = read_vtt data.
Proof. exact read_vtt_schedule. Qed.
Theorem C02_reader_reports_faults : forall ls, exists k, read_vtt_lines ls true = Err k.
Proof. exact read_vtt_fault. Qed.
Theorem C02_nothing_to_write : forall d so ro, vd_items d = [] -> write_vtt d so ro = Err ENothingToWrite.
Proof. exact write_vtt_empty. Qed.
Theorem C02_writer_order_independent : forall d so so' ro ro',
  Permutation so so' -> Permutation ro ro' -> write_vtt d so ro = write_vtt d so' ro'.
Proof. exact write_vtt_order_independent. Qed.

Print Assumptions C02_reader_total.
Print Assumptions C02_writer_total.
Print Assumptions C02_reader_schedule_independent.
Print Assumptions C02_reader_reports_faults.
Print Assumptions C02_nothing_to_write.
Print Assumptions C02_writer_order_independent.
