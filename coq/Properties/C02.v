(* C02 — WebVTT codec fidelity.
   Model: Model/Vtt.v transcribes ReadFromWebVTT (header loop, block state machine, regions, cue settings, the
   X-TIMESTAMP-MAP parser), parseTextWebVTT (tag stack, voices, inline timestamps, over the html tokenizer model)
   and WriteToWebVTT; it agrees with the implementation on every generated, mutated and repository document, on
   the writer's bytes and on hostile single lines (harness).  Theorems: write/read fidelity for ALL representable
   documents (C02_write_read: cues numbered 1..n, times truncated to the millisecond, settings with their fallbacks
   resolved, regions by sorted identifier, STYLE blocks, timestamp map, comments, voices, tag stacks with classes
   and annotations, inline timestamps); a written line parses back to its runs; regions are defined before use
   (for what the writer wrote and for ANY successfully read input); written lines lie inside the tokenizer model's
   faithful domain; line-ending conventions; totality, schedule independence, fault propagation, nothing-to-write,
   independence of the map iteration orders.  READING HALF FOR ALL RENDERINGS (C02_read_rendered, Proofs/VttRead*.v):
   for every rendering -- byte-order mark, header line with trailing text after a blank or tab, timestamp map, STYLE
   block, region definitions, per cue a NOTE block, an identifier line present / absent / not a number, each timestamp
   as mm:ss.ttt or with an hour field of any width, any white space (or none) around the arrow, the settings in any
   order (a repeated key: the last one wins) after spaces or tabs, blank lines (empty or of white space) in any number
   where the format allows them, LF / CR LF / CR -- the reader returns what the document denotes (denote_vtt).  Side
   conditions forced by the proof and outside the property's quantifier are shown necessary by computed
   counter-examples (the C02_read_rendered_needs examples).  Restrictions stated by repr_vdoc / repr_vline (Proofs/VttDoc.v,
   VttLine.v): adjacent runs with identical tag stacks and no timestamp would be merged by the reader and are
   excluded; annotations and voice names hold no quote; setting values and region ids are ASCII without spaces. *)
From Coq Require Import List ZArith NArith Permutation.
From Astisub Require Import Kit.Base Kit.Str Kit.Scan Model.Dur Model.Vtt Proofs.VttIOProofs Proofs.VttBase Proofs.VttLine Proofs.VttSimple Proofs.VttDoc Proofs.EolProofs.
From Astisub Require Import Proofs.VttReadTime Proofs.VttReadLine Proofs.VttReadDoc Proofs.VttReadDec Proofs.VttNeeds Proofs.VttDomain Proofs.VttWriteRender.
From Astisub Require Import Kit.Chk Model.VttC Proofs.VttChk Proofs.VttKeyed.
From Coq Require Strings.String.
Import Strings.String.StringSyntax.
Delimit Scope string_scope with string.
Import ListNotations.

(* writing any representable document, then reading it, returns the document (normalised as the format dictates) *)
Theorem C02_write_read : forall d so ro, repr_vdoc d so ro ->
  exists data, write_vtt d so ro = Ok data /\ read_vtt data = Ok (ndoc d so ro).
Proof. exact write_read_vtt. Qed.
Print Assumptions C02_write_read.

(* the cues read back are numbered 1..n *)
Theorem C02_cues_numbered : forall d so ro,
  map vi_idx (vd_items (ndoc d so ro)) = map Z.of_nat (seq 1 (length (vd_items d))).
Proof. exact written_cues_numbered. Qed.
Print Assumptions C02_cues_numbered.

(* a written text line (voice, tag stacks evolving from run to run, inline timestamps, escaped text) is parsed back
   into its runs; exactly, when the runs are canonical (no empty tag list, times on the millisecond grid) *)
Theorem C02_line_roundtrip : forall l, repr_vline l = true ->
  parse_text_vtt (removelast (vline_bytes l)) [] = (nline l, []).
Proof. exact parse_vline. Qed.
Print Assumptions C02_line_roundtrip.
Theorem C02_line_roundtrip_exact : forall l, repr_vline l = true -> forallb run_canon (vl_runs l) = true ->
  parse_text_vtt (removelast (vline_bytes l)) [] = (l, []).
Proof. exact parse_vline_exact. Qed.
Print Assumptions C02_line_roundtrip_exact.

(* the timestamp map survives (local part to the millisecond) *)
Theorem C02_timestamp_map : forall l m, (0 <= l <= max_int64)%Z -> (0 <= m <= max_int64)%Z ->
  parse_tsmap (tsmap_string (l, m)) = Some (trunc_ms l, m).
Proof. exact parse_tsmap_string. Qed.
Print Assumptions C02_timestamp_map.

(* regions are defined before use: in what the writer wrote ... *)
Theorem C02_written_regions_defined : forall d so ro, repr_vdoc d so ro ->
  Forall (fun it' => match vi_region it' with
                     | Some id => exists rg, aget id (vd_regions (ndoc d so ro)) = Some (nregion rg) /\ rg_id rg = id /\
                                             In (region_line rg) (hdr_lines d so ro)
                     | None => True
                     end) (vd_items (ndoc d so ro)).
Proof. exact written_regions_defined. Qed.
Print Assumptions C02_written_regions_defined.
(* ... and in ANY input the reader accepts *)
Theorem C02_read_regions_defined : forall data d, read_vtt data = Ok d ->
  Forall (fun it => match vi_region it with
                    | Some id => exists rg, aget id (vd_regions d) = Some rg /\ rg_id rg = id
                    | None => True
                    end) (vd_items d).
Proof. exact read_vtt_regions_defined. Qed.
Print Assumptions C02_read_regions_defined.

(* FAITHFUL DOMAIN.  The cue-text parser is modelled over a model of the golang.org/x/net/html tokenizer that is faithful
   to the real one only on [vtt_line_simple] lines (Kit/Html.v [html_simple], Model/Vtt.v): no raw-text element (script,
   style, title, textarea, xmp, iframe, noembed, noframes, noscript, plaintext -- after such a start tag the real
   tokenizer reads up to the matching end tag, for plaintext to the end of the line, as ONE text token), no comment /
   declaration token, no '&' or CR inside an attribute value, no NUL, every start tag of the plain shape.  A theorem
   about a line outside that domain would be a statement about the model only, so the representability predicates
   contain the domain: [rtag_ok] (Proofs/VttLine.v) demands that the element name a tag is written with (name and dotted
   classes, lower-cased) is not a raw-text element, that its annotation holds no '&' and no CR, and that name, classes
   and annotation hold no NUL; [run_ok] that the text holds no NUL; [voice_ok] the same of the voice name.  Hence
   [repr_vline] ALONE -- the hypothesis of C02_line_roundtrip, and through [text_line_ok] of C02_write_read
   ([repr_vdoc]) and C02_read_rendered ([rendering_okb] / [gcue_ok]) -- puts what the writer writes inside the domain: *)
Theorem C02_written_line_in_faithful_domain : forall l, repr_vline l = true ->
  vtt_line_simple (removelast (vline_bytes l)) = true.
Proof. exact written_line_simple. Qed.
Print Assumptions C02_written_line_in_faithful_domain.
(* every cue-text line of a representable document (the lines C02_write_read writes and reads back) ... *)
Theorem C02_written_text_in_faithful_domain : forall d so ro, repr_vdoc d so ro ->
  Forall (fun it => forallb vtt_line_simple (text_lines (vi_lines it)) = true) (vd_items d).
Proof. exact repr_vdoc_text_simple. Qed.
Print Assumptions C02_written_text_in_faithful_domain.
(* ... and every cue-text line of a rendering accepted by the side condition of C02_read_rendered *)
Theorem C02_rendered_text_in_faithful_domain : forall h g cues eof, rendering_okb h g cues eof = true ->
  Forall (fun p => forallb vtt_line_simple (text_lines (gc_lines (snd p))) = true) cues.
Proof. exact rendered_text_simple. Qed.
Print Assumptions C02_rendered_text_in_faithful_domain.
(* the condition is needed (the audit witness): the line with the runs [<title>]x and y is written "<title>x</title>y",
   which is outside the domain; the strengthened [repr_vline] rejects it.  The same for every raw-text element name in
   either case; an ordinary name, and a raw-text name that carries a class ("title.k" is another element for the
   tokenizer), are accepted.  Where model and library really differ (replayed on the library): for <plaintext>x</plaintext>y
   the library returns ONE run "x</plaintext>y", for <title>x<b>z</b></title>y the runs "x<b>z</b>" and "y"; the model
   reads the runs x, y resp. x, z, y *)
Example C02_needs_no_raw_text_tag :
  repr_vline (ln_raw (b "title")) = false /\
  removelast (vline_bytes (ln_raw (b "title"))) = b "<title>x</title>y" /\
  vtt_line_simple (removelast (vline_bytes (ln_raw (b "title")))) = false.
Proof. exact needs_no_raw_text_tag. Qed.
Example C02_needs_no_raw_text_tag_all :
  forallb (fun n => andb (negb (repr_vline (ln_raw n))) (negb (vtt_line_simple (removelast (vline_bytes (ln_raw n)))))) (b "TITLE" :: b "Script" :: Kit.Html.raw_text_tags) = true /\
  repr_vline (ln_raw (b "b")) = true /\
  repr_vline (mkVline [mkVrun (b "x") (Some [mkVtag (b "title") [] [b "k"]]) 0%Z None; plain_run (b "y")] []) = true.
Proof. exact needs_no_raw_text_tag_all. Qed.
Example C02_needs_no_raw_text_tag_model_reads :
  repr_vline (ln_raw (b "plaintext")) = false /\
  removelast (vline_bytes (ln_raw (b "plaintext"))) = b "<plaintext>x</plaintext>y" /\
  map vr_text (vl_runs (fst (parse_text_vtt (b "<plaintext>x</plaintext>y") []))) = [b "x"; b "y"] /\
  repr_vline ln_raw_nested = false /\
  removelast (vline_bytes ln_raw_nested) = b "<title>x<b>z</b></title>y" /\
  map vr_text (vl_runs (fst (parse_text_vtt (b "<title>x<b>z</b></title>y") []))) = [b "x"; b "z"; b "y"].
Proof. exact needs_no_raw_text_tag_model_reads. Qed.
(* likewise '&' inside an attribute value of an annotation / voice name, and a NUL byte *)
Example C02_needs_annot_no_amp :
  repr_vline (mkVline [plain_run (b "x")] (b "A=B&C")) = false /\
  vtt_line_simple (removelast (vline_bytes (mkVline [plain_run (b "x")] (b "A=B&C")))) = false /\
  repr_vline (mkVline [mkVrun (b "x") (Some [mkVtag (b "lang") (b "k=a&b") []]) 0%Z None] []) = false /\
  vtt_line_simple (removelast (vline_bytes (mkVline [mkVrun (b "x") (Some [mkVtag (b "lang") (b "k=a&b") []]) 0%Z None] []))) = false.
Proof. exact needs_annot_no_amp. Qed.
Example C02_needs_no_nul :
  repr_vline (mkVline [plain_run [120; 0; 121]%N] []) = false /\
  vtt_line_simple (removelast (vline_bytes (mkVline [plain_run [120; 0; 121]%N] []))) = false /\
  repr_vline (mkVline [mkVrun (b "x") (Some [mkVtag [99; 0]%N [] []]) 0%Z None] []) = false /\
  vtt_line_simple (removelast (vline_bytes (mkVline [mkVrun (b "x") (Some [mkVtag [99; 0]%N [] []]) 0%Z None] []))) = false.
Proof. exact needs_no_nul. Qed.

(* LF, CR LF and lone CR denote the same document *)
Theorem C02_eol : forall e (ls : list str), eol_ok e -> Forall brkfree ls ->
  read_vtt (render_eol e ls) = read_vtt_lines ls false.
Proof. intros e ls He HF. unfold read_vtt. rewrite (lines_render e ls He HF). reflexivity. Qed.
Print Assumptions C02_eol.

(* ---- the reading half, for all renderings ---- *)
(* a timestamp in any spelling (hours absent when zero, or an hour field of any width), followed by any white space *)
Theorem C02_timestamp_spellings : forall hf t w, hform_ok hf t -> (0 <= t <= max_int64)%Z -> SrtReadProofs.ws w ->
  parse_vtt (ts_render hf t ++ w) = Some (trunc_ms t).
Proof. exact parse_vtt_ts. Qed.
(* the document, as lines: general side conditions (Prop) ... *)
Theorem C02_read_rendered_lines : forall h g cues eof,
  hrend_ok h g -> gdoc_ok g ->
  Forall (fun p => gcue_ok (denote_regions g) (snd p) /\ crend_ok (fst p) (snd p)) cues ->
  Forall (fun p => cr_before (fst p) <> []) (tl cues) -> Forall blank eof ->
  read_vtt_lines (render_vtt h g cues eof) false = Ok (denote_vtt g cues) /\
  forallb nobrk (render_vtt h g cues eof) = true.
Proof. exact read_rendered_vtt. Qed.
(* ... and as bytes under every line-ending convention, the side conditions as one decidable check *)
Theorem C02_read_rendered : forall e h g cues eof, eol_ok e -> rendering_okb h g cues eof = true ->
  read_vtt (render_eol e (render_vtt h g cues eof)) = Ok (denote_vtt g cues).
Proof. exact read_rendered_vtt_bytes. Qed.
(* a worked instance that uses every freedom at once (BOM, header text, timestamp map, STYLE block ended by a line of
   blanks, two regions, NOTE block, identifiers absent / numeric / not a number, mm:ss.ttt, hour fields of 1, 3 and 4
   digits, hours >= 100, tabs and no space around the arrow, settings shuffled and repeated, zero to two blank lines) *)
Example C02_read_rendered_example : forall e, eol_ok e ->
  read_vtt (render_eol e (render_vtt x_h x_g x_cues x_eof)) = Ok (denote_vtt x_g x_cues).
Proof. exact x_read. Qed.
Example C02_read_rendered_example_denotes :
  map (fun it => (vi_idx it, vi_st it, vi_en it, vi_comments it, vi_region it, vi_set it, length (vi_lines it))) (vd_items (denote_vtt x_g x_cues)) =
  [(0%Z, 1000000000%Z, 2500000000%Z, [b "a comment"; b "more"], Some (b "fred"), Some (mkVset (b "end") [] [] [] (b "rl")), 2%nat);
   (42%Z, 3723004000000%Z, 442800500000000%Z, [], None, Some vset0, 1%nat);
   (0%Z, 5000000000%Z, 6000000000%Z, [], None, Some (mkVset [] [] [] (b "50%") []), 0%nat)].
Proof. exact x_denotes. Qed.
(* the side conditions the proof forced, each shown necessary on a computed instance (and replayed on the library by the
   harness suite vtt.needs): a blank line between a cue's text and the next identifier; a blank line after a NOTE block;
   hours left out only when zero; a STYLE block ends with a line ending in a closing brace; region identifiers distinct;
   a region defined before it is referred to *)
Example C02_read_rendered_needs_gap :
  map (fun it => (vi_idx it, length (vi_lines it))) (match read_vtt_lines (render_vtt x_h x_g [x_c1; n_c2_nogap] []) false with Ok d => vd_items d | _ => [] end)
    = [(0%Z, 3%nat); (0%Z, 1%nat)] /\
  map (fun it => (vi_idx it, length (vi_lines it))) (vd_items (denote_vtt x_g [x_c1; n_c2_nogap])) = [(0%Z, 2%nat); (42%Z, 1%nat)].
Proof. exact read_rendered_needs_gap. Qed.
Example C02_read_rendered_needs_note_blank :
  map (fun it => (vi_idx it, vi_comments it)) (match read_vtt_lines (render_vtt x_h x_g [n_c1_nonoteblank] []) false with Ok d => vd_items d | _ => [] end)
    = [(0%Z, [b "note"; b "42"])] /\
  map (fun it => (vi_idx it, vi_comments it)) (vd_items (denote_vtt x_g [n_c1_nonoteblank])) = [(42%Z, [b "note"])].
Proof. exact read_rendered_needs_note_blank. Qed.
Example C02_read_rendered_needs_hours :
  map vi_st (match read_vtt_lines (render_vtt x_h x_g [n_c_hours] []) false with Ok d => vd_items d | _ => [] end) = [123004000000%Z] /\
  map vi_st (vd_items (denote_vtt x_g [n_c_hours])) = [3723004000000%Z].
Proof. exact read_rendered_needs_hours. Qed.
Example C02_read_rendered_needs_style_brace :
  n_items (read_vtt_lines (render_vtt x_h n_g_style [x_c2] []) false) = 1%nat /\
  match read_vtt_lines (render_vtt x_h n_g_style [x_c2] []) false with
  | Ok d => map snd (vd_styles d) = [Some [b "::cue { color: red"; b "42"]] /\ map vi_idx (vd_items d) = [0%Z]
  | _ => False
  end.
Proof. exact read_rendered_needs_style_brace. Qed.
Example C02_read_rendered_needs_distinct_regions :
  match read_vtt_lines (render_vtt x_h n_g_dupreg [x_c2] []) false with Ok d => length (vd_regions d) | _ => 0%nat end = 1%nat /\
  length (vd_regions (denote_vtt n_g_dupreg [x_c2])) = 2%nat.
Proof. exact read_rendered_needs_distinct_regions. Qed.
Example C02_read_rendered_needs_region_defined : read_vtt_lines (render_vtt x_h n_g_noreg [x_c1] []) false = Err EUnknownRef.
Proof. exact read_rendered_needs_region_defined. Qed.

(* non-vacuity: a document with comments, a voice, nested tags, an inline timestamp, settings with fallbacks, two
   regions, a STYLE block and a timestamp map satisfies repr_vdoc *)
Example C02_example : repr_vdoc ex_doc ex_so ex_ro.
Proof. exact ex_doc_repr. Qed.

Theorem C02_reader_total : forall ls e p, read_vtt_lines ls e <> Panic p.
Proof. exact read_vtt_lines_no_panic. Qed.
Theorem C02_writer_total : forall d so ro p, write_vtt d so ro <> Panic p.
Proof. exact write_vtt_no_panic. Qed.
Theorem C02_reader_schedule_independent : forall data counts, read_vtt_lines (scan data counts) false = read_vtt data.
Proof. exact read_vtt_schedule. Qed.
Theorem C02_reader_reports_faults : forall ls, exists k, read_vtt_lines ls true = Err k.
Proof. exact read_vtt_fault. Qed.
Theorem C02_nothing_to_write : forall d so ro, vd_items d = [] -> write_vtt d so ro = Err ENothingToWrite.
Proof. exact write_vtt_empty. Qed.
Theorem C02_writer_order_independent : forall d so so' ro ro',
  Permutation so so' -> Permutation ro ro' -> write_vtt d so ro = write_vtt d so' ro'.
Proof. exact write_vtt_order_independent. Qed.

Print Assumptions C02_reader_total.
Print Assumptions C02_writer_total.
Print Assumptions C02_reader_schedule_independent.
Print Assumptions C02_reader_reports_faults.
Print Assumptions C02_nothing_to_write.
Print Assumptions C02_writer_order_independent.
Print Assumptions C02_timestamp_spellings.
Print Assumptions C02_read_rendered_lines.
Print Assumptions C02_read_rendered.
Print Assumptions C02_read_rendered_example.

(* ---- the writing half, without the reader (Proofs/VttWriteRender.v) ----
   What the writer produces is stated by a rendering, in the sense of the reading half: the canonical rendering of d with
   key orders so, ro is render_vtt (w_hrend d so ro) (w_gdoc d so ro) (w_cues d) [] -- no byte-order mark, nothing after
   WEBVTT, one empty line after the header, after the STYLE block, after the region definitions and between cues, each
   cue with its number (from 1) as identifier, hh:mm:ss.ttt timestamps (hour field wider when needed), one space on either
   side of the arrow and before each setting, the settings in the writer's order, a NOTE block ended by one empty line,
   every line ended by LF, nothing after the last cue's text.
   C02_write_is_rendering: the writer's bytes ARE that rendering (structural: the document has a cue, region keys are
   the region identifiers, no time is negative -- needed, C02_write_is_rendering_needs_nonneg).
   C02_write_denotes: that rendering denotes ndoc d so ro (denote_vtt; the reader does not occur in the statement).
   C02_write_rendering_ok: for a representable document the rendering satisfies the side conditions of the reading half's
   theorem C02_read_rendered_lines (also when a cue refers to the region with the EMPTY identifier, written region: with
   nothing after the colon: C02_write_rendering_empty_region_id).
   C02_write_read_via_rendering: hence write -> read re-derived from the rendering theorem and the reading half alone
   (C02_write_read is not used). *)
Theorem C02_write_is_rendering : forall d so ro, vd_items d <> [] -> regions_keyed d ro -> times_nonneg d ->
  write_vtt d so ro = Ok (render_eol [10%N] (render_vtt (w_hrend d so ro) (w_gdoc d so ro) (w_cues d) [])).
Proof. exact write_is_rendering. Qed.
Print Assumptions C02_write_is_rendering.
Theorem C02_write_is_rendering_repr : forall d so ro, repr_vdoc d so ro ->
  write_vtt d so ro = Ok (render_eol [10%N] (render_vtt (w_hrend d so ro) (w_gdoc d so ro) (w_cues d) [])).
Proof. exact write_is_rendering_repr. Qed.
Print Assumptions C02_write_is_rendering_repr.
Theorem C02_write_denotes : forall d so ro, repr_vdoc d so ro -> denote_vtt (w_gdoc d so ro) (w_cues d) = ndoc d so ro.
Proof. exact write_denotes. Qed.
Print Assumptions C02_write_denotes.
Theorem C02_write_denotes_count : forall d so ro, (Z.of_nat (length (vd_items d)) <= max_int64)%Z ->
  denote_vtt (w_gdoc d so ro) (w_cues d) = ndoc d so ro.
Proof. exact write_denotes_count. Qed.
Print Assumptions C02_write_denotes_count.
Theorem C02_write_rendering_ok : forall d so ro, repr_vdoc d so ro ->
  hrend_ok (w_hrend d so ro) (w_gdoc d so ro) /\ gdoc_ok (w_gdoc d so ro) /\
  Forall (fun p => gcue_ok (denote_regions (w_gdoc d so ro)) (snd p) /\ crend_ok (fst p) (snd p)) (w_cues d) /\
  Forall (fun p => cr_before (fst p) <> []) (tl (w_cues d)) /\ Forall blank (@nil str).
Proof. exact write_rendering_ok. Qed.
Print Assumptions C02_write_rendering_ok.
Theorem C02_write_read_via_rendering : forall d so ro, repr_vdoc d so ro ->
  exists data, write_vtt d so ro = Ok data /\
    data = render_eol [10%N] (render_vtt (w_hrend d so ro) (w_gdoc d so ro) (w_cues d) []) /\
    read_vtt data = Ok (denote_vtt (w_gdoc d so ro) (w_cues d)) /\
    denote_vtt (w_gdoc d so ro) (w_cues d) = ndoc d so ro.
Proof. exact write_read_via_rendering. Qed.
Print Assumptions C02_write_read_via_rendering.
(* a rendering given as bytes is read under the general side conditions too (C02_read_rendered has the decidable check) *)
Theorem C02_read_rendered_bytes_gen : forall e h g cues eof, eol_ok e ->
  hrend_ok h g -> gdoc_ok g ->
  Forall (fun p => gcue_ok (denote_regions g) (snd p) /\ crend_ok (fst p) (snd p)) cues ->
  Forall (fun p => cr_before (fst p) <> []) (tl cues) -> Forall blank eof ->
  read_vtt (render_eol e (render_vtt h g cues eof)) = Ok (denote_vtt g cues).
Proof. exact read_rendered_vtt_bytes_gen. Qed.
Print Assumptions C02_read_rendered_bytes_gen.
(* the worked instance: the document of C02_example, its canonical rendering line by line, the writer's bytes, the
   decidable check of the reading half, the denotation *)
Example C02_write_rendering_example_lines :
  render_vtt (w_hrend ex_doc ex_so ex_ro) (w_gdoc ex_doc ex_so ex_ro) (w_cues ex_doc) [] =
  [b "WEBVTT"; b "X-TIMESTAMP-MAP=LOCAL:00:00:05.000,MPEGTS:900000"; [];
   b "STYLE"; b "::cue {"; b "color: red }"; [];
   b "Region: id=bill";
   b "Region: id=fred lines=3 regionanchor=0%,100% scroll=up viewportanchor=10%,90% width=40%"; [];
   b "NOTE a comment"; b "more"; [];
   b "1"; b "00:00:01.000 --> 00:00:02.500 align:start line:-1 position:10% region:fred vertical:rl";
   b "<v Bob><c.red.big>Hello </c><00:00:01.500>world"; b "second"; [];
   b "2"; b "00:00:03.000 --> 00:00:04.000"; b "second"].
Proof. exact ex_write_lines. Qed.
Example C02_write_rendering_example :
  write_vtt ex_doc ex_so ex_ro =
    Ok (render_eol [10%N] (render_vtt (w_hrend ex_doc ex_so ex_ro) (w_gdoc ex_doc ex_so ex_ro) (w_cues ex_doc) [])) /\
  rendering_okb (w_hrend ex_doc ex_so ex_ro) (w_gdoc ex_doc ex_so ex_ro) (w_cues ex_doc) [] = true /\
  denote_vtt (w_gdoc ex_doc ex_so ex_ro) (w_cues ex_doc) = ndoc ex_doc ex_so ex_ro.
Proof. exact (conj ex_write_is_rendering (conj ex_write_rendering_okb ex_write_denotes)). Qed.
(* the side conditions are needed / come from where the comment block says *)
Example C02_write_is_rendering_needs_nonneg :
  write_vtt neg_doc [] [] = Ok (b "WEBVTT" ++ [10; 10]%N ++ b "1" ++ [10%N] ++ b "00:00:00.0-1 --> 00:00:01.000" ++ [10%N] ++ b "second" ++ [10%N]) /\
  render_vtt (w_hrend neg_doc [] []) (w_gdoc neg_doc [] []) (w_cues neg_doc) [] =
  [b "WEBVTT"; []; b "1"; b "0-1:59:59.999 --> 00:00:01.000"; b "second"].
Proof. exact write_is_rendering_needs_nonneg. Qed.
Example C02_write_rendering_empty_region_id :
  repr_vdoc noid_doc [] [[]] /\
  render_vtt (w_hrend noid_doc [] [[]]) (w_gdoc noid_doc [] [[]]) (w_cues noid_doc) [] =
  [b "WEBVTT"; []; b "Region: id="; []; b "1"; b "00:00:00.000 --> 00:00:01.000 region:"; b "second"] /\
  rendering_okb (w_hrend noid_doc [] [[]]) (w_gdoc noid_doc [] [[]]) (w_cues noid_doc) [] = true.
Proof. exact (conj noid_doc_repr write_rendering_empty_region_id). Qed.

(* ---- the model the harness runs has explicit panic sites (C08) ----
   Model/VttC.v transcribes webvtt.go with every index expression, slice expression and pointer dereference as a
   checked access that yields Panic <line of webvtt.go> when out of range / nil, behind the guard the Go code tests (the
   table of sites is in notes/C02.md).  It is the function the extracted driver runs against the library; the theorems of
   this file are stated on the pattern-matching transcription, which computes the same function: *)
Theorem C02_checked_reader_agrees : forall ls e, read_vtt_lines_c ls e = read_vtt_lines ls e.
Proof. exact read_vtt_lines_c_ok. Qed.
Print Assumptions C02_checked_reader_agrees.
Theorem C02_checked_writer_agrees : forall d so ro, write_vtt_c d so ro = write_vtt d so ro.
Proof. exact write_vtt_c_ok. Qed.
Print Assumptions C02_checked_writer_agrees.
(* no panic site of webvtt.go is reachable (the content: each guard implies its access is in range / non-nil) *)
Theorem C02_checked_reader_total : forall ls e p, read_vtt_lines_c ls e <> Panic p.
Proof. exact read_vtt_lines_c_no_panic. Qed.
Print Assumptions C02_checked_reader_total.
Theorem C02_checked_writer_total : forall d so ro p, write_vtt_c d so ro <> Panic p.
Proof. exact write_vtt_c_no_panic. Qed.
Print Assumptions C02_checked_writer_total.

(* ---- the writer over keyed maps (second audit, N5; webvtt.go:491-565 after the library fix a3e0487) ----
   Subtitles.Styles and Subtitles.Regions are Go maps: a key need not be the ID field of the value under it and a value
   may be nil.  [so] and [ro] are ALL the keys of the two maps (in the order the runtime ranges over them: irrelevant by
   C02_writer_order_independent); the value under a key is its look-up in vd_styles / vd_regions, None standing for a nil
   pointer (for a style, Some None is a Style whose InlineStyle is nil).  For EVERY document with a cue and all key lists
   -- no key = id hypothesis, no distinctness hypothesis -- the bytes are the lines of keyed_hdr_lines followed by the cue
   lines: header, timestamp map, the STYLE block made of the WebVTTStyles found under the sorted style keys, one Region
   line per non-nil value in the order of the sorted KEYS (keyed_regions) showing the value's own ID, and one empty line
   when the regions map has a key at all, nil values included (match ro with nil => no line).  When every listed key
   carries a value whose ID is the key (regions_keyed, which repr_vdoc implies) this is the reading by identifier of
   C02_write_read (hdr_lines).  The Examples are the inputs run on the library (notes/C02.md, section N5): the audit's
   witness Regions{b:{ID:x}, a:{ID:y}} writes the line of y before the line of x, whatever the iteration order; a map
   with only nil values writes the empty line alone; two keys with one ID write two lines. *)
Theorem C02_writer_keyed_maps : forall d so ro, vd_items d <> [] ->
  write_vtt d so ro = Ok (removelast (unlines (keyed_hdr_lines d so ro ++ items_lines 0 (vd_items d)))).
Proof. exact write_vtt_keyed. Qed.
Print Assumptions C02_writer_keyed_maps.
Theorem C02_writer_keyed_maps_by_id : forall d so ro, regions_keyed d ro -> keyed_hdr_lines d so ro = hdr_lines d so ro.
Proof. exact keyed_hdr_lines_keyed. Qed.
Print Assumptions C02_writer_keyed_maps_by_id.
Example C02_writer_keyed_maps_witness : forall ro, In ro [[b "b"; b "a"]; [b "a"; b "b"]] ->
  write_vtt (mkVdoc [kx_item] [(b "b", mkVregion (b "x") None None); (b "a", mkVregion (b "y") None None)] [] None) [] ro =
  Ok (b "WEBVTT" ++ [10; 10]%N ++ b "Region: id=y" ++ [10%N] ++ b "Region: id=x" ++ [10; 10]%N ++
      b "1" ++ [10%N] ++ b "00:00:01.000 --> 00:00:02.000" ++ [10%N] ++ b "a" ++ [10%N]).
Proof. exact keyed_witness. Qed.
Example C02_writer_keyed_maps_only_nil :
  write_vtt (mkVdoc [kx_item] [] [] None) [] [b "b"; b "a"] =
  Ok (b "WEBVTT" ++ [10; 10; 10]%N ++ b "1" ++ [10%N] ++ b "00:00:01.000 --> 00:00:02.000" ++ [10%N] ++ b "a" ++ [10%N]) /\
  write_vtt (mkVdoc [kx_item] [] [] None) [] [] =
  Ok (b "WEBVTT" ++ [10; 10]%N ++ b "1" ++ [10%N] ++ b "00:00:01.000 --> 00:00:02.000" ++ [10%N] ++ b "a" ++ [10%N]).
Proof. exact keyed_only_nil. Qed.
Example C02_writer_keyed_maps_duplicate_id :
  write_vtt (kx_doc [(b "b", kx_rg "x" "10%"); (b "a", kx_rg "x" "20%")] []) [] [b "b"; b "a"] =
  Ok (b "WEBVTT" ++ [10; 10]%N ++ b "Region: id=x width=20%" ++ [10%N] ++ b "Region: id=x width=10%" ++ [10; 10]%N ++
      b "1" ++ [10%N] ++ b "00:00:01.000 --> 00:00:02.000" ++ [10%N] ++ b "a" ++ [10%N]).
Proof. exact keyed_duplicate_id. Qed.
Example C02_writer_keyed_maps_styles :
  write_vtt (kx_doc [] [(b "b", Some [b "sb1"; b "sb2"]); (b "a", Some [b "sa"])]) [b "b"; b "a"] [] =
  Ok (b "WEBVTT" ++ [10; 10]%N ++ b "STYLE" ++ [10%N] ++ b "sa" ++ [10%N] ++ b "sb1" ++ [10%N] ++ b "sb2" ++ [10; 10]%N ++
      b "1" ++ [10%N] ++ b "00:00:01.000 --> 00:00:02.000" ++ [10%N] ++ b "a" ++ [10%N]).
Proof. exact (proj1 keyed_styles). Qed.
(* ---- the scanner's line limit (second audit, item N3; Proofs/LineBound.v, Proofs/LineBoundVtt.v) ----
   The theorems above are stated on the unbounded line splitter (read_vtt data = read_vtt_lines (lines data) false).  The real
   reader takes its lines from a bufio.Scanner with the default buffer: a line of 65536 bytes or more makes ReadFromWebVTT
   fail with bufio.ErrTooLong.  A document whose one cue has a text line of 65536 letters satisfies repr_vdoc; the library
   writes it and cannot read it back, so C02_write_read, C02_read_rendered (_lines on lines is not affected),
   C02_write_read_via_rendering, C02_read_rendered_bytes_gen and C02_eol are true of the library only below that size.  The
   statements that are true of the library carry the line bound; they are about read_vtt_lim max data counts = the reader over
   the limit-aware scanner of C17 (buffer of max bytes -- the real value is max_scan_token = 65536 --, delivery schedule
   counts), for EVERY max and EVERY schedule (lines_within: every line two bytes shorter than the buffer, the bound of
   C17_readers_within_limit, enough for all three line ends; lines_within_lf: one byte shorter, exact for the LF-terminated
   bytes of the writer; line_beyond_lf: some line of max bytes or more):
   C02_write_read_within_limit       the round trip, bound on the written bytes;
   C02_write_read_exact_limit        the writer's bytes are read back when no written line has max bytes or more, and
                                     REFUSED (an error, never a shorter document) when one has;
   C02_written_lines_within_limit, C02_write_read_doc_within_limit   the bound stated on the document: the header lines
                                     (timestamp map, STYLE block, region definitions), per cue the NOTE lines, the timing line
                                     (times and settings) and the text lines; the identifier line has at most 19 bytes;
   C02_read_rendered_within_limit, C02_read_rendered_gen_within_limit, C02_eol_within_limit   every rendering, every line end;
   C02_refused_beyond_limit          the refusal under the structural conditions of C02_write_is_rendering alone;
   C02_line_bound_sharp              one cue with a text line of n letters (representable for every n > 0): read back iff
                                     n + 1 <= max, for every max >= 30 and every schedule;
   C02_needs_line_bound              the same by computation on a buffer of 48 bytes, with the error returned (EIO: the
                                     scanner's error); 47 letters pass with LF and fail once the lines end in CR LF;
   C02_real_line_bound               the real constant: 65535 letters are read back, 65536 refused, under every schedule,
                                     while the document with 65536 letters satisfies repr_vdoc.
   Replayed on the library by the harness suite vtt.linebound (lines of 65533 .. 65537 bytes). *)
From Coq Require Import Arith.
From Astisub Require Import Kit.ScanLim Proofs.ScanLimProofs Proofs.LineBound Proofs.LineBoundVtt.

Theorem C02_write_read_within_limit : forall (max : nat) d so ro, (0 < max)%nat -> repr_vdoc d so ro ->
  forall data, write_vtt d so ro = Ok data -> lines_within max (lines data) ->
  forall counts, read_vtt_lim max data counts = Ok (ndoc d so ro).
Proof. exact write_read_vtt_within. Qed.
Print Assumptions C02_write_read_within_limit.

Theorem C02_write_read_exact_limit : forall (max : nat) d so ro, (0 < max)%nat -> repr_vdoc d so ro ->
  exists data, write_vtt d so ro = Ok data /\
    (lines_within_lf max (render_vtt (w_hrend d so ro) (w_gdoc d so ro) (w_cues d) []) ->
       forall counts, read_vtt_lim max data counts = Ok (ndoc d so ro)) /\
    (line_beyond_lf max (render_vtt (w_hrend d so ro) (w_gdoc d so ro) (w_cues d) []) ->
       forall counts, exists k, read_vtt_lim max data counts = Err k).
Proof. exact write_read_vtt_exact. Qed.
Print Assumptions C02_write_read_exact_limit.

Theorem C02_written_lines_within_limit : forall (max : nat) d so ro, (21 <= max)%nat -> repr_vdoc d so ro ->
  lines_within max (hdr_lines d so ro) /\
  Forall (fun it => lines_within max (note_lines (vi_comments it)) /\ (length (timing_line it) + 2 <= max)%nat /\
                    lines_within max (text_lines (vi_lines it))) (vd_items d) ->
  lines_within max (render_vtt (w_hrend d so ro) (w_gdoc d so ro) (w_cues d) []).
Proof. exact vtt_lines_within. Qed.
Print Assumptions C02_written_lines_within_limit.

Theorem C02_write_read_doc_within_limit : forall (max : nat) d so ro, (21 <= max)%nat -> repr_vdoc d so ro ->
  lines_within max (hdr_lines d so ro) /\
  Forall (fun it => lines_within max (note_lines (vi_comments it)) /\ (length (timing_line it) + 2 <= max)%nat /\
                    lines_within max (text_lines (vi_lines it))) (vd_items d) ->
  exists data, write_vtt d so ro = Ok data /\ forall counts, read_vtt_lim max data counts = Ok (ndoc d so ro).
Proof. exact write_read_vtt_doc_within. Qed.
Print Assumptions C02_write_read_doc_within_limit.

Theorem C02_read_rendered_within_limit : forall (max : nat) e h g cues eof, (0 < max)%nat -> eol_ok e ->
  rendering_okb h g cues eof = true -> lines_withinb max (render_vtt h g cues eof) = true ->
  forall counts, read_vtt_lim max (render_eol e (render_vtt h g cues eof)) counts = Ok (denote_vtt g cues).
Proof. exact read_rendered_vtt_okb_within. Qed.
Print Assumptions C02_read_rendered_within_limit.

Theorem C02_read_rendered_gen_within_limit : forall (max : nat) e h g cues eof, (0 < max)%nat -> eol_ok e ->
  hrend_ok h g -> gdoc_ok g ->
  Forall (fun p => gcue_ok (denote_regions g) (snd p) /\ crend_ok (fst p) (snd p)) cues ->
  Forall (fun p => cr_before (fst p) <> []) (tl cues) -> Forall blank eof ->
  lines_within max (render_vtt h g cues eof) ->
  forall counts, read_vtt_lim max (render_eol e (render_vtt h g cues eof)) counts = Ok (denote_vtt g cues).
Proof. exact read_rendered_vtt_within. Qed.
Print Assumptions C02_read_rendered_gen_within_limit.

Theorem C02_eol_within_limit : forall (max : nat) e (ls : list str) counts, (0 < max)%nat -> eol_ok e ->
  Forall brkfree ls -> lines_within max ls -> read_vtt_lim max (render_eol e ls) counts = read_vtt_lines ls false.
Proof. exact read_vtt_lim_eol. Qed.
Print Assumptions C02_eol_within_limit.

Theorem C02_refused_beyond_limit : forall (max : nat) d so ro, vd_items d <> [] -> regions_keyed d ro -> times_nonneg d ->
  Forall brkfree (render_vtt (w_hrend d so ro) (w_gdoc d so ro) (w_cues d) []) ->
  line_beyond_lf max (render_vtt (w_hrend d so ro) (w_gdoc d so ro) (w_cues d) []) ->
  exists data, write_vtt d so ro = Ok data /\ forall counts, exists k, read_vtt_lim max data counts = Err k.
Proof. exact write_vtt_beyond. Qed.
Print Assumptions C02_refused_beyond_limit.

(* the bound is needed and sharp: a_vdoc n = one cue, one text line of n letters a (timing line: 29 bytes); representable
   for every n > 0, read back iff n + 1 <= max, for every buffer size above the timing line and every schedule *)
Theorem C02_line_bound_sharp : forall (max : nat) (n : N), (30 <= max)%nat -> (0 < n)%N ->
  repr_vdoc (a_vdoc n) [] [] /\
  exists data, write_vtt (a_vdoc n) [] [] = Ok data /\ read_vtt data = Ok (ndoc (a_vdoc n) [] []) /\
    ((N.to_nat n + 1 <= max)%nat -> forall counts, read_vtt_lim max data counts = Ok (ndoc (a_vdoc n) [] [])) /\
    ((max < N.to_nat n + 1)%nat -> forall counts, exists k, read_vtt_lim max data counts = Err k).
Proof. exact vtt_line_bound_sharp. Qed.
Print Assumptions C02_line_bound_sharp.

Theorem C02_real_line_bound :
  repr_vdoc (a_vdoc 65536) [] [] /\
  (exists data, write_vtt (a_vdoc 65535) [] [] = Ok data /\
     forall counts, read_vtt_lim max_scan_token data counts = Ok (ndoc (a_vdoc 65535) [] [])) /\
  (exists data, write_vtt (a_vdoc 65536) [] [] = Ok data /\ read_vtt data = Ok (ndoc (a_vdoc 65536) [] []) /\
     forall counts, exists k, read_vtt_lim max_scan_token data counts = Err k).
Proof. exact vtt_real_line_bound_full. Qed.
Print Assumptions C02_real_line_bound.

Example C02_needs_line_bound :
  read_vtt (vtt_bytes (a_vdoc 48)) = Ok (ndoc (a_vdoc 48) [] []) /\
  read_vtt_lim 48 (vtt_bytes (a_vdoc 48)) [] = Err EIO /\
  read_vtt_lim 48 (vtt_bytes (a_vdoc 48)) [7%nat; 0%nat; 100%nat] = Err EIO /\
  lines_withinb 48 (lines (vtt_bytes (a_vdoc 46))) = true /\
  read_vtt_lim 48 (vtt_bytes (a_vdoc 46)) [7%nat; 0%nat; 100%nat] = Ok (ndoc (a_vdoc 46) [] []) /\
  lines_withinb 48 (lines (vtt_bytes (a_vdoc 47))) = false /\
  read_vtt_lim 48 (vtt_bytes (a_vdoc 47)) [7%nat; 0%nat; 100%nat] = Ok (ndoc (a_vdoc 47) [] []) /\
  read_vtt_lim 48 (render_eol [CR; LF] (lines (vtt_bytes (a_vdoc 47)))) [7%nat; 0%nat; 100%nat] = Err EIO /\
  read_vtt (render_eol [CR; LF] (lines (vtt_bytes (a_vdoc 47)))) = Ok (ndoc (a_vdoc 47) [] []).
Proof. exact vtt_needs_line_bound. Qed.
Example C02_real_line_bound_computed :
  read_vtt_lim max_scan_token (vtt_bytes (a_vdoc 65536)) [] = Err EIO /\
  read_vtt_lim max_scan_token (vtt_bytes (a_vdoc 65536)) [max_scan_token; 0%nat] = Err EIO.
Proof. exact vtt_real_line_bound_computed. Qed.
(* ---- the model's literals are the constants of the Go source (Proofs/ConstTie.v, Gen/Consts.v regenerated from the
   repository on every run by tools/genconsts): the WebVTT separators, keywords and names the model spells out equal the
   NAMED package-level constants, struct tags and bidirectional-map entries of the source (literals inside function bodies and
   regexp patterns are deliberately not tied: see Proofs/ConstTie.v).  A closed boolean computed by the kernel. ---- *)
From Astisub Require Proofs.ConstTie Proofs.ConstTieVtt.
Theorem C02_constants_from_source : ConstTie.all ConstTieVtt.VttTie.ties = true.
Proof. exact ConstTieVtt.VttTie.consts_from_source. Qed.
Print Assumptions C02_constants_from_source.
