(* C02 — WebVTT codec fidelity.
   Model: Model/Vtt.v transcribes ReadFromWebVTT (header loop, block state machine, regions, cue settings, the
   X-TIMESTAMP-MAP parser), parseTextWebVTT (tag stack, voices, inline timestamps, over the html tokenizer model)
   and WriteToWebVTT; it agrees with the implementation on every generated, mutated and repository document, on
   the writer's bytes and on hostile single lines (harness).  Theorems so far: totality, schedule independence,
   fault propagation, nothing-to-write, independence of the map iteration orders.  The write/read fidelity
   theorem over the model is being proved separately and is added here when it checks (see DESIGN.md). *)
From Coq Require Import List NArith Permutation.
From Astisub Require Import Kit.Base Kit.Scan Model.Vtt Proofs.VttIOProofs.
Import ListNotations.

Theorem C02_reader_total : forall ls e p, read_vtt_lines ls e <> Panic p.
Proof. exact read_vtt_lines_no_panic. Qed.
Theorem C02_writer_total : forall d so ro p, write_vtt d so ro <> Panic p.
Proof. exact write_vtt_no_panic. Qed.
Theorem C02_reader_schedule_independent : forall data counts, read_vtt_lines (scan data counts) false = read_vtt data.
Proof. exact read_vtt_schedule. Qed.
Theorem C02_reader_reports_faults : forall ls, exists k, read_vtt_lines ls true = Err k.
Proof. exact read_vtt_fault. Qed.
Theorem C02_nothing_to_write : forall d so ro, vd_items d = [] -> write_vtt d so ro = Err ENothingToWrite.
Proof. exact write_vtt_empty. Qed.
Theorem C02_writer_order_independent : forall d so so' ro ro',
  Permutation so so' -> Permutation ro ro' -> write_vtt d so ro = write_vtt d so' ro'.
Proof. exact write_vtt_order_independent. Qed.

Print Assumptions C02_reader_total.
Print Assumptions C02_writer_total.
Print Assumptions C02_reader_schedule_independent.
Print Assumptions C02_reader_reports_faults.
Print Assumptions C02_nothing_to_write.
Print Assumptions C02_writer_order_independent.
