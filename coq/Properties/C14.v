(* C14 — ForceDuration trims to d and pads with a filler so the list lasts exactly d. *)
From Coq Require Import List ZArith NArith Bool.
From Astisub Require Import Kit.Base Model.Ops Proofs.ForceProofs.
Import ListNotations.
Open Scope Z_scope.

(* For a start-ordered list with non-decreasing ends and start < end, and any d > 0 (the property
   asks d >= 1 ms): every cue starting at or after d is removed, every cue ending after d is cut to
   end at d, all other cues are untouched, and the filler [d-1ms, d) is appended iff requested and the
   kept part is empty or ends before d. *)
Theorem C14_characterisation : forall d dummy u l, wf_timeline l -> 0 < d ->
  force_duration d dummy u l =
  kept d l ++ (if dummy && (duration (kept d l) <? d) then [dummy_item u d] else []).
Proof. exact force_characterisation. Qed.

Theorem C14_clip_meaning : forall d x, clip d x = set_en x (Z.min (en x) d).
Proof. exact clip_spec. Qed.
Theorem C14_untouched : forall d x, en x <= d -> clip d x = x.
Proof. exact clip_id. Qed.

Theorem C14_filler_duration : forall d u l, wf_timeline l -> 0 < d -> duration (force_duration d true u l) = d.
Proof. exact force_with_filler_duration. Qed.

Theorem C14_no_filler : forall d u l, wf_timeline l -> 0 < d -> force_duration d false u l = kept d l.
Proof. exact force_no_filler. Qed.

Theorem C14_same_duration : forall d dummy u l, duration l = d -> force_duration d dummy u l = l.
Proof. exact force_same_duration. Qed.

(* the filler is the cue [d - 1 ms, d) with placeholder text *)
Example C14_filler_shape : forall u d, st (dummy_item u d) = d - 1000000 /\ en (dummy_item u d) = d /\ item_text (dummy_item u d) = [46;46;46]%N.
Proof. intros; repeat split. Qed.

(* non-vacuity: d in a gap, inside a cue, on a boundary, before the first cue, after the end *)
Definition ex_mk u s e := mkItem u s e [] None None false.
Definition ex_tl := [ex_mk 1%N 10 30; ex_mk 2%N 30 50; ex_mk 3%N 70 90].
Example C14_ex_wf : wf_timeline ex_tl.
Proof. unfold ex_tl, ex_mk. repeat (constructor; cbn; try discriminate; auto with zarith). Qed.
Example C14_ex_gap : map (fun x => (uid x, st x, en x)) (force_duration 60 false 0%N ex_tl) = [(1%N,10,30); (2%N,30,50)].
Proof. reflexivity. Qed.
Example C14_ex_inside : map (fun x => (uid x, st x, en x)) (force_duration 40 true 0%N ex_tl) = [(1%N,10,30); (2%N,30,40)].
Proof. reflexivity. Qed.
Example C14_ex_boundary : map (fun x => (uid x, st x, en x)) (force_duration 30 true 0%N ex_tl) = [(1%N,10,30)].
Proof. reflexivity. Qed.
Example C14_ex_before : map (fun x => (uid x, st x, en x)) (force_duration 2000000 true 9%N [ex_mk 1%N 5000000 9000000]) = [(9%N,1000000,2000000)].
Proof. reflexivity. Qed.
Example C14_ex_after : map (fun x => (uid x, st x, en x)) (force_duration 5000000 true 9%N ex_tl) = [(1%N,10,30); (2%N,30,50); (3%N,70,90); (9%N,4000000,5000000)].
Proof. reflexivity. Qed.

(* the hypothesis "non-decreasing ends" is needed: without it the duration (end of the last cue) is
   not the maximal end and an earlier, longer cue is not cut *)
Example C14_needs_monotone_ends :
  let l := [ex_mk 1%N 0 100; ex_mk 2%N 10 20] in
  map (fun x => (st x, en x)) (force_duration 50 false 0%N l) = [(0,100); (10,20)].
Proof. reflexivity. Qed.

Print Assumptions C14_characterisation.
Print Assumptions C14_clip_meaning.
Print Assumptions C14_untouched.
Print Assumptions C14_filler_duration.
Print Assumptions C14_no_filler.
Print Assumptions C14_same_duration.

(* ---- audit follow-ups (Proofs/OpsForceExtra.v): the property's quantifier has d >= 1 ms ---- *)
From Astisub Require Import Proofs.OpsForceExtra.

(* with d >= 1 ms the filler [d - 1 ms, d) never starts at a negative time, and no cue of the result does *)
Theorem C14_filler_start_nonneg : forall u d, ms <= d -> 0 <= st (dummy_item u d).
Proof. exact filler_start_nonneg. Qed.
Theorem C14_starts_nonneg : forall d dummy u l, wf_timeline l -> ms <= d ->
  Forall (fun x => 0 <= st x) l -> Forall (fun x => 0 <= st x) (force_duration d dummy u l).
Proof. exact force_starts_nonneg. Qed.
(* the filler is added (requested, and the kept part is empty or ends before d): result = kept part ++ filler, and it
   lasts exactly d *)
Theorem C14_filler_added : forall d u l, wf_timeline l -> 0 < d -> duration (kept d l) < d ->
  force_duration d true u l = kept d l ++ [dummy_item u d] /\ duration (force_duration d true u l) = d.
Proof. exact force_filler_added. Qed.
(* a cue is clipped (st < d < en) or ends exactly at d: whatever the filler flag nothing is appended and the result
   lasts exactly d *)
Theorem C14_clipped_duration : forall d dummy u l x, wf_timeline l -> 0 < d -> In x l -> st x < d -> d <= en x ->
  force_duration d dummy u l = kept d l /\ duration (force_duration d dummy u l) = d.
Proof. exact force_clipped_duration. Qed.
(* d >= 1 ms, filler requested: the result lasts exactly d and every cue of it, the filler included, has positive length *)
Theorem C14_exact_duration : forall d u l, wf_timeline l -> ms <= d ->
  duration (force_duration d true u l) = d /\ Forall (fun x => st x < en x) (force_duration d true u l).
Proof. exact force_exact_duration. Qed.

(* non-vacuity: cues with text; d inside the last cue; d in a gap; d = 1 ms on the empty list; d < 1 ms (outside the
   domain: the filler would start before 0) *)
Example C14_ex_clipped :
  map (fun x => (uid x, st x, en x, item_text x)) (force_duration (8 * ms) true 9%N ex_tl2) =
  [(1%N, 0, 3 * ms, [65%N]); (2%N, 3 * ms, 5 * ms, [66%N]); (3%N, 7 * ms, 8 * ms, [67%N])].
Proof. exact ex_clipped. Qed.
Example C14_ex_filler :
  map (fun x => (uid x, st x, en x, item_text x)) (force_duration (6 * ms) true 9%N ex_tl2) =
  [(1%N, 0, 3 * ms, [65%N]); (2%N, 3 * ms, 5 * ms, [66%N]); (9%N, 5 * ms, 6 * ms, [46; 46; 46]%N)].
Proof. exact ex_filler. Qed.
Example C14_ex_hyps : wf_timeline ex_tl2 /\ duration (kept (6 * ms) ex_tl2) < 6 * ms /\
  In (ex_cue 3 (7 * ms) (9 * ms) 67) ex_tl2 /\ 7 * ms < 8 * ms <= 9 * ms.
Proof. split; [exact ex_tl2_wf | split; [exact ex_filler_hyp | exact ex_clipped_hyp]]. Qed.
Example C14_ex_one_ms : map (fun x => (st x, en x)) (force_duration ms true 9%N []) = [(0, ms)].
Proof. exact ex_one_ms. Qed.
Example C14_ex_below_one_ms : map (fun x => (st x, en x)) (force_duration 500 true 9%N []) = [(-999500, 500)].
Proof. exact ex_below_one_ms. Qed.

Print Assumptions C14_filler_start_nonneg.
Print Assumptions C14_starts_nonneg.
Print Assumptions C14_filler_added.
Print Assumptions C14_clipped_duration.
Print Assumptions C14_exact_duration.

(* ---- int64 (second audit, N10; Model/Ops64.v, Proofs/Ops64Proofs.v) ----
   ForceDuration compares and copies, with one subtraction: the filler's start d - time.Millisecond.  Range: d - 1 ms is
   an int64 value (true of every d >= 0, hence of the property's d >= 1 ms).  Inside it [force_duration64] is
   [force_duration]; outside (d within 1 ms of MinInt64) the filler's start wraps to a huge positive instant. *)
From Astisub Require Import Kit.Int64 Model.Ops64 Proofs.Ops64Proofs.
Theorem C14_int64 : forall d dummy u l, in_i64 (d - 1000000) -> force_duration64 d dummy u l = force_duration d dummy u l.
Proof. exact force_duration64_eq. Qed.
Theorem C14_int64_range : forall d, 0 <= d -> in_i64 d -> in_i64 (d - 1000000).
Proof. exact force_range_of_positive. Qed.
Theorem C14_int64_closed : forall d dummy u l, in_i64 d -> Forall times64 l -> Forall times64 (force_duration64 d dummy u l).
Proof. exact force_duration64_in. Qed.
Example C14_int64_wraps :
  let l := [mkItem 1 i64_min i64_min [] None None false] in
  map (fun x => (st x, en x)) (force_duration64 (i64_min + 5) true 9 l) = [(i64_min, i64_min); (i64_max - 999994, i64_min + 5)] /\
  map (fun x => (st x, en x)) (force_duration (i64_min + 5) true 9 l) = [(i64_min, i64_min); (i64_min - 999995, i64_min + 5)].
Proof. exact force64_wraps. Qed.
Print Assumptions C14_int64.
Print Assumptions C14_int64_range.
Print Assumptions C14_int64_closed.

(* ---- idempotence (session 5; Proofs/ForceIdem.v): a list forced to d with the filler lasts d (C14_filler_duration), so
   forcing d again, with or without filler, changes nothing - no second filler is ever appended ---- *)
From Astisub Require Import Proofs.ForceIdem.
Theorem C14_idempotent : forall d dummy u u' l, wf_timeline l -> 0 < d ->
  force_duration d dummy u' (force_duration d true u l) = force_duration d true u l.
Proof. exact force_idem_filler. Qed.
Print Assumptions C14_idempotent.

(* what C14 does NOT give (session 5, computed): the filler starts at d - 1 ms whatever the kept cues are, so a kept cue
   that starts inside the last millisecond is followed by a filler that starts BEFORE it - the result lasts d and the
   property asks no more, but it is not start-ordered.  (Behaviour of the code as well: the model is the tied one.) *)
Example C14_filler_may_precede_last_start :
  let x := mkItem 1%N 9500000 9800000 [] None None false in
  wf_timeline [x] /\
  map (fun y => (uid y, st y, en y)) (force_duration 10000000 true 2%N [x]) =
    [(1%N, 9500000, 9800000); (2%N, 9000000, 10000000)].
Proof. split; [apply wft_one; reflexivity | reflexivity]. Qed.
