(* C14 — ForceDuration trims to d and pads with a filler so the list lasts exactly d. *)
From Coq Require Import List ZArith NArith Bool.
From Astisub Require Import Kit.Base Model.Ops Proofs.ForceProofs.
Import ListNotations.
Open Scope Z_scope.

(* For a start-ordered list with non-decreasing ends and start < end, and any d > 0 (the property
   asks d >= 1 ms): every cue starting at or after d is removed, every cue ending after d is cut to
   end at d, all other cues are untouched, and the filler [d-1ms, d) is appended iff requested and the
   kept part is empty or ends before d. *)
Theorem C14_characterisation : forall d dummy u l, wf_timeline l -> 0 < d ->
  force_duration d dummy u l =
  kept d l ++ (if dummy && (duration (kept d l) <? d) then [dummy_item u d] else []).
Proof. exact force_characterisation. Qed.

Theorem C14_clip_meaning : forall d x, clip d x = set_en x (Z.min (en x) d).
Proof. exact clip_spec. Qed.
Theorem C14_untouched : forall d x, en x <= d -> clip d x = x.
Proof. exact clip_id. Qed.

Theorem C14_filler_duration : forall d u l, wf_timeline l -> 0 < d -> duration (force_duration d true u l) = d.
Proof. exact force_with_filler_duration. Qed.

Theorem C14_no_filler : forall d u l, wf_timeline l -> 0 < d -> force_duration d false u l = kept d l.
Proof. exact force_no_filler. Qed.

Theorem C14_same_duration : forall d dummy u l, duration l = d -> force_duration d dummy u l = l.
Proof. exact force_same_duration. Qed.

(* the filler is the cue [d - 1 ms, d) with placeholder text *)
Example C14_filler_shape : forall u d, st (dummy_item u d) = d - 1000000 /\ en (dummy_item u d) = d /\ item_text (dummy_item u d) = [46;46;46]%N.
Proof. intros; repeat split. Qed.

(* non-vacuity: d in a gap, inside a cue, on a boundary, before the first cue, after the end *)
Definition ex_mk u s e := mkItem u s e [] None None false.
Definition ex_tl := [ex_mk 1%N 10 30; ex_mk 2%N 30 50; ex_mk 3%N 70 90].
Example C14_ex_wf : wf_timeline ex_tl.
Proof. unfold ex_tl, ex_mk. repeat (constructor; cbn; try discriminate; auto with zarith). Qed.
Example C14_ex_gap : map (fun x => (uid x, st x, en x)) (force_duration 60 false 0%N ex_tl) = [(1%N,10,30); (2%N,30,50)].
Proof. reflexivity. Qed.
Example C14_ex_inside : map (fun x => (uid x, st x, en x)) (force_duration 40 true 0%N ex_tl) = [(1%N,10,30); (2%N,30,40)].
Proof. reflexivity. Qed.
Example C14_ex_boundary : map (fun x => (uid x, st x, en x)) (force_duration 30 true 0%N ex_tl) = [(1%N,10,30)].
Proof. reflexivity. Qed.
Example C14_ex_before : map (fun x => (uid x, st x, en x)) (force_duration 2000000 true 9%N [ex_mk 1%N 5000000 9000000]) = [(9%N,1000000,2000000)].
Proof. reflexivity. Qed.
Example C14_ex_after : map (fun x => (uid x, st x, en x)) (force_duration 5000000 true 9%N ex_tl) = [(1%N,10,30); (2%N,30,50); (3%N,70,90); (9%N,4000000,5000000)].
Proof. reflexivity. Qed.

(* the hypothesis "non-decreasing ends" is needed: without it the duration (end of the last cue) is
   not the maximal end and an earlier, longer cue is not cut *)
Example C14_needs_monotone_ends :
  let l := [ex_mk 1%N 0 100; ex_mk 2%N 10 20] in
  map (fun x => (st x, en x)) (force_duration 50 false 0%N l) = [(0,100); (10,20)].
Proof. reflexivity. Qed.

Print Assumptions C14_characterisation.
Print Assumptions C14_clip_meaning.
Print Assumptions C14_untouched.
Print Assumptions C14_filler_duration.
Print Assumptions C14_no_filler.
Print Assumptions C14_same_duration.
