(* C12 — Order is a stable sort by start; Merge is an ordered union, receiver wins.
   Only statements, each closed by [exact <lemma>], with Print Assumptions. *)
From Coq Require Import List ZArith NArith Permutation.
From Astisub Require Import Kit.Base Model.Ops Proofs.OrderProofs.
Import ListNotations.
Open Scope Z_scope.

(* Order: same cues, starts non-decreasing, equal starts keep their relative order *)
Theorem C12_order_perm : forall l, Permutation l (order l).
Proof. exact order_perm. Qed.
Theorem C12_order_sorted : forall l, sorted (order l).
Proof. exact order_sorted. Qed.
Theorem C12_order_stable : forall k l, filter (at_start k) (order l) = filter (at_start k) l.
Proof. exact order_stable. Qed.
(* ... and this determines the result: whatever stable sort the library uses yields [order l] *)
Theorem C12_order_unique : forall l l',
  sorted l' -> (forall k, filter (at_start k) l' = filter (at_start k) l) -> l' = order l.
Proof. exact stable_sort_unique. Qed.

(* Merge: exactly the cues of A and of B, ordered, A ahead of B on equal starts *)
Theorem C12_merge_items_perm : forall a b pr ps, Permutation (items a ++ items b) (items (merge a b pr ps)).
Proof. exact merge_items_perm. Qed.
Theorem C12_merge_items_sorted : forall a b pr ps, sorted (items (merge a b pr ps)).
Proof. exact merge_items_sorted. Qed.
Theorem C12_merge_items_stable : forall a b pr ps k,
  filter (at_start k) (items (merge a b pr ps)) = filter (at_start k) (items a) ++ filter (at_start k) (items b).
Proof. exact merge_items_stable. Qed.
(* union of definitions, receiver wins on a clash; [pr]/[ps] are B's maps in iteration order *)
Theorem C12_merge_regions : forall a b pr ps id,
  lookup_region (merge a b pr ps) id =
  match lookup_region a id with Some r => Some r | None => first_with g_id id pr end.
Proof. exact merge_regions. Qed.
Theorem C12_merge_styles : forall a b pr ps id,
  lookup_style (merge a b pr ps) id =
  match lookup_style a id with Some r => Some r | None => first_with s_id id ps end.
Proof. exact merge_styles. Qed.
(* for every iteration order of B's maps (definitions with distinct IDs) *)
Theorem C12_merge_order_independent : forall a b pr pr' ps ps' id,
  NoDup (map g_id pr) -> NoDup (map s_id ps) -> Permutation pr pr' -> Permutation ps ps' ->
  lookup_region (merge a b pr ps) id = lookup_region (merge a b pr' ps') id /\
  lookup_style (merge a b pr ps) id = lookup_style (merge a b pr' ps') id /\
  items (merge a b pr ps) = items (merge a b pr' ps').
Proof. exact merge_order_independent. Qed.

(* ... stated on B itself: when [pr]/[ps] are B's region and style maps in whatever order the runtime ranges over them
   (maps keyed by the definitions' identifiers), the result's definitions are A's, plus B's for the identifiers A lacks;
   B is an argument of the function and cannot change; nil receiver maps are allocated *)
Theorem C12_merge_union : forall a b pr ps,
  keyed g_id (map_or_empty (regions b)) -> keyed s_id (map_or_empty (styles b)) ->
  Permutation (map snd (map_or_empty (regions b))) pr -> Permutation (map snd (map_or_empty (styles b))) ps ->
  forall id,
    lookup_region (merge a b pr ps) id = match lookup_region a id with Some r => Some r | None => lookup_region b id end /\
    lookup_style (merge a b pr ps) id = match lookup_style a id with Some s => Some s | None => lookup_style b id end.
Proof. exact merge_union. Qed.
Theorem C12_merge_allocates_maps : forall a b pr ps, regions (merge a b pr ps) <> None /\ styles (merge a b pr ps) <> None.
Proof. exact merge_maps_allocated. Qed.
(* non-vacuity: nil receiver region map, an identifier (7) defined on both sides - A's definition wins -, equal starts
   across A and B - A's cue first *)
Example C12_merge_example :
  let m := merge ex_merge_a ex_merge_b [mkRegion 4 None false] [mkStyle 7 None false; mkStyle 8 (Some 7%N) false] in
  map uid (items m) = [4; 1; 3; 2]%N /\ lookup_style m 7 = Some (mkStyle 7 None true) /\
  lookup_style m 8 = Some (mkStyle 8 (Some 7%N) false) /\ lookup_region m 4 = Some (mkRegion 4 None false).
Proof. exact ex_merge. Qed.

(* non-vacuity: a concrete unordered list with equal starts *)
Example C12_example :
  let mk u s := mkItem u s (s + 1) [] None None false in
  map uid (order [mk 1%N 5; mk 2%N 3; mk 3%N 5; mk 4%N 3]) = [2; 4; 1; 3]%N.
Proof. reflexivity. Qed.

Print Assumptions C12_order_perm.
Print Assumptions C12_order_sorted.
Print Assumptions C12_order_stable.
Print Assumptions C12_order_unique.
Print Assumptions C12_merge_items_perm.
Print Assumptions C12_merge_items_sorted.
Print Assumptions C12_merge_items_stable.
Print Assumptions C12_merge_regions.
Print Assumptions C12_merge_styles.
Print Assumptions C12_merge_order_independent.
Print Assumptions C12_merge_union.
Print Assumptions C12_merge_allocates_maps.

(* ---- audit follow-up: "B itself is unchanged" (Proofs/OpsMergeExtra.v) ----
   In the functional model [merge a b pr ps] is a new value and [b] is an argument, so "b is not modified" is not a
   statement about the model.  What can be said, and is: the cues of the result that come from B are B's cues - the
   same records (identity, times, content), none lost or duplicated, in B's own stable start order; the receiver
   shares B's cue objects (same identity) rather than copying them; the definitions that come from B are B's values
   (C12_merge_union above).  That the argument's slice and maps are left alone by the library is observed by the
   harness (argument compared before/after the call). *)
From Astisub Require Import Proofs.OpsMergeExtra.
Theorem C12_merge_items_in : forall a b pr ps y, In y (items (merge a b pr ps)) <-> In y (items a) \/ In y (items b).
Proof. exact merge_items_in. Qed.
(* [p]: any test that recognises B's cues (holds for all of B, for none of A) *)
Theorem C12_merge_items_from_b : forall (p : item -> bool) a b pr ps,
  filter p (items a) = [] -> filter p (items b) = items b ->
  filter p (items (merge a b pr ps)) = order (items b).
Proof. exact merge_items_from_b. Qed.
Theorem C12_merge_items_from_a : forall (p : item -> bool) a b pr ps,
  filter p (items a) = items a -> filter p (items b) = [] ->
  filter p (items (merge a b pr ps)) = order (items a).
Proof. exact merge_items_from_a. Qed.
(* with disjoint identities the test is membership of the identity tag *)
Theorem C12_merge_keeps_b : forall a b pr ps,
  (forall x, In x (items a) -> ~ In (uid x) (map uid (items b))) ->
  filter (tagged (map uid (items b))) (items (merge a b pr ps)) = order (items b).
Proof. exact merge_keeps_b. Qed.
Theorem C12_merge_keeps_a : forall a b pr ps,
  (forall x, In x (items b) -> ~ In (uid x) (map uid (items a))) ->
  filter (tagged (map uid (items a))) (items (merge a b pr ps)) = order (items a).
Proof. exact merge_keeps_a. Qed.
(* selecting cues commutes with ordering (the reason) *)
Theorem C12_filter_order : forall (p : item -> bool) l, filter p (order l) = order (filter p l).
Proof. exact filter_order. Qed.
Example C12_merge_keeps_b_example :
  let m := merge ex_merge_a ex_merge_b [mkRegion 4 None false] [mkStyle 7 None false; mkStyle 8 (Some 7%N) false] in
  filter (tagged [3; 4]%N) (items m) = order (items ex_merge_b) /\
  map (fun x => (uid x, st x, en x, i_reg x, i_sty x)) (filter (tagged [3; 4]%N) (items m)) =
    [(4%N, 1, 2, None, None); (3%N, 5, 7, Some 4%N, Some 7%N)] /\
  filter (tagged [1; 2]%N) (items m) = items ex_merge_a.
Proof. exact ex_merge_keeps_b. Qed.

Print Assumptions C12_merge_items_in.
Print Assumptions C12_merge_items_from_b.
Print Assumptions C12_merge_items_from_a.
Print Assumptions C12_merge_keeps_b.
Print Assumptions C12_merge_keeps_a.
Print Assumptions C12_filter_order.

(* ---- int64 (second audit, N10): Order and Merge only compare and copy times - no arithmetic, nothing wraps: the models
   above are the int64 models.  Closure: int64 times in, the same int64 times out. ---- *)
From Astisub Require Import Kit.Int64 Proofs.Ops64Proofs.
Theorem C12_int64 : forall l, Forall times64 l -> Forall times64 (order l).
Proof. exact (order_closed in_i64). Qed.
Theorem C12_int64_merge : forall a b pr ps, Forall times64 (items a) -> Forall times64 (items b) ->
  Forall times64 (items (merge a b pr ps)).
Proof. exact (merge_closed in_i64). Qed.
Print Assumptions C12_int64.
Print Assumptions C12_int64_merge.

(* ---- consequences a caller relies on (session 5): ordering an ordered list changes nothing, so Order is idempotent
   and never changes the number of cues; merging an empty list is ordering the receiver ---- *)
Theorem C12_order_fixes_sorted : forall l, sorted l -> order l = l.
Proof. exact order_sorted_id. Qed.
Theorem C12_order_idempotent : forall l, order (order l) = order l.
Proof. exact order_idem. Qed.
Theorem C12_order_length : forall l, length (order l) = length l.
Proof. exact order_length. Qed.
Theorem C12_merge_empty : forall a b pr ps, items b = [] -> items (merge a b pr ps) = order (items a).
Proof. exact merge_empty_b. Qed.
Theorem C12_merge_sorted_disjoint_times : forall a b pr ps,
  sorted (items a ++ items b) -> items (merge a b pr ps) = items a ++ items b.
Proof. exact merge_sorted_concat. Qed.
Print Assumptions C12_order_fixes_sorted.
Print Assumptions C12_order_idempotent.
Print Assumptions C12_order_length.
Print Assumptions C12_merge_empty.
Print Assumptions C12_merge_sorted_disjoint_times.
