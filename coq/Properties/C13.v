(* C13 — Optimize drops only unreachable definitions; RemoveStyling drops only styling. *)
From Coq Require Import List ZArith NArith.
From Astisub Require Import Kit.Base Model.Ops Proofs.OptimizeProofs.
From Astisub Require Kit.Str Kit.Xml Kit.XmlParse Model.Ttml Model.TtmlOpt Proofs.TtmlDocSpec Proofs.TtmlOptProofs Model.TtmlGo Proofs.TtmlGoProofs.
Import ListNotations.

(* a list with at least one cue: a style definition survives iff its identifier is reachable from a
   cue - directly, through a run, through a used region, or through style inheritance *)
Theorem C13_styles_exact : forall s kv, items s <> [] ->
  In kv (map_or_empty (styles (optimize s))) <-> In kv (map_or_empty (styles s)) /\ reach_style s (s_id (snd kv)).
Proof. exact optimize_styles_exact. Qed.
(* ... a region definition survives iff some cue refers to it *)
Theorem C13_regions_exact : forall s kv, items s <> [] ->
  In kv (map_or_empty (regions (optimize s))) <-> In kv (map_or_empty (regions s)) /\ reach_region s (g_id (snd kv)).
Proof. exact optimize_regions_exact. Qed.
(* the marking computes exactly the inductive reachability relation *)
Theorem C13_marking_is_reachability : forall ss roots id, In id (mark_all ss roots) <-> reach ss roots id.
Proof. exact mark_all_reach. Qed.
(* every reference left in the list still resolves *)
Theorem C13_closed : forall s, wf_refs s -> wf_refs (optimize s).
Proof. exact optimize_closed. Qed.
(* cues are untouched; an empty list is left alone; twice = once *)
Theorem C13_cues_untouched : forall s, items (optimize s) = items s.
Proof. exact optimize_items. Qed.
Theorem C13_empty : forall s, items s = [] -> optimize s = s.
Proof. exact optimize_empty. Qed.
Theorem C13_idempotent : forall s, optimize (optimize s) = optimize s.
Proof. exact optimize_idempotent. Qed.
(* RemoveStyling: no region, style or inline attribute anywhere; timing, identity, order, text and
   voice names untouched *)
Theorem C13_remove_styling : forall s,
  regions (remove_styling s) = Some [] /\ styles (remove_styling s) = Some [] /\
  Forall item_plain (items (remove_styling s)) /\
  map (fun x => (uid x, st x, en x)) (items (remove_styling s)) = map (fun x => (uid x, st x, en x)) (items s) /\
  map (fun x => map (fun l => (map r_text (l_runs l), l_voice l)) (i_lines x)) (items (remove_styling s)) =
  map (fun x => map (fun l => (map r_text (l_runs l), l_voice l)) (i_lines x)) (items s).
Proof. exact remove_styling_spec. Qed.

(* non-vacuity: cue -> style 3 -> parent 1; region 0 (used) -> style 2 -> parent 0; styles 4, 5 unused,
   5's parent is 4; a cyclic pair 6 <-> 7 that nothing refers to *)
Definition ex_s : subs :=
  mkSubs [mkItem 1 0 5 [mkLine [mkRun [65] (Some 3) false] []] (Some 0) None false]%N%Z
         (Some [(0, mkRegion 0 (Some 2) false); (1, mkRegion 1 (Some 4) false)])%N
         (Some [(0, mkStyle 0 None false); (1, mkStyle 1 None false); (2, mkStyle 2 (Some 0) false);
                (3, mkStyle 3 (Some 1) false); (4, mkStyle 4 None false); (5, mkStyle 5 (Some 4) false);
                (6, mkStyle 6 (Some 7) false); (7, mkStyle 7 (Some 6) false)])%N.
Example C13_example :
  map fst (map_or_empty (styles (optimize ex_s))) = [0; 1; 2; 3]%N /\
  map fst (map_or_empty (regions (optimize ex_s))) = [0]%N.
Proof. split; reflexivity. Qed.
Lemma ex_def k p : In (k, mkStyle k p false) (map_or_empty (styles ex_s)) -> defined_style ex_s k.
Proof. intros H. exists (k, mkStyle k p false). split; [exact H | reflexivity]. Qed.
Example C13_example_wf : wf_refs ex_s.
Proof.
  unfold wf_refs. repeat split.
  - intros x id [<-|[]] [<-|[]]. apply (ex_def 3 (Some 1))%N. cbn. auto 12.
  - intros x id [<-|[]] H. inversion H; subst. exists (0, mkRegion 0 (Some 2) false)%N. split; [left; reflexivity | reflexivity].
  - intros kv id [<-|[<-|[]]] H; inversion H; subst; [apply (ex_def 2 (Some 0))%N | apply (ex_def 4 None)%N]; cbn; auto 12.
  - intros kv id H. cbn in H.
    repeat (destruct H as [<-|H]; [cbn; intros E; inversion E; subst;
      first [apply (ex_def 0 None)%N; cbn; solve [auto 12] | apply (ex_def 1 None)%N; cbn; solve [auto 12]
            | apply (ex_def 4 None)%N; cbn; solve [auto 12] | apply (ex_def 7 (Some 6))%N; cbn; solve [auto 12]
            | apply (ex_def 6 (Some 7))%N; cbn; solve [auto 12]]|]).
    destruct H.
  - cbn. repeat constructor; cbn; intuition discriminate.
Qed.

Print Assumptions C13_styles_exact.
Print Assumptions C13_regions_exact.
Print Assumptions C13_marking_is_reachability.
Print Assumptions C13_closed.
Print Assumptions C13_cues_untouched.
Print Assumptions C13_empty.
Print Assumptions C13_idempotent.
Print Assumptions C13_remove_styling.

(* ---- on the TTML document value (string identifiers; styles with parent chains, regions with styles): the same
   marking ([ttml_optimize], Model/TtmlOpt.v, tied to the library's Optimize on parsed TTML documents by the harness).
   In a module of its own because Model/Ttml.v and Model/Ops.v share record and constructor names. ---- *)
Module C13_TTML.
Import Astisub.Kit.Str Astisub.Kit.Xml Astisub.Kit.XmlParse Astisub.Model.Ttml Astisub.Model.TtmlOpt
  Astisub.Proofs.TtmlDocSpec Astisub.Proofs.TtmlOptProofs Astisub.Model.TtmlGo Astisub.Proofs.TtmlGoProofs.
Theorem C13_ttml_styles_exact : forall d kv, td_items d <> [] ->
  In kv (td_styles (ttml_optimize d)) <-> In kv (td_styles d) /\ topt_reach_style d (ts_id (snd kv)).
Proof. exact ttml_optimize_styles_exact. Qed.
Theorem C13_ttml_regions_exact : forall d kv, td_items d <> [] ->
  In kv (td_regions (ttml_optimize d)) <-> In kv (td_regions d) /\ In (ts_id (snd kv)) (topt_used_regions (td_items d)).
Proof. exact ttml_optimize_regions_exact. Qed.
Theorem C13_ttml_idempotent : forall d, ttml_optimize (ttml_optimize d) = ttml_optimize d.
Proof. exact ttml_optimize_idempotent. Qed.
(* the optimized value is still representable: every reference left resolves, the tables stay canonical *)
Theorem C13_ttml_repr : forall d, repr_doc d = true -> repr_doc (ttml_optimize d) = true.
Proof. exact ttml_optimize_repr. Qed.
(* "the optimized list can still be written and read back with the same cues as before", for TTML, through bytes:
   writer bytes, XML parser model, reader, for every indent option made of white space *)
Theorem C13_ttml_write_read : forall d ind, repr_doc d = true -> legal_doc d = true -> indent_ok ind = true ->
  exists b t b' t',
    write_ttml_bytes_go ind d = Ok b /\ xml_parse b = Some t /\ read_ttml t = Ok (written_value d) /\
    write_ttml_bytes_go ind (ttml_optimize d) = Ok b' /\ xml_parse b' = Some t' /\
    read_ttml t' = Ok (written_value (ttml_optimize d)) /\
    td_items (written_value (ttml_optimize d)) = td_items (written_value d) /\
    td_meta (written_value (ttml_optimize d)) = td_meta (written_value d).
Proof. exact ttml_optimize_cues_go. Qed.
(* ([write_ttml_bytes_go]: the bytes as Go's encoder writes them; [legal_doc]: every string XML-legal - otherwise the
   encoder substitutes U+FFFD and the text read back differs; legality survives Optimize: [ttml_optimize_legal]) *)
Example C13_ttml_example : repr_doc topt_ex_doc = true /\ repr_doc (ttml_optimize topt_ex_doc) = true.
Proof. split; vm_compute; reflexivity. Qed.
End C13_TTML.
Print Assumptions C13_TTML.C13_ttml_styles_exact.
Print Assumptions C13_TTML.C13_ttml_regions_exact.
Print Assumptions C13_TTML.C13_ttml_idempotent.
Print Assumptions C13_TTML.C13_ttml_repr.
Print Assumptions C13_TTML.C13_ttml_write_read.

(* ---- audit follow-ups (Proofs/OpsOptimizeExtra.v) ---- *)
From Astisub Require Import Proofs.OpsOptimizeExtra.

(* The model resolves references by identifier (first definition with that ID), the library follows pointers.  Under
   [wf_refs] - every identifier referred to is defined and definition IDs are pairwise distinct - an identifier has
   exactly one definition, so the two readings coincide; the exact characterisation restated with a reachability that
   does not depend on "first match" ([declared_parent]: SOME definition with ID c names p as its parent). *)
Theorem C13_styles_exact_wf : forall s kv, wf_refs s -> items s <> [] ->
  In kv (map_or_empty (styles (optimize s))) <-> In kv (map_or_empty (styles s)) /\ reach_style_decl s (s_id (snd kv)).
Proof. exact optimize_styles_exact_wf. Qed.
Theorem C13_regions_exact_wf : forall s kv, wf_refs s -> items s <> [] ->
  In kv (map_or_empty (regions (optimize s))) <-> In kv (map_or_empty (regions s)) /\ reach_region s (g_id (snd kv)).
Proof. exact optimize_regions_exact_wf. Qed.
Theorem C13_reach_readings_agree : forall s id, wf_refs s -> (reach_style s id <-> reach_style_decl s id).
Proof. exact reach_style_decl_iff. Qed.
(* every reference resolves to exactly one definition; two definitions with the same ID are excluded by [wf_refs] *)
Theorem C13_wf_resolves : forall s, wf_refs s -> forall id, defined_style s id ->
  exists kv, In kv (map_or_empty (styles s)) /\ s_id (snd kv) = id /\
             forall kv', In kv' (map_or_empty (styles s)) -> s_id (snd kv') = id -> kv' = kv.
Proof. exact wf_refs_resolves. Qed.
Theorem C13_wf_excludes_duplicate_ids : forall s, wf_refs s ->
  forall kv kv', In kv (map_or_empty (styles s)) -> In kv' (map_or_empty (styles s)) ->
    s_id (snd kv) = s_id (snd kv') -> kv = kv'.
Proof. exact wf_refs_unique_definition. Qed.
(* without the hypothesis, one inclusion: whatever is kept is reachable through declared parents *)
Theorem C13_styles_sound_any : forall s kv, items s <> [] ->
  In kv (map_or_empty (styles (optimize s))) -> In kv (map_or_empty (styles s)) /\ reach_style_decl s (s_id (snd kv)).
Proof. exact optimize_styles_sound_any. Qed.
(* map key <> definition ID (IDs distinct) is inside [wf_refs]: definitions are handled by their ID, keys play no role *)
Example C13_key_differs_from_id : wf_refs ex_keys /\
  map_or_empty (styles (optimize ex_keys)) = [(9, mkStyle 3 (Some 1) false); (1, mkStyle 1 None false); (2, mkStyle 2 None false)]%N /\
  map_or_empty (regions (optimize ex_keys)) = [(8, mkRegion 0 (Some 2) false)]%N.
Proof. split; [exact ex_keys_wf | exact ex_keys_result]. Qed.
(* two definitions with ID 3 and different parents: the model follows the first in the list (the library: the object
   pointed to), so the answer depends on the order - not claimed, and outside [wf_refs] *)
Example C13_duplicate_ids_outside : (forall p q, ~ wf_refs (ex_dup p q)) /\
  map fst (map_or_empty (styles (optimize (ex_dup 1 2)))) = [3; 4; 1]%N /\
  map fst (map_or_empty (styles (optimize (ex_dup 2 1)))) = [3; 4; 2]%N.
Proof. split; [exact ex_dup_not_wf | exact ex_dup_order_matters]. Qed.

(* RemoveStyling, as the property words it, one fact at a time *)
Theorem C13_rs_no_definitions : forall s, regions (remove_styling s) = Some [] /\ styles (remove_styling s) = Some [].
Proof. exact rs_no_definitions. Qed.
Theorem C13_rs_no_cue_styling : forall s,
  Forall (fun x => i_reg x = None /\ i_sty x = None /\ i_inl x = false) (items (remove_styling s)).
Proof. exact rs_no_cue_styling. Qed.
Theorem C13_rs_no_run_styling : forall s x l r,
  In x (items (remove_styling s)) -> In l (i_lines x) -> In r (l_runs l) -> r_sty r = None /\ r_inl r = false.
Proof. exact rs_no_run_styling. Qed.
Theorem C13_rs_no_references : forall s,
  flat_map item_style_refs (items (remove_styling s)) = [] /\ used_regions (items (remove_styling s)) = [].
Proof. exact rs_no_references. Qed.
Theorem C13_rs_timing : forall s,
  map (fun x => (st x, en x)) (items (remove_styling s)) = map (fun x => (st x, en x)) (items s).
Proof. exact rs_timing. Qed.
Theorem C13_rs_order : forall s,
  length (items (remove_styling s)) = length (items s) /\ map uid (items (remove_styling s)) = map uid (items s).
Proof. exact rs_order. Qed.
Theorem C13_rs_text : forall s,
  map item_text (items (remove_styling s)) = map item_text (items s) /\
  map (fun x => map (fun l => map r_text (l_runs l)) (i_lines x)) (items (remove_styling s)) =
  map (fun x => map (fun l => map r_text (l_runs l)) (i_lines x)) (items s).
Proof. exact rs_text. Qed.
Theorem C13_rs_voices : forall s,
  map (fun x => map l_voice (i_lines x)) (items (remove_styling s)) = map (fun x => map l_voice (i_lines x)) (items s).
Proof. exact rs_voices. Qed.
Theorem C13_rs_idempotent : forall s, remove_styling (remove_styling s) = remove_styling s.
Proof. exact rs_idempotent. Qed.
(* non-vacuity: two cues out of start order with region, cue style, inline attributes, styled runs, voices *)
Example C13_rs_example :
  remove_styling ex_styled =
  mkSubs [mkItem 7 50 90 [mkLine [mkRun [72; 105] None false; mkRun [33] None false] [66; 111; 98]] None None false;
          mkItem 8 10 30 [mkLine [mkRun [65] None false] []; mkLine [mkRun [66] None false] [65; 108]] None None false]%N%Z
         (Some []) (Some []) /\
  flat_map item_style_refs (items ex_styled) = [1; 3; 1]%N /\ used_regions (items ex_styled) = [0]%N.
Proof. split; [exact ex_styled_result | apply ex_styled_text]. Qed.

Print Assumptions C13_styles_exact_wf.
Print Assumptions C13_regions_exact_wf.
Print Assumptions C13_reach_readings_agree.
Print Assumptions C13_wf_resolves.
Print Assumptions C13_wf_excludes_duplicate_ids.
Print Assumptions C13_styles_sound_any.
Print Assumptions C13_rs_no_definitions.
Print Assumptions C13_rs_no_cue_styling.
Print Assumptions C13_rs_no_run_styling.
Print Assumptions C13_rs_no_references.
Print Assumptions C13_rs_timing.
Print Assumptions C13_rs_order.
Print Assumptions C13_rs_text.
Print Assumptions C13_rs_voices.
Print Assumptions C13_rs_idempotent.

(* ---- second audit, N13: what [wf_refs] says, exactly, and what it cannot say ----
   [wf_refs s] is a statement about IDENTIFIERS only:
     (1) every style identifier referred to by a cue or by one of its runs is the ID of some style definition of s;
     (2) every region identifier referred to by a cue is the ID of some region definition of s;
     (3) the style identifier of every region definition is the ID of some style definition;
     (4) the parent identifier of every style definition is the ID of some style definition;
     (5) the IDs of the style definitions are pairwise distinct.
   It does not say - and the model cannot say, because it identifies a reference with the identifier of its target - that
   the OBJECT a pointer leads to is the one stored in the map for that identifier.  The comment above ("under wf_refs ...
   the two readings coincide") therefore overstated: the readings coincide under wf_refs AND the heap hypothesis that every
   pointer (cue -> style, run -> style, cue -> region, region -> style, style -> parent) targets the map's own entry for its
   identifier.  On a heap that violates it (an "aliased" style object: same ID, another parent link) the library walks the
   pointed object's parents while the stored definition with that ID keeps its own parent link: Optimize then deletes a
   parent that a kept definition still refers to.  That case has no model (the harness encodes references by ID); it is
   exercised by the oracle-only suite optimize.alias (harness/ops5.go) with the property's own oracle "every reference
   left in the list still resolves", which the library FAILS there - recorded as finding optimize-aliased-style-object
   (known_findings.json) with the minimal input: styles {k0, k1 -> k0}, one cue whose style is another object with ID k1
   and no parent; after Optimize the stored k1 still points to the deleted k0. *)
