(* C13 — Optimize drops only unreachable definitions; RemoveStyling drops only styling. *)
From Coq Require Import List ZArith NArith.
From Astisub Require Import Kit.Base Model.Ops Proofs.OptimizeProofs.
From Astisub Require Kit.Str Kit.Xml Kit.XmlParse Model.Ttml Model.TtmlOpt Proofs.TtmlDocSpec Proofs.TtmlOptProofs.
Import ListNotations.

(* a list with at least one cue: a style definition survives iff its identifier is reachable from a
   cue - directly, through a run, through a used region, or through style inheritance *)
Theorem C13_styles_exact : forall s kv, items s <> [] ->
  In kv (map_or_empty (styles (optimize s))) <-> In kv (map_or_empty (styles s)) /\ reach_style s (s_id (snd kv)).
Proof. exact optimize_styles_exact. Qed.
(* ... a region definition survives iff some cue refers to it *)
Theorem C13_regions_exact : forall s kv, items s <> [] ->
  In kv (map_or_empty (regions (optimize s))) <-> In kv (map_or_empty (regions s)) /\ reach_region s (g_id (snd kv)).
Proof. exact optimize_regions_exact. Qed.
(* the marking computes exactly the inductive reachability relation *)
Theorem C13_marking_is_reachability : forall ss roots id, In id (mark_all ss roots) <-> reach ss roots id.
Proof. exact mark_all_reach. Qed.
(* every reference left in the list still resolves *)
Theorem C13_closed : forall s, wf_refs s -> wf_refs (optimize s).
Proof. exact optimize_closed. Qed.
(* cues are untouched; an empty list is left alone; twice = once *)
Theorem C13_cues_untouched : forall s, items (optimize s) = items s.
Proof. exact optimize_items. Qed.
Theorem C13_empty : forall s, items s = [] -> optimize s = s.
Proof. exact optimize_empty. Qed.
Theorem C13_idempotent : forall s, optimize (optimize s) = optimize s.
Proof. exact optimize_idempotent. Qed.
(* RemoveStyling: no region, style or inline attribute anywhere; timing, identity, order, text and
   voice names untouched *)
Theorem C13_remove_styling : forall s,
  regions (remove_styling s) = Some [] /\ styles (remove_styling s) = Some [] /\
  Forall item_plain (items (remove_styling s)) /\
  map (fun x => (uid x, st x, en x)) (items (remove_styling s)) = map (fun x => (uid x, st x, en x)) (items s) /\
  map (fun x => map (fun l => (map r_text (l_runs l), l_voice l)) (i_lines x)) (items (remove_styling s)) =
  map (fun x => map (fun l => (map r_text (l_runs l), l_voice l)) (i_lines x)) (items s).
Proof. exact remove_styling_spec. Qed.

(* non-vacuity: cue -> style 3 -> parent 1; region 0 (used) -> style 2 -> parent 0; styles 4, 5 unused,
   5's parent is 4; a cyclic pair 6 <-> 7 that nothing refers to *)
Definition ex_s : subs :=
  mkSubs [mkItem 1 0 5 [mkLine [mkRun [65] (Some 3) false] []] (Some 0) None false]%N%Z
         (Some [(0, mkRegion 0 (Some 2) false); (1, mkRegion 1 (Some 4) false)])%N
         (Some [(0, mkStyle 0 None false); (1, mkStyle 1 None false); (2, mkStyle 2 (Some 0) false);
                (3, mkStyle 3 (Some 1) false); (4, mkStyle 4 None false); (5, mkStyle 5 (Some 4) false);
                (6, mkStyle 6 (Some 7) false); (7, mkStyle 7 (Some 6) false)])%N.
Example C13_example :
  map fst (map_or_empty (styles (optimize ex_s))) = [0; 1; 2; 3]%N /\
  map fst (map_or_empty (regions (optimize ex_s))) = [0]%N.
Proof. split; reflexivity. Qed.
Lemma ex_def k p : In (k, mkStyle k p false) (map_or_empty (styles ex_s)) -> defined_style ex_s k.
Proof. intros H. exists (k, mkStyle k p false). split; [exact H | reflexivity]. Qed.
Example C13_example_wf : wf_refs ex_s.
Proof.
  unfold wf_refs. repeat split.
  - intros x id [<-|[]] [<-|[]]. apply (ex_def 3 (Some 1))%N. cbn. auto 12.
  - intros x id [<-|[]] H. inversion H; subst. exists (0, mkRegion 0 (Some 2) false)%N. split; [left; reflexivity | reflexivity].
  - intros kv id [<-|[<-|[]]] H; inversion H; subst; [apply (ex_def 2 (Some 0))%N | apply (ex_def 4 None)%N]; cbn; auto 12.
  - intros kv id H. cbn in H.
    repeat (destruct H as [<-|H]; [cbn; intros E; inversion E; subst;
      first [apply (ex_def 0 None)%N; cbn; solve [auto 12] | apply (ex_def 1 None)%N; cbn; solve [auto 12]
            | apply (ex_def 4 None)%N; cbn; solve [auto 12] | apply (ex_def 7 (Some 6))%N; cbn; solve [auto 12]
            | apply (ex_def 6 (Some 7))%N; cbn; solve [auto 12]]|]).
    destruct H.
  - cbn. repeat constructor; cbn; intuition discriminate.
Qed.

Print Assumptions C13_styles_exact.
Print Assumptions C13_regions_exact.
Print Assumptions C13_marking_is_reachability.
Print Assumptions C13_closed.
Print Assumptions C13_cues_untouched.
Print Assumptions C13_empty.
Print Assumptions C13_idempotent.
Print Assumptions C13_remove_styling.

(* ---- on the TTML document value (string identifiers; styles with parent chains, regions with styles): the same
   marking ([ttml_optimize], Model/TtmlOpt.v, tied to the library's Optimize on parsed TTML documents by the harness).
   In a module of its own because Model/Ttml.v and Model/Ops.v share record and constructor names. ---- *)
Module C13_TTML.
Import Astisub.Kit.Str Astisub.Kit.Xml Astisub.Kit.XmlParse Astisub.Model.Ttml Astisub.Model.TtmlOpt
  Astisub.Proofs.TtmlDocSpec Astisub.Proofs.TtmlOptProofs.
Theorem C13_ttml_styles_exact : forall d kv, td_items d <> [] ->
  In kv (td_styles (ttml_optimize d)) <-> In kv (td_styles d) /\ topt_reach_style d (ts_id (snd kv)).
Proof. exact ttml_optimize_styles_exact. Qed.
Theorem C13_ttml_regions_exact : forall d kv, td_items d <> [] ->
  In kv (td_regions (ttml_optimize d)) <-> In kv (td_regions d) /\ In (ts_id (snd kv)) (topt_used_regions (td_items d)).
Proof. exact ttml_optimize_regions_exact. Qed.
Theorem C13_ttml_idempotent : forall d, ttml_optimize (ttml_optimize d) = ttml_optimize d.
Proof. exact ttml_optimize_idempotent. Qed.
(* the optimized value is still representable: every reference left resolves, the tables stay canonical *)
Theorem C13_ttml_repr : forall d, repr_doc d = true -> repr_doc (ttml_optimize d) = true.
Proof. exact ttml_optimize_repr. Qed.
(* "the optimized list can still be written and read back with the same cues as before", for TTML, through bytes:
   writer bytes, XML parser model, reader, for every indent option made of white space *)
Theorem C13_ttml_write_read : forall d ind, repr_doc d = true -> indent_ok ind = true ->
  exists b t b' t',
    write_ttml_bytes ind d = Ok b /\ xml_parse b = Some t /\ read_ttml t = Ok (written_value d) /\
    write_ttml_bytes ind (ttml_optimize d) = Ok b' /\ xml_parse b' = Some t' /\
    read_ttml t' = Ok (written_value (ttml_optimize d)) /\
    td_items (written_value (ttml_optimize d)) = td_items (written_value d) /\
    td_meta (written_value (ttml_optimize d)) = td_meta (written_value d).
Proof. exact ttml_optimize_cues. Qed.
Example C13_ttml_example : repr_doc topt_ex_doc = true /\ repr_doc (ttml_optimize topt_ex_doc) = true.
Proof. split; vm_compute; reflexivity. Qed.
End C13_TTML.
Print Assumptions C13_TTML.C13_ttml_styles_exact.
Print Assumptions C13_TTML.C13_ttml_regions_exact.
Print Assumptions C13_TTML.C13_ttml_idempotent.
Print Assumptions C13_TTML.C13_ttml_repr.
Print Assumptions C13_TTML.C13_ttml_write_read.
