From Astisub Require Import Kit.Base Model.Ops.
Theorem C13_placeholder : True. Proof. exact I. Qed.
