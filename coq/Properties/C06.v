From Astisub Require Import Kit.Base.
Theorem C06_placeholder : True. Proof. exact I. Qed.
