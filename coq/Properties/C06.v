(* C06 -- Teletext-in-TS decoding returns the transmitted subtitle pages and timing.
   The model (Model/Ttx.v, Model/TtxRow.v) starts where the demuxer has delivered the PES payloads of the teletext
   PID with their times; the tables it uses are regenerated from the code on every run (Gen/TtxTables.v).
   (work in progress: see notes/C06.md for the list and meaning of the theorems) *)
From Coq Require Import List ZArith NArith Bool.
From Astisub Require Import Kit.Base Kit.Str Gen.TtxTables Model.TtxRow Model.Ttx Model.TtxSpec.
From Astisub Require Import Proofs.TtxTables Proofs.TtxTotal.
Import ListNotations.
Open Scope N_scope.

(* astikit's Hamming 8/4 table is, on every byte value, the nearest-code-word decoder of ETS 300 706: single bit
   errors corrected, double errors rejected *)
Theorem C06_hamming_table : forall b, ham84 b = ham84_dec b.
Proof. exact ham84_is_spec. Qed.
Print Assumptions C06_hamming_table.
Theorem C06_hamming_roundtrip : forall n, n < 16 -> ham84 (ham84_enc n) = Some n.
Proof. exact ham84_dec_enc. Qed.
Print Assumptions C06_hamming_roundtrip.
Theorem C06_hamming_single_error : forall n k, n < 16 -> k < 8 -> ham84 (N.lxor (ham84_enc n) (2 ^ k)) = Some n.
Proof. exact ham84_single_error. Qed.
Print Assumptions C06_hamming_single_error.
Theorem C06_hamming_double_error : forall n j k, n < 16 -> j < 8 -> k < 8 -> j <> k ->
  ham84 (N.lxor (N.lxor (ham84_enc n) (2 ^ j)) (2 ^ k)) = None.
Proof. exact ham84_double_error. Qed.
Print Assumptions C06_hamming_double_error.

(* bit order and parity: the stored cell of a transmitted byte is its seven-bit character when the byte, read least
   significant bit first, has odd parity, and 0 (no text) otherwise *)
Theorem C06_reverse8_involutive : forall b, b < 256 -> rev8 (rev8 b) = b.
Proof. exact rev8_involutive. Qed.
Print Assumptions C06_reverse8_involutive.
Theorem C06_cell_table : forall x, ttx_cell x = cell0 x.
Proof. exact cell_is_spec. Qed.
Print Assumptions C06_cell_table.
Theorem C06_cell_roundtrip : forall c, c < 128 -> ttx_cell (par_enc c) = c.
Proof. exact cell_par_enc. Qed.
Print Assumptions C06_cell_roundtrip.
Theorem C06_cell_bad_parity : forall x, x < 256 -> N.odd (ones8 x) = false -> ttx_cell x = 0.
Proof. exact cell_bad_parity. Qed.
Print Assumptions C06_cell_bad_parity.

(* national option substitution: for every entry of teletextCharsets the active table is the entry's G0 set with
   exactly the 13 national positions replaced (the other 83 untouched), or the G0 set itself *)
Theorem C06_national_substitution : forallb entry_subst_ok ttx_charsets = true.
Proof. exact national_substitution_exact. Qed.
Print Assumptions C06_national_substitution.

(* totality: whatever is delivered (arbitrary byte values, lengths, times, page option) the reader returns cues *)
Theorem C06_total : forall page ds site, ttx_feed page ds <> Panic site.
Proof. exact ttx_feed_no_panic. Qed.
Print Assumptions C06_total.
