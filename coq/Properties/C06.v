(* C06 -- Teletext-in-TS decoding returns the transmitted subtitle pages and timing.

   Model: Model/Ttx.v + Model/TtxRow.v transcribe teletext.go from the point where the demuxer has delivered the PES
   payloads of the teletext PID with their times (ReadFromTeletext after PID selection: zero-time filter, first/last
   time, process / parseDataUnit / parsePacket / parsePacketHeader / parsePacketData / parsePacket28And29, the
   character decoder with updateCharset, teletextPage.parse, parseTeletextRow / appendTeletextLineItem).  Its tables
   (character sets, national option positions, astikit's Hamming 8/4 and parity decoders, bits.Reverse8) are
   Gen/TtxTables.v, regenerated from the code on every run.  Specification: Model/TtxSpec.v (encoders and decoders
   written from ETS 300 706 / EN 300 472, ground-truth schedules, multiplexing choices, the cues a schedule denotes).
   The demuxer (astits) is a library contract: it delivers PES payloads and PMT descriptors as the muxer wrote them.

   Proved here, for ALL values (no size bounds):
   - tables: astikit's Hamming table is the standard's nearest-code-word decoder on all 256 bytes (round trip on the
     16 nibbles, every single error corrected, every double error rejected); the stored cell of a byte is its
     character under odd parity and bit reversal, 0 otherwise; Reverse8 is an involution; for every entry of
     teletextCharsets the national option substitution touches exactly the 13 positions;
   - codecs: data-unit splitting (a truncated last unit is dropped), packet address and page header round trips; the
     row parser returns exactly the runs of every structured row: cells (incl. attributes) in front of the box, one or
     more start boxes, then alternating groups of colour/size attributes and of other cells (characters give text, the
     other control codes none), end box + junk or none.  A group whose attributes change the style in force ends
     the run before it; a repetition of the colour in force does not.  Cells failing parity are stored as 0x00 =
     attribute black: C06_flipped_bit, C06_damaged_row_unit, C06_row_parity_error;
   - stream level (C06_stream_page_given / C06_stream_page_auto): for every ground-truth schedule and every
     multiplexing in the decidable class mux_ok (mux_ok_auto), however the units are packed into PES packets and
     whatever PES-level noise is delivered with them (packets without time: dropped altogether; empty payloads and
     payloads with a data identifier outside 0x10..0x1f: only their time counts towards the first/last presentation
     time; a truncated last unit: dropped), the reader returns exactly cues_of schedule: one cue per instance with rows, from its presentation time to the
     next instance's / the last presentation time, relative to the first; rows in row order, text in the page's
     national character set, runs split at colour and size codes.  The class allows, between and around our
     packets: non-subtitle/stuffing units, wrong framing codes, short units, uncorrectable addresses; corrected
     single-bit Hamming errors anywhere; rows of other magazines; pages of other magazines in parallel mode or
     with our page number; X/26, X/27, X/30, X/31 of any magazine; X/28 and M/29 that are inert (other magazine,
     designation code other than 0/4, too short, X/28 format other than 1) or that keep the default character set
     designation; time-filling and uncorrectable
     headers; a terminating header of another page (same magazine, or any magazine in serial mode) followed by
     anything but our header; erase pages;
   - totality: for every delivered list of arbitrary bytes and times the reader returns a value (never panics).
   Side conditions (in mux_ok): rows of an instance have distinct numbers; each row is a rowspec_ok structure;
   X/28 and M/29 packets of the selected magazine that designate a non-default character set are outside the class (the
   reader then decodes every page with the LAST designation of the stream: see notes/C06.md); after the end box no
   attribute or start box (an attribute there restyles the last boxed run; see notes). *)
(* CORRECTION 2026-10-02 (second audit, items N8 and N14) -- supersedes the header above where they differ.
   1. Stale sentence.  The header's side condition "X/28 and M/29 packets of the selected magazine that designate a
      non-default character set are outside the class" is no longer true: since the third wave they are INSIDE mux_ok with
      their exact semantics (desig_ok, desig_final, last argument of cues_of; section "Character set designations" below).
      Their first triplet is decoded with Hamming 24/18 (repo 6ce29fe), not read as three raw bytes.
   2. What of the specification is the property and what is reader behaviour the specification COPIES.  The quantifier of
      C06 (properties.jsonl) ranges over ground-truth schedules whose character set is given by the national option bits
      (C12-C14) alone -- a schedule has no designation attribute -- and over multiplexings in which X/26..X/30 packets are
      distractors that "never contribute text"; transmission errors are not among its multiplexing choices.  Inside that
      quantifier every X/28 / M/29 packet is neutral_unit or inert (default designation: what the implementation oracle of
      harness/ttx.go emits), desig_final = 0, and every stored cell passed parity.  Two things the theorems say BEYOND it
      are not claims that the reader is right, they are the reader's behaviour transcribed so that the theorems stay true
      of Go on the larger class:
      (a) non-default designations: the reader parses the pages after the whole stream, so the designation on record at the
          end (the last X/28 received while our page was open, else the last M/29) decides the table of EVERY page, earlier
          ones included, and an X/28 designation outlives the page transmission it came with.  ETS 300 706 attaches X/28 to
          one page transmission and M/29 to the pages of the magazine that follow; a stream that changes its designation
          is decoded differently by a conforming decoder.  cues_of ... (desig_final ...) copies the reader here: reader
          behaviour the specification copies, outside the quantifier.  Also copied from the reader: which of the
          designations map to which G0 set (charset_for): cues_of reads the text off the hand-written standard
          table only for the 27 Latin designation/option pairs where that table is complete (C06_std_table_is_reader_table)
          and off the table generated from the code for the rest; the generated tables are compared with the hand-written
          ones at every asserted position by C06_tables_are_standard, Arabic and Hebrew are not implemented
          (C06_arabic_hebrew_not_implemented);
      (b) parity-damaged cells: "characters failing parity contribute no text" is the property's clause and is proved
          (C06_cell_bad_parity, C06_row_parity_error: no run contains the character).  That the damaged cell is stored as
          0x00, which the row parser reads as the attribute "alpha black", so that the run is CUT there and the text after
          it is coloured black until the next colour code, is reader behaviour the specification copies, outside the
          quantifier (no ground-truth schedule has damaged cells); a display decoder shows a space and keeps the colour.
      Proposed known-finding texts for both are in notes/C06.md ("Reader artefacts the specification copies"). *)
From Coq Require Import List ZArith NArith Bool.
From Astisub Require Import Kit.Base Kit.Str Gen.TtxTables Model.TtxRow Model.Ttx Model.TtxSpec.
From Astisub Require Import Model.TtxHam Proofs.TtxHamProofs Model.TtxStd Proofs.TtxStdProofs Proofs.FuelTtx Proofs.TtxTables Proofs.TtxTotal Proofs.TtxRowProofs Proofs.TtxCodec Proofs.TtxSteps Proofs.TtxStream Proofs.TtxWitness.
Import ListNotations.
Open Scope N_scope.

(* ---- tables ---- *)
(* astikit's Hamming 8/4 table is, on every byte value, the nearest-code-word decoder of ETS 300 706 *)
Theorem C06_hamming_table : forall b, ham84 b = ham84_dec b.
Proof. exact ham84_is_spec. Qed.
Print Assumptions C06_hamming_table.
Theorem C06_hamming_roundtrip : forall n, n < 16 -> ham84 (ham84_enc n) = Some n.
Proof. exact ham84_dec_enc. Qed.
Print Assumptions C06_hamming_roundtrip.
Theorem C06_hamming_single_error : forall n k, n < 16 -> k < 8 -> ham84 (N.lxor (ham84_enc n) (2 ^ k)) = Some n.
Proof. exact ham84_single_error. Qed.
Print Assumptions C06_hamming_single_error.
Theorem C06_hamming_double_error : forall n j k, n < 16 -> j < 8 -> k < 8 -> j <> k ->
  ham84 (N.lxor (N.lxor (ham84_enc n) (2 ^ j)) (2 ^ k)) = None.
Proof. exact ham84_double_error. Qed.
Print Assumptions C06_hamming_double_error.

(* bit order and parity *)
Theorem C06_reverse8_involutive : forall b, b < 256 -> rev8 (rev8 b) = b.
Proof. exact rev8_involutive. Qed.
Print Assumptions C06_reverse8_involutive.
Theorem C06_parity_table : forall b, b < 256 -> parity b = (N.land b 127, N.odd (ones8 b)).
Proof. exact parity_is_spec. Qed.
Print Assumptions C06_parity_table.
Theorem C06_cell_table : forall x, ttx_cell x = cell0 x.
Proof. exact cell_is_spec. Qed.
Print Assumptions C06_cell_table.
Theorem C06_cell_roundtrip : forall c, c < 128 -> ttx_cell (par_enc c) = c.
Proof. exact cell_par_enc. Qed.
Print Assumptions C06_cell_roundtrip.
(* a byte failing parity is stored as 0: it contributes no text *)
Theorem C06_cell_bad_parity : forall x, x < 256 -> N.odd (ones8 x) = false -> ttx_cell x = 0.
Proof. exact cell_bad_parity. Qed.
Print Assumptions C06_cell_bad_parity.

(* national option substitution touches exactly the 13 positions, for every entry of teletextCharsets *)
Theorem C06_national_substitution : forallb entry_subst_ok ttx_charsets = true.
Proof. exact national_substitution_exact. Qed.
Print Assumptions C06_national_substitution.

(* ---- codecs ---- *)
(* a PES payload is split into exactly the data units it was assembled from *)
Theorem C06_units_roundtrip : forall us, ttx_units (concat (map enc_unit us)) = us.
Proof. exact units_enc. Qed.
Print Assumptions C06_units_roundtrip.
(* a truncated last unit (fewer than two bytes, or a length byte running past the end of the payload) is dropped *)
Theorem C06_units_truncated : forall us g, trail_ok g = true -> ttx_units (concat (map enc_unit us) ++ g) = us.
Proof. exact units_enc_trail. Qed.
Print Assumptions C06_units_truncated.
(* magazine, packet number and payload of an encoded packet are decoded as sent *)
Theorem C06_packet_roundtrip : forall fl mag pkt payload, addr_ok mag pkt = true ->
  unit_addr (3, enc_packet fl mag pkt payload) = Some (mag, pkt, payload).
Proof. exact unit_addr_enc. Qed.
Print Assumptions C06_packet_roundtrip.
(* page number, serial flag, national option and subtitle flag of an encoded header are decoded as sent *)
Theorem C06_header_roundtrip : forall h, hdr_ok h = true -> negb ((h_tens h =? 15) && (h_units h =? 15)) = true ->
  hdr_full (enc_header h) = Some (h_pn h, h_serial h, h_cs h) /\ hdr_c6 (enc_header h) = Some (h_subtitle h).
Proof. exact hdr_full_enc. Qed.
Print Assumptions C06_header_roundtrip.
(* the row parser on the cells of any structured row returns exactly its runs *)
Theorem C06_row : forall (c : list str) (r : rowspec), length c = 96%nat -> rowspec_ok r = true ->
  ttx_parse_row c (row_cells r) = Ok (row_runs c r).
Proof. intros c r Hc Hr. exact (parse_row_encoded c Hc r Hr). Qed.
Print Assumptions C06_row.
Example C06_row_example : rowspec_ok ex_row1 = true /\ rowspec_ok ex_row2 = true /\ length (row_cells ex_row1) = 40%nat
  /\ rowspec_ok ex_row1_damaged = true /\ map sym_cell ex_syms = row_cells ex_row1_damaged.
Proof. repeat split; vm_compute; reflexivity. Qed.

(* parity failures.  A character byte with any one bit flipped is stored as 0; a row with damaged bytes is "our row"
   with 0 in the damaged cells, so it lies in the class of the stream theorems with the rowspec of its stored cells; and
   a damaged character cell reads as the attribute black: no run contains that character, the group is cut in two *)
Theorem C06_flipped_bit : forall ch k, ch < 128 -> k < 8 -> cell0 (N.lxor (par_enc ch) (2 ^ k)) = 0.
Proof. exact flipped_bit_cell. Qed.
Print Assumptions C06_flipped_bit.
Theorem C06_damaged_row_unit : forall fl mag0 row syms extra, 1 <= mag0 <= 8 -> 1 <= row <= 25 ->
  length syms = 40%nat -> forallb sym_ok syms = true ->
  is_our_row mag0 row (map sym_cell syms) (3, enc_packet fl mag0 row (map sym_byte syms ++ extra)) = true.
Proof. exact damaged_row_unit_is_ours. Qed.
Print Assumptions C06_damaged_row_unit.
Theorem C06_row_parity_error : forall (c : list str) pre boxes a cs x1 v x2 b e, length c = 96%nat ->
  rowspec_ok (mkRowspec pre boxes (a ++ mkRseg cs (x1 ++ v :: x2) :: b) e) = true ->
  let r := mkRowspec pre boxes (a ++ mkRseg cs (x1 ++ v :: x2) :: b) e in
  let r' := mkRowspec pre boxes (a ++ mkRseg cs x1 :: mkRseg [0] x2 :: b) e in
  exists l1 l2, row_cells r = l1 ++ v :: l2 /\ row_cells r' = l1 ++ 0 :: l2
                /\ ttx_parse_row c (l1 ++ 0 :: l2) = Ok (row_runs c r').
Proof. exact parity_error_in_text. Qed.
Print Assumptions C06_row_parity_error.

(* ---- stream level ---- *)
(* Character set designations (X/28 format 1 and M/29 packets of the selected magazine, designation code 0 or 4) are
   inside the class with their exact semantics: the reader parses the pages after the whole stream, so the designation in
   force then -- the last X/28 one received while our page was being received, else the last M/29 one (desig_final) --
   decides the table of EVERY page, earlier ones included (cues_of's last argument; 0 = default designation). *)
(* the reader is given the page *)
Theorem C06_stream_page_given : forall (s : sched) (m : mux) (peses : list pes),
  mux_ok s m = true -> forallb pes_ok peses = true -> flat_map pes_units peses = events s m ->
  ttx_feed (Z.of_N (s_mag s) * 100 + s_pn s) (map enc_pes peses)
  = Ok (cues_of s (zero_or (tmin peses None)) (zero_or (tmax peses None)) (desig_final false (s_mag s) m)).
Proof. exact stream_given_page. Qed.
Print Assumptions C06_stream_page_given.
(* the reader finds the first subtitle-flagged page *)
Theorem C06_stream_page_auto : forall (s : sched) (m : mux) (peses : list pes),
  mux_ok_auto s m = true -> forallb pes_ok peses = true -> flat_map pes_units peses = events s m ->
  ttx_feed 0 (map enc_pes peses)
  = Ok (cues_of s (zero_or (tmin peses None)) (zero_or (tmax peses None)) (desig_final true (s_mag s) m)).
Proof. exact stream_auto_page. Qed.
Print Assumptions C06_stream_page_auto.
(* a non-trivial schedule and multiplexing satisfy the hypotheses *)
Example C06_stream_example : mux_ok ex_sched ex_mux = true /\ forallb pes_ok ex_peses = true
  /\ flat_map pes_units ex_peses = events ex_sched ex_mux /\ length (cues_of ex_sched 900 5000 6144) = 2%nat
  /\ desig_final false 8 ex_mux = 6144.
Proof. split; [exact ex_mux_ok|]. split; [exact (proj1 ex_pes_ok)|]. split; [exact (proj2 ex_pes_ok) | split; [exact (proj1 ex_cues_nonempty) | exact ex_desig]]. Qed.

(* what a standard-conforming multiplexer emits belongs to the classes of the stream theorems *)
Theorem C06_header_unit : forall fl mag0 h, 1 <= mag0 <= 8 -> hdr_ok h = true ->
  negb ((h_tens h =? 15) && (h_units h =? 15)) = true ->
  is_our_header mag0 (h_pn h) (h_cs h) (hdr_unit fl mag0 h) = true
  /\ exists p, unit_addr (hdr_unit fl mag0 h) = Some (mag0, 0, p) /\ hdr_c6 p = Some (h_subtitle h).
Proof. exact header_unit_is_ours. Qed.
Print Assumptions C06_header_unit.
Theorem C06_row_unit : forall fl mag0 row cells extra, 1 <= mag0 <= 8 -> 1 <= row <= 25 ->
  length cells = 40%nat -> Forall (fun c => c < 128) cells ->
  is_our_row mag0 row cells (row_unit fl mag0 row cells extra) = true.
Proof. exact row_unit_is_ours. Qed.
Print Assumptions C06_row_unit.
(* distractors: units of these kinds are in the "cannot matter" class (they never contribute text) *)
Theorem C06_non_subtitle_units : forall mag0 pn0 id data, id <> 3 ->
  benign mag0 pn0 (id, data) = true /\ dead_ok mag0 pn0 (id, data) = true /\ unselected_ok (id, data) = true.
Proof. exact other_unit_benign. Qed.
Print Assumptions C06_non_subtitle_units.
Theorem C06_other_magazine_rows : forall fl mag0 pn0 mag pkt payload, 1 <= mag <= 8 -> mag <> mag0 -> 1 <= pkt <= 25 ->
  benign mag0 pn0 (3, enc_packet fl mag pkt payload) = true.
Proof. exact other_magazine_row_benign. Qed.
Print Assumptions C06_other_magazine_rows.
Theorem C06_enhancement_packets : forall fl mag0 pn0 mag pkt payload, 1 <= mag <= 8 -> pkt = 26 \/ pkt = 27 \/ pkt = 30 \/ pkt = 31 ->
  benign mag0 pn0 (3, enc_packet fl mag pkt payload) = true /\ dead_ok mag0 pn0 (3, enc_packet fl mag pkt payload) = true
  /\ unselected_ok (3, enc_packet fl mag pkt payload) = true.
Proof. exact enhancement_benign. Qed.
Print Assumptions C06_enhancement_packets.
Theorem C06_default_designation_packets : forall fl mag0 pkt dc d rest, 1 <= mag0 <= 8 -> dc = 0 \/ dc = 4 -> d < 2 ^ 18 ->
  pkt = 29 \/ (pkt = 28 /\ N.land d 15 = 0) -> triplet_key d = 0 ->
  neutral_unit mag0 (3, enc_packet fl mag0 pkt (desig_payload dc (ham2418_word d) rest)) = true.
Proof. exact default_designation_neutral. Qed.
Print Assumptions C06_default_designation_packets.
(* Hamming 24/18 (Model/TtxHam.v, written from ETS 300 706 8.3; the reader's decoder teletextHamming2418Decode is tied to it
   by the correspondence suites): the first triplet of X/28 and M/29 packets is decoded, not read raw (repair of the defect
   "designation packets of a real broadcast stream are misread", notes/C06.md).  For all 2^18 data words: round trip, any one
   of the 24 bits inverted is corrected, any two are rejected. *)
Theorem C06_hamming2418_roundtrip : forall d, d < 2 ^ 18 -> ham2418_dec_word (ham2418_word d) = Some d.
Proof. exact ham2418_word_roundtrip. Qed.
Print Assumptions C06_hamming2418_roundtrip.
Theorem C06_hamming2418_single_error : forall d p, d < 2 ^ 18 -> (p < 24)%nat ->
  ham2418_dec_word (N.lxor (ham2418_word d) (2 ^ N.of_nat p)) = Some d.
Proof. exact ham2418_word_single_error. Qed.
Print Assumptions C06_hamming2418_single_error.
Theorem C06_hamming2418_double_error : forall d p q, d < 2 ^ 18 -> (p < 24)%nat -> (q < 24)%nat -> p <> q ->
  ham2418_dec_word (N.lxor (N.lxor (ham2418_word d) (2 ^ N.of_nat p)) (2 ^ N.of_nat q)) = None.
Proof. exact ham2418_word_double_error. Qed.
Print Assumptions C06_hamming2418_double_error.
(* a designation packet as a standard-conformant encoder emits it (designation code 0 or 4, first triplet = 18 data bits
   d under Hamming 24/18, each byte most significant bit first), also with one inverted bit, records the designation d *)
Theorem C06_designation_packets : forall fl mag0 pkt dc d rest (err : option nat), 1 <= mag0 <= 8 -> dc = 0 \/ dc = 4 -> d < 2 ^ 18 ->
  pkt = 29 \/ (pkt = 28 /\ N.land d 15 = 0) -> match err with Some p => (p < 24)%nat | None => True end ->
  let w := match err with Some p => N.lxor (ham2418_word d) (2 ^ N.of_nat p) | None => ham2418_word d end in
  desig_ok mag0 (3, enc_packet fl mag0 pkt (desig_payload dc w rest)) = true
  /\ desig_of (3, enc_packet fl mag0 pkt (desig_payload dc w rest)) = (pkt, d).
Proof. exact designation_unit. Qed.
Print Assumptions C06_designation_packets.
Theorem C06_damaged_designation_packets : forall pkt dc d rest p q, d < 2 ^ 18 -> (p < 24)%nat -> (q < 24)%nat -> p <> q ->
  triplet_inert pkt (desig_payload dc (N.lxor (N.lxor (ham2418_word d) (2 ^ N.of_nat p)) (2 ^ N.of_nat q)) rest) = true.
Proof. exact damaged_designation_inert. Qed.
Print Assumptions C06_damaged_designation_packets.
Theorem C06_parallel_mode_pages : forall fl mag0 pn0 mag h, 1 <= mag <= 8 -> mag <> mag0 -> hdr_ok h = true ->
  negb ((h_tens h =? 15) && (h_units h =? 15)) = true -> h_serial h = false ->
  benign mag0 pn0 (hdr_unit fl mag h) = true.
Proof. exact parallel_header_benign. Qed.
Print Assumptions C06_parallel_mode_pages.
Theorem C06_other_page_terminates : forall fl mag0 pn0 mag h, 1 <= mag <= 8 -> hdr_ok h = true ->
  negb ((h_tens h =? 15) && (h_units h =? 15)) = true -> h_pn h <> pn0 -> (h_serial h = true \/ mag = mag0) ->
  is_terminator mag0 pn0 (hdr_unit fl mag h) = true.
Proof. exact other_page_header_terminates. Qed.
Print Assumptions C06_other_page_terminates.

(* pages whose number has a hexadecimal digit are pages of their own (after the repair of the aliasing defect) *)
Theorem C06_hex_pages_are_other_pages : forall tens units pn0, tens < 16 -> units < 16 -> (9 < tens \/ 9 < units) ->
  (0 <= pn0 <= 99)%Z -> page_code tens units <> pn0.
Proof. exact hex_page_is_other. Qed.
Print Assumptions C06_hex_pages_are_other_pages.

(* ---- totality ---- *)
Theorem C06_total : forall page ds site, ttx_feed page ds <> Panic site.
Proof. exact ttx_feed_no_panic. Qed.
Print Assumptions C06_total.

(* Fuel audit (Proofs/FuelTtx.v): ttx_units, on which C06_units_roundtrip, C06_units_truncated, the stream theorems and
   C06_total rely, runs ttx_units_fuel with fuel = the payload length; every fuel at least that large gives the same
   units, so the out-of-fuel value [] is never a truncated answer. *)
Theorem C06_units_fuel_independent : forall fuel d, (length d <= fuel)%nat -> ttx_units_fuel fuel d = ttx_units d.
Proof. intros fuel d H. unfold ttx_units. apply ttx_units_fuel_indep. exact H. Qed.
Print Assumptions C06_units_fuel_independent.

(* Independent character tables (Model/TtxStd.v: ETS 300 706 Tables 32, 35, 36 and the alphabetic columns of the Cyrillic
   and Greek G0 sets, written by hand; positions the author is not sure of are unasserted).  On every run, against the
   regenerated tables: for every designation the standard defines (Latin G0 with each of the 13 national options, Cyrillic
   1-3, Greek) the reader's table equals the standard's at every asserted position; the (designation bits, C12..C14) map
   is Table 32 with the option bits in the reader's order; Arabic and Hebrew G0 are not implemented (decoded as Latin).
   Where the standard table is complete (all Latin designations but Turkish) cues_of reads the text off the STANDARD table
   (g_table), and C06_std_table_is_reader_table is the bridge the stream theorems use.  The sweep found 7 groups of wrong
   entries in the code, repaired by six fix: commits (notes/C06.md). *)
Theorem C06_tables_are_standard : all_diffs = [].
Proof. exact code_tables_are_standard. Qed.
Print Assumptions C06_tables_are_standard.
Theorem C06_designation_map_is_standard :
  forallb (fun k => forallb (fun c => match std_designation k c with SReserved => true | _ => has_entry k c end) opts8) keys16 = true
  /\ reserved_with_entry = [(0, 7); (1, 5); (1, 7); (2, 7); (3, 0); (3, 1); (3, 2); (3, 3); (3, 4); (3, 6)].
Proof. exact designation_map_is_standard. Qed.
Print Assumptions C06_designation_map_is_standard.
Theorem C06_std_table_is_reader_table : forall tr c t, std_text_table (triplet_key tr) c = Some t -> charset_for tr c = Ok t.
Proof. exact std_text_table_is_code. Qed.
Print Assumptions C06_std_table_is_reader_table.
Theorem C06_arabic_hebrew_not_implemented :
  code_table 8 7 = code_table 0 7 /\ code_table 10 7 = code_table 0 7 /\ code_table 10 5 = code_table 0 7.
Proof. exact arabic_hebrew_not_implemented. Qed.
