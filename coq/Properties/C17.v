(* C17 — Parse result does not depend on how the reader delivers the bytes.
   Line-based readers: the tokens the scanner delivers are [lines data] for every schedule of read sizes
   (zero-length reads and data-with-EOF included), so every reader that is a function of the token list is
   schedule-independent (SubRip, WebVTT, SSA/ASS: C17_ssa).  STL: a block that is present in full is returned whole
   for every schedule, fewer bytes than a block give end-of-file (none) or an error (some) for every schedule, and
   ReadFromSTL with its blocks obtained through readNBytes under any schedule (each block read continuing where the
   previous one stopped; a block split across reads, zero-length reads, data arriving with the end-of-file) equals the
   one-shot reader (C17_stl).
   TTML: ReadFromTTML hands the stream to xml.Decoder, whose own read loop (a bufio.Reader filled by whatever the
   stream returns) is a CONTRACT here: the token tree it delivers does not depend on the read sizes.  From the token
   tree on, the reader model (Model/Ttml.v read_ttml; at byte level Model/PlainTtml.v read_ttml_bytes = XML parser
   model, then read_ttml) is a function of the whole document with no schedule parameter, so nothing schedule-dependent
   is left to prove; the harness delivers TTML documents under every schedule family and compares with the one-shot
   read.  Teletext hands the stream to astits: covered by the harness only. *)
From Coq Require Import List NArith Bool Arith.
From Astisub Require Import Kit.Base Kit.Scan Model.Srt Model.Vtt Proofs.ScanProofs Proofs.SrtIOProofs Proofs.VttIOProofs.
From Astisub Require Import Model.Ssa Proofs.SsaIOProofs.
From Astisub Require Import Model.Stl Model.StlIO Proofs.StlIOProofs.
Import ListNotations.
Open Scope N_scope.

Theorem C17_scanner : forall data counts, scan data counts = lines data.
Proof. exact scan_lines. Qed.
Theorem C17_schedule_independent : forall data counts counts', scan data counts = scan data counts'.
Proof. exact scan_schedule_independent. Qed.
(* the mechanism: a decision of the split function taken before the end of input is the decision on any extension *)
Theorem C17_split_stable : forall buf tok b' more,
  split buf false = Some (tok, b') -> split (buf ++ more) true = Some (tok, b' ++ more).
Proof. exact split_stable. Qed.
(* what [lines] is: LF, CR LF and lone CR are each exactly one line break; the last unterminated line is kept *)
Theorem C17_lines_lf : forall tok rest, forallb (fun c => negb (is_brk c)) tok = true -> lines (tok ++ LF :: rest) = tok :: lines rest.
Proof. exact lines_cons_lf. Qed.
Theorem C17_lines_crlf : forall tok rest, forallb (fun c => negb (is_brk c)) tok = true -> lines (tok ++ CR :: LF :: rest) = tok :: lines rest.
Proof. exact lines_cons_crlf. Qed.
Theorem C17_lines_cr : forall tok c rest, forallb (fun c => negb (is_brk c)) tok = true -> c <> LF -> lines (tok ++ CR :: c :: rest) = tok :: lines (c :: rest).
Proof. exact lines_cons_cr. Qed.
Theorem C17_lines_last : forall tok, tok <> [] -> forallb (fun c => negb (is_brk c)) tok = true -> lines tok = [tok].
Proof. exact lines_last. Qed.
(* the SubRip reader under any schedule *)
Theorem C17_srt : forall data counts, read_srt_lines (scan data counts) false = read_srt data.
Proof. exact read_srt_schedule. Qed.
(* the WebVTT reader under any schedule *)
Theorem C17_vtt : forall data counts, read_vtt_lines (scan data counts) false = read_vtt data.
Proof. exact read_vtt_schedule. Qed.
(* the SSA/ASS reader under any schedule *)
Theorem C17_ssa : forall data counts, read_ssa_lines (scan data counts) false = read_ssa data.
Proof. exact read_ssa_schedule. Qed.
Theorem C17_ssa_schedule_independent : forall data counts counts',
  read_ssa_lines (scan data counts) false = read_ssa_lines (scan data counts') false.
Proof. exact read_ssa_schedule_independent. Qed.

(* STL block reads (io.ReadFull semantics) *)
Theorem C17_stl_block : forall n data counts, (n <= length data)%nat ->
  exists cs, read_n n data counts = RnOk (firstn n data) (skipn n data) cs.
Proof. exact read_n_full. Qed.

(* fewer than n bytes left: io.EOF when none, an error when some, whatever the schedule *)
Theorem C17_stl_block_short : forall n data counts, (length data < n)%nat ->
  read_n n data counts = match data with [] => RnEOF | _ => RnShort end.
Proof. exact read_n_short_any. Qed.
(* the STL reader under any schedule *)
Theorem C17_stl : forall ign data counts, read_stl_sched ign data counts = read_stl ign data.
Proof. exact read_stl_schedule. Qed.
Theorem C17_stl_schedule_independent : forall ign data counts counts', read_stl_sched ign data counts = read_stl_sched ign data counts'.
Proof. exact read_stl_schedule_independent. Qed.
Print Assumptions C17_stl_block_short.
Print Assumptions C17_stl.
Print Assumptions C17_stl_schedule_independent.

(* non-vacuity: CR LF cut between two reads, a lone CR, an unterminated last line *)
Example C17_example : scan [97; 13; 10; 98; 13; 99] [2%nat; 0%nat; 1%nat] = [[97]; [98]; [99]] /\ lines [97; 13; 10; 98; 13; 99] = [[97]; [98]; [99]].
Proof. split; reflexivity. Qed.

Print Assumptions C17_scanner.
Print Assumptions C17_schedule_independent.
Print Assumptions C17_split_stable.
Print Assumptions C17_lines_lf.
Print Assumptions C17_lines_crlf.
Print Assumptions C17_lines_cr.
Print Assumptions C17_lines_last.
Print Assumptions C17_srt.
Print Assumptions C17_stl_block.
Print Assumptions C17_vtt.
Print Assumptions C17_ssa.
Print Assumptions C17_ssa_schedule_independent.
