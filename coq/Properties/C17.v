(* C17 — Parse result does not depend on how the reader delivers the bytes.
   Line-based readers: the tokens the scanner delivers are [lines data] for every schedule of read sizes
   (zero-length reads and data-with-EOF included), so every reader that is a function of the token list is
   schedule-independent (SubRip, WebVTT, SSA/ASS: C17_ssa).  STL: a block that is present in full is returned whole
   for every schedule, fewer bytes than a block give end-of-file (none) or an error (some) for every schedule, and
   ReadFromSTL with its blocks obtained through readNBytes under any schedule (each block read continuing where the
   previous one stopped; a block split across reads, zero-length reads, data arriving with the end-of-file) equals the
   one-shot reader (C17_stl).
   TTML: ReadFromTTML hands the stream to xml.Decoder, whose own read loop (a bufio.Reader filled by whatever the
   stream returns) is a CONTRACT here: the token tree it delivers does not depend on the read sizes.  From the token
   tree on, the reader model (Model/Ttml.v read_ttml; at byte level Model/PlainTtml.v read_ttml_bytes = XML parser
   model, then read_ttml) is a function of the whole document with no schedule parameter, so nothing schedule-dependent
   is left to prove; the harness delivers TTML documents under every schedule family and compares with the one-shot
   read.  Teletext hands the stream to astits: covered by the harness only. *)
From Coq Require Import List NArith Bool Arith.
From Astisub Require Import Kit.Base Kit.Scan Model.Srt Model.Vtt Proofs.ScanProofs Proofs.SrtIOProofs Proofs.VttIOProofs.
From Astisub Require Import Model.Ssa Proofs.SsaIOProofs.
From Astisub Require Import Model.Stl Model.StlIO Proofs.StlIOProofs.
Import ListNotations.
Open Scope N_scope.

Theorem C17_scanner : forall data counts, scan data counts = lines data.
Proof. exact scan_lines. Qed.
Theorem C17_schedule_independent : forall data counts counts', scan data counts = scan data counts'.
Proof. exact scan_schedule_independent. Qed.
(* the mechanism: a decision of the split function taken before the end of input is the decision on any extension *)
Theorem C17_split_stable : forall buf tok b' more,
  split buf false = Some (tok, b') -> split (buf ++ more) true = Some (tok, b' ++ more).
Proof. exact split_stable. Qed.
(* what [lines] is: LF, CR LF and lone CR are each exactly one line break; the last unterminated line is kept *)
Theorem C17_lines_lf : forall tok rest, forallb (fun c => negb (is_brk c)) tok = true -> lines (tok ++ LF :: rest) = tok :: lines rest.
Proof. exact lines_cons_lf. Qed.
Theorem C17_lines_crlf : forall tok rest, forallb (fun c => negb (is_brk c)) tok = true -> lines (tok ++ CR :: LF :: rest) = tok :: lines rest.
Proof. exact lines_cons_crlf. Qed.
Theorem C17_lines_cr : forall tok c rest, forallb (fun c => negb (is_brk c)) tok = true -> c <> LF -> lines (tok ++ CR :: c :: rest) = tok :: lines (c :: rest).
Proof. exact lines_cons_cr. Qed.
Theorem C17_lines_last : forall tok, tok <> [] -> forallb (fun c => negb (is_brk c)) tok = true -> lines tok = [tok].
Proof. exact lines_last. Qed.
(* the SubRip reader under any schedule *)
Theorem C17_srt : forall data counts, read_srt_lines (scan data counts) false = read_srt data.
Proof. exact read_srt_schedule. Qed.
(* the WebVTT reader under any schedule *)
Theorem C17_vtt : forall data counts, read_vtt_lines (scan data counts) false = read_vtt data.
Proof. exact read_vtt_schedule. Qed.
(* the SSA/ASS reader under any schedule *)
Theorem C17_ssa : forall data counts, read_ssa_lines (scan data counts) false = read_ssa data.
Proof. exact read_ssa_schedule. Qed.
Theorem C17_ssa_schedule_independent : forall data counts counts',
  read_ssa_lines (scan data counts) false = read_ssa_lines (scan data counts') false.
Proof. exact read_ssa_schedule_independent. Qed.

(* STL block reads (io.ReadFull semantics) *)
Theorem C17_stl_block : forall n data counts, (n <= length data)%nat ->
  exists cs, read_n n data counts = RnOk (firstn n data) (skipn n data) cs.
Proof. exact read_n_full. Qed.

(* fewer than n bytes left: io.EOF when none, an error when some, whatever the schedule *)
Theorem C17_stl_block_short : forall n data counts, (length data < n)%nat ->
  read_n n data counts = match data with [] => RnEOF | _ => RnShort end.
Proof. exact read_n_short_any. Qed.
(* the STL reader under any schedule *)
Theorem C17_stl : forall ign data counts, read_stl_sched ign data counts = read_stl ign data.
Proof. exact read_stl_schedule. Qed.
Theorem C17_stl_schedule_independent : forall ign data counts counts', read_stl_sched ign data counts = read_stl_sched ign data counts'.
Proof. exact read_stl_schedule_independent. Qed.
Print Assumptions C17_stl_block_short.
Print Assumptions C17_stl.
Print Assumptions C17_stl_schedule_independent.

(* non-vacuity: CR LF cut between two reads, a lone CR, an unterminated last line *)
Example C17_example : scan [97; 13; 10; 98; 13; 99] [2%nat; 0%nat; 1%nat] = [[97]; [98]; [99]] /\ lines [97; 13; 10; 98; 13; 99] = [[97]; [98]; [99]].
Proof. split; reflexivity. Qed.

Print Assumptions C17_scanner.
Print Assumptions C17_schedule_independent.
Print Assumptions C17_split_stable.
Print Assumptions C17_lines_lf.
Print Assumptions C17_lines_crlf.
Print Assumptions C17_lines_cr.
Print Assumptions C17_lines_last.
Print Assumptions C17_srt.
Print Assumptions C17_stl_block.
Print Assumptions C17_vtt.
Print Assumptions C17_ssa.
Print Assumptions C17_ssa_schedule_independent.

(* ---- the buffer limit of bufio.Scanner (audit follow-up; Kit/ScanLim.v, Proofs/ScanLimProofs.v, Proofs/ScanLimReaders.v) ----
   newScanner never calls scanner.Buffer: the limit is bufio.MaxScanTokenSize = 65536 bytes of UNCONSUMED data.  [scan_lim max
   data counts] is the scanner with that limit ([max] a parameter; [max_scan_token] the real value): tokens delivered and
   whether scanning stopped with ErrTooLong.  The theorems above ([scan], no limit) hold exactly under the bound below,
   for every schedule. *)
From Coq Require Import Lia.
From Astisub Require Import Kit.ScanLim Proofs.ScanLimProofs Proofs.ScanLimReaders.

(* (a) every line at least two bytes shorter than the buffer (text <= 65534 bytes): the limit never matters *)
Theorem C17_scanner_within_limit : forall max data counts, (0 < max)%nat ->
  Forall (fun l => (length l + 2 <= max)%nat) (lines data) -> scan_lim max data counts = (lines data, false).
Proof. exact scan_lim_short_lines. Qed.
(* ... the exact condition: every terminated line's look-ahead (line + LF; line + CR + the byte after it) within the
   buffer, the last unterminated line (or one ending in a final CR) strictly shorter than the buffer *)
Theorem C17_scanner_fits : forall max data counts, (0 < max)%nat -> lim_fits max data ->
  scan_lim max data counts = (lines data, false).
Proof. exact scan_lim_fits. Qed.
(* the readers within the bound: the one-shot readers, for every schedule *)
Theorem C17_readers_within_limit : forall max data counts, (0 < max)%nat ->
  Forall (fun l => (length l + 2 <= max)%nat) (lines data) ->
  read_srt_lines (fst (scan_lim max data counts)) (snd (scan_lim max data counts)) = read_srt data /\
  read_vtt_lines (fst (scan_lim max data counts)) (snd (scan_lim max data counts)) = read_vtt data /\
  read_ssa_lines (fst (scan_lim max data counts)) (snd (scan_lim max data counts)) = read_ssa data.
Proof. exact read_lim_within. Qed.
(* for EVERY input and schedule: what is delivered is a prefix of [lines data], all of it when no error is raised *)
Theorem C17_scanner_limit_sound : forall max data counts,
  (snd (scan_lim max data counts) = false -> fst (scan_lim max data counts) = lines data) /\
  (exists j, fst (scan_lim max data counts) = firstn j (lines data)).
Proof. exact scan_lim_sound. Qed.

(* (c) the boundary, per kind of line end, for any buffer size ([tok] a line without CR/LF) *)
Theorem C17_boundary_lf : forall max tok rest counts, (0 < max)%nat ->
  forallb (fun c => negb (is_brk c)) tok = true -> lim_fits max rest ->
  scan_lim max (tok ++ LF :: rest) counts = if Nat.leb (length tok + 1) max then (tok :: lines rest, false) else ([], true).
Proof. exact boundary_lf. Qed.
Theorem C17_boundary_crlf : forall max tok rest counts, (0 < max)%nat ->
  forallb (fun c => negb (is_brk c)) tok = true -> lim_fits max rest ->
  scan_lim max (tok ++ CR :: LF :: rest) counts = if Nat.leb (length tok + 2) max then (tok :: lines rest, false) else ([], true).
Proof. exact boundary_crlf. Qed.
(* a lone CR followed by text: one byte of look-ahead beyond the terminator (the split function waits to see whether a
   LF follows - the behaviour introduced by the fix "line scanner waits for more data when the buffer ends in a
   carriage return") *)
Theorem C17_boundary_cr : forall max tok c rest counts, (0 < max)%nat ->
  forallb (fun c => negb (is_brk c)) tok = true -> c <> LF -> lim_fits max (c :: rest) ->
  scan_lim max (tok ++ CR :: c :: rest) counts = if Nat.leb (length tok + 2) max then (tok :: lines (c :: rest), false) else ([], true).
Proof. exact boundary_cr. Qed.
(* the last line: schedule-independent below and above the buffer size ... *)
Theorem C17_boundary_last : forall max tok counts, tok <> [] -> forallb (fun c => negb (is_brk c)) tok = true ->
  ((length tok < max)%nat -> scan_lim max tok counts = ([tok], false)) /\
  ((max < length tok)%nat -> scan_lim max tok counts = ([], true)).
Proof. exact boundary_last. Qed.
Theorem C17_boundary_last_cr : forall max tok counts, forallb (fun c => negb (is_brk c)) tok = true ->
  ((length tok + 1 < max)%nat -> scan_lim max (tok ++ [CR]) counts = ([tok], false)) /\
  ((max < length tok + 1)%nat -> scan_lim max (tok ++ [CR]) counts = ([], true)).
Proof. exact boundary_last_cr. Qed.
(* ... and schedule-DEPENDENT exactly at it: a last line that fills the buffer passes iff the stream reports end-of-file
   together with the last bytes; a stream that reports it by a separate Read (bytes.Reader, strings.Reader, os.File)
   gets ErrTooLong.  This is the only place where the result depends on the delivery. *)
Theorem C17_boundary_last_exact : forall max tok, tok <> [] -> forallb (fun c => negb (is_brk c)) tok = true -> length tok = max ->
  scan_lim max tok [] = ([tok], false) /\ scan_lim max tok [max] = ([], true) /\ scan_lim max tok [max; 0%nat] = ([], true).
Proof. exact boundary_last_exact. Qed.
Theorem C17_boundary_last_cr_exact : forall max tok, forallb (fun c => negb (is_brk c)) tok = true -> (length tok + 1)%nat = max ->
  scan_lim max (tok ++ [CR]) [] = ([tok], false) /\ scan_lim max (tok ++ [CR]) [max] = ([], true).
Proof. exact boundary_last_cr_exact. Qed.

(* the real constant.  Observed on the library (newScanner through the hook VerifScanTokens, go1.23.5; lines of 'a' of
   65533..65537 bytes, alone and after a first line "ab"; streams: bytes.Reader, a reader returning io.EOF with the last
   bytes, readers delivering 1000 and 7 bytes per Read):
     LF        : 65535 ok, 65536 ErrTooLong            (all streams)
     CR LF     : 65534 ok, 65535 ErrTooLong            (all streams)
     CR "x"    : 65534 ok (2 tokens), 65535 ErrTooLong (all streams)
     CR at EOF : 65534 ok, 65536 ErrTooLong (all streams); 65535: ok only when EOF comes with the last bytes
     none      : 65535 ok, 65537 ErrTooLong (all streams); 65536: ok only when EOF comes with the last bytes
   and the tokens before the over-long line are delivered.  The same table, in the model: *)
Example C17_real_boundary_lf : forall counts,
  scan_lim max_scan_token (a_line 65535 ++ [LF]) counts = ([a_line 65535], false) /\
  scan_lim max_scan_token (a_line 65536 ++ [LF]) counts = ([], true).
Proof. exact real_boundary_lf. Qed.
Example C17_real_boundary_crlf : forall counts,
  scan_lim max_scan_token (a_line 65534 ++ [CR; LF]) counts = ([a_line 65534], false) /\
  scan_lim max_scan_token (a_line 65535 ++ [CR; LF]) counts = ([], true).
Proof. exact real_boundary_crlf. Qed.
Example C17_real_boundary_cr : forall counts,
  scan_lim max_scan_token (a_line 65534 ++ [CR; 120%N]) counts = ([a_line 65534; [120%N]], false) /\
  scan_lim max_scan_token (a_line 65535 ++ [CR; 120%N]) counts = ([], true).
Proof. exact real_boundary_cr. Qed.
Example C17_real_boundary_last : forall counts,
  scan_lim max_scan_token (a_line 65535) counts = ([a_line 65535], false) /\
  scan_lim max_scan_token (a_line 65537) counts = ([], true) /\
  scan_lim max_scan_token (a_line 65536) [] = ([a_line 65536], false) /\
  scan_lim max_scan_token (a_line 65536) [max_scan_token] = ([], true).
Proof. exact real_boundary_last. Qed.
Example C17_real_boundary_last_cr : forall counts,
  scan_lim max_scan_token (a_line 65534 ++ [CR]) counts = ([a_line 65534], false) /\
  scan_lim max_scan_token (a_line 65536 ++ [CR]) counts = ([], true) /\
  scan_lim max_scan_token (a_line 65535 ++ [CR]) [] = ([a_line 65535], false) /\
  scan_lim max_scan_token (a_line 65535 ++ [CR]) [max_scan_token] = ([], true).
Proof. exact real_boundary_last_cr. Qed.
Example C17_real_prefix_delivered : forall counts,
  scan_lim max_scan_token ([97; 98; 10]%N ++ a_line 65536 ++ [LF]) counts = ([[97; 98]%N], true).
Proof. exact real_prefix_delivered. Qed.
(* small buffer, every branch by computation: CR LF cut by the buffer end, a line that fits exactly, one that does not *)
Example C17_lim_small :
  scan_lim 4 [97; 13; 10; 98; 99; 100; 10; 101]%N [2%nat; 0%nat; 1%nat] = ([[97]; [98; 99; 100]; [101]]%N, false) /\
  scan_lim 4 [97; 10; 98; 99; 100; 101; 10]%N [3%nat] = ([[97]%N], true) /\
  scan_lim 4 [97; 98; 99; 13; 100]%N [] = ([], true).
Proof. repeat split; reflexivity. Qed.

Print Assumptions C17_scanner_within_limit.
Print Assumptions C17_scanner_fits.
Print Assumptions C17_readers_within_limit.
Print Assumptions C17_scanner_limit_sound.
Print Assumptions C17_boundary_lf.
Print Assumptions C17_boundary_crlf.
Print Assumptions C17_boundary_cr.
Print Assumptions C17_boundary_last.
Print Assumptions C17_boundary_last_cr.
Print Assumptions C17_boundary_last_exact.
Print Assumptions C17_boundary_last_cr_exact.

(* Teletext in transport streams (second audit, N1).  The reader is delegated to the astits demuxer, which detects the packet
   size from a single Read of 193 bytes and re-synchronises with single Reads; what the library itself contributes since
   repo b00351a is the wrapper teletextFullReader between the caller's io.Reader and the demuxer.  Model/TtxFull.v models
   exactly that wrapper (io.ReadFull with io.ErrUnexpectedEOF turned into nil) over the schedule model of Kit/Scan.v: a
   stream (tf_of data end counts w) delivers data under the read sizes counts (0 allowed, then the rest), ends with
   end-of-file or fails at an offset, and hands its end signal over together with the last bytes (w = true) or on a Read
   of its own.  tf_reads s [n1; n2; ...] is what the successive Reads of the demuxer with buffers of n1, n2, ... bytes
   return: (bytes, nil / EOF / failure).  Statement: for EVERY schedule it is the one-shot sequence tf_oneshot (a function
   of the data and the request sizes alone): every request is filled while bytes remain, then the rest, then (no byte,
   EOF).  So whatever the demuxer computes from its Reads is schedule-free.  NOT modelled: the demuxer itself (contract:
   its result is a function of what its Reads return), the *bufio.Reader pass-through (the demuxer peeks into it; covered
   by the harness schedule suite on the implementation), Seek (the seekable variant reads through the same Read; the
   correspondence suite ttxfull runs the real wrapper, both variants, against tf_reads and against tf_oneshot). *)
From Astisub Require Import Model.TtxFull Proofs.TtxFullProofs.
Theorem C17_ttx_full_reads : forall data counts w ns, tf_reads (tf_of data SEof counts w) ns = Some (tf_oneshot data TfEOF ns).
Proof. exact ttx_full_reads. Qed.
Print Assumptions C17_ttx_full_reads.
Theorem C17_ttx_full_reads_schedule_free : forall data c1 w1 c2 w2 ns,
  tf_reads (tf_of data SEof c1 w1) ns = tf_reads (tf_of data SEof c2 w2) ns.
Proof. exact ttx_full_reads_schedule_free. Qed.
Print Assumptions C17_ttx_full_reads_schedule_free.
(* the one-shot sequence while bytes remain: request i returns exactly ni bytes and no error, and the buffers put together
   are the stream's bytes *)
Theorem C17_ttx_oneshot_filled : forall ns avail e, (list_sum ns <= length avail)%nat ->
  concat (map fst (tf_oneshot avail e ns)) = firstn (list_sum ns) avail /\ Forall (fun x => snd x = None) (tf_oneshot avail e ns) /\
  map (fun x => length (fst x)) (tf_oneshot avail e ns) = ns.
Proof. exact tf_oneshot_bytes. Qed.
Print Assumptions C17_ttx_oneshot_filled.
(* non-vacuity: 7 bytes delivered 1 + 0 + 2 + rest with EOF on the last bytes, the demuxer asks for 3, 3, 3, 3 *)
Example C17_ttx_full_example :
  tf_reads (tf_of [1;2;3;4;5;6;7]%N SEof [1;0;2]%nat true) [3;3;3;3]%nat =
  Some [([1;2;3]%N, None); ([4;5;6]%N, None); ([7]%N, None); ([], Some TfEOF)].
Proof. reflexivity. Qed.
Print Assumptions C17_ttx_full_example.
