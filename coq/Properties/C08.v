(* C08 — Totality: no reader or writer ever panics or hangs.
   In the models every Go operation that can panic at run time is an explicit [Panic] result at the same
   site, and every loop is a structural recursion or a fuelled one with a sufficiency argument, so
   "never panics, always terminates" is: for every input the model's result is not [Panic].
   Proved here for: the SubRip reader over ANY token list - any bytes under any schedule - and writer over any cue
   list; the WebVTT reader and writer; the SSA/ASS reader over any token list and writer over any document value and
   map order; the EBU STL reader on any byte string, in one shot or with its blocks read under any delivery schedule,
   and the STL writer on any metadata / cue list / clock value; the TTML reader on any XML tree and writer on any
   document value (cited when the TTML lines below are present); the teletext reader from the delivered PES payloads
   on - i.e. for every stream the third-party demultiplexer gets through, whatever bytes the payloads hold; the
   cue-list operations are total Gallina functions.  What the models do not reach (the XML tokenizer, the transport
   stream demultiplexer, running time) is decided on the implementation by the harness (structure-aware mutation under
   recover() and a watchdog), which is exploration, not proof. *)
From Coq Require Import List NArith.
From Astisub Require Import Kit.Base Kit.Scan Model.Srt Model.Vtt Model.Ttx Proofs.SrtIOProofs Proofs.VttIOProofs Proofs.TtxTotal.
From Astisub Require Import Model.Ssa Proofs.SsaIgnore Model.SsaC Proofs.SsaChk.
From Astisub Require Import Kit.Chk Model.SrtC Model.VttC Proofs.SrtChk Proofs.VttChk Model.Dur Model.DurC Proofs.DurChk.
From Astisub Require Import Model.Stl Model.StlIO Proofs.StlBlocks Proofs.StlIOProofs.
From Astisub Require Import Kit.Xml Model.Ttml Model.PlainTtml Proofs.TtmlBase Proofs.TtmlIO Model.TtmlGo Proofs.TtmlGoProofs.
From Astisub Require Model.TtmlC Proofs.TtmlChk.
Import ListNotations.

Theorem C08_srt_reader_total : forall (ls : list (list N)) (scan_err : bool) (p : N), read_srt_lines ls scan_err <> Panic p.
Proof. exact read_srt_lines_no_panic. Qed.
Theorem C08_srt_reader_total_bytes : forall (data : list N) (counts : list nat) (p : N), read_srt_lines (scan data counts) false <> Panic p.
Proof. intros data counts p. apply read_srt_lines_no_panic. Qed.
Theorem C08_srt_writer_total : forall (l : list sitem) (p : N), write_srt l <> Panic p.
Proof. exact write_srt_no_panic. Qed.
(* the input that crashed the reader before the repair is now an error *)
Example C08_srt_missing_end : read_srt [48;48;58;48;48;58;48;49;44;48;48;48;32;45;45;62]%N = Err EParse.
Proof. vm_compute. reflexivity. Qed.

(* WebVTT reader (any token list, hence any bytes under any schedule) and writer (any document value) *)
Theorem C08_vtt_reader_total : forall (ls : list (list N)) (scan_err : bool) (p : N), read_vtt_lines ls scan_err <> Panic p.
Proof. exact read_vtt_lines_no_panic. Qed.
Theorem C08_vtt_writer_total : forall d so ro (p : N), write_vtt d so ro <> Panic p.
Proof. exact write_vtt_no_panic. Qed.
(* SSA/ASS reader (any token list; the index panic of newSSAEventFromString on an empty Format is unreachable: the
   reader checks the Format first) and writer (nil metadata, nil styles, nil inline attributes, any map order) *)
Theorem C08_ssa_reader_total : forall (ls : list (list N)) (scan_err : bool) (p : N), read_ssa_lines ls scan_err <> Panic p.
Proof. exact read_no_panic. Qed.
Theorem C08_ssa_writer_total : forall d order (p : N), write_ssa d order <> Panic p.
Proof. exact write_no_panic. Qed.

(* EBU STL: any bytes (one shot, or blocks read under any schedule), any writer input *)
Theorem C08_stl_reader_total : forall (ign : bool) (data : list N) (p : N), read_stl ign data <> Panic p.
Proof. exact read_total. Qed.
Theorem C08_stl_reader_total_schedule : forall (ign : bool) (data : list N) (counts : list nat) (p : N), read_stl_sched ign data counts <> Panic p.
Proof. intros ign data counts p. rewrite read_stl_schedule. apply read_total. Qed.
Theorem C08_stl_writer_total : forall now md items (p : N), write_stl now md items <> Panic p.
Proof. exact write_total. Qed.
Print Assumptions C08_stl_reader_total.
Print Assumptions C08_stl_reader_total_schedule.
Print Assumptions C08_stl_writer_total.

(* SubRip and WebVTT, CHECKED transcriptions (Model/SrtC.v, Model/VttC.v): every run-time panic site of srt.go and
   webvtt.go -- slice index, slicing, nil dereference; the table with the guard that dominates each site is in
   notes/C08.md -- is an explicit [Panic <line>] behind the code's own guard, so these statements have content: each
   guard implies that its access is in range / non-nil (removing a guard from the model makes Panic reachable, e.g.
   left[1] without strings.Contains(line, "-->")).  These are the functions the correspondence suites run; they agree
   with the pattern-matching transcriptions on which the fidelity theorems of C01 / C02 are stated. *)
Theorem C08_srt_checked_reader_total : forall (ls : list (list N)) (scan_err : bool) (p : N), read_srt_lines_c ls scan_err <> Panic p.
Proof. exact read_srt_lines_c_no_panic. Qed.
Theorem C08_srt_checked_writer_total : forall (l : list sitem) (p : N), write_srt_c l <> Panic p.
Proof. exact write_srt_c_no_panic. Qed.
Theorem C08_srt_checked_reader_agrees : forall ls e, read_srt_lines_c ls e = read_srt_lines ls e.
Proof. exact read_srt_lines_c_ok. Qed.
Theorem C08_srt_checked_writer_agrees : forall l, write_srt_c l = write_srt l.
Proof. exact write_srt_c_ok. Qed.
Theorem C08_vtt_checked_reader_total : forall (ls : list (list N)) (scan_err : bool) (p : N), read_vtt_lines_c ls scan_err <> Panic p.
Proof. exact read_vtt_lines_c_no_panic. Qed.
Theorem C08_vtt_checked_writer_total : forall d so ro (p : N), write_vtt_c d so ro <> Panic p.
Proof. exact write_vtt_c_no_panic. Qed.
Theorem C08_vtt_checked_reader_agrees : forall ls e, read_vtt_lines_c ls e = read_vtt_lines ls e.
Proof. exact read_vtt_lines_c_ok. Qed.
Theorem C08_vtt_checked_writer_agrees : forall d so ro, write_vtt_c d so ro = write_vtt d so ro.
Proof. exact write_vtt_c_ok. Qed.
(* parseDuration (subtitles.go), used by both readers: parts[len(parts)-1], parts[:len(parts)-1], parts[0..2] *)
Theorem C08_parse_duration_checked : forall s sep k, parse_duration_c s sep k = Ok (parse_duration s sep k).
Proof. exact parse_duration_c_ok. Qed.
(* the guards are what keeps the sites unreachable: the same accesses without their guard do panic *)
Example C08_unguarded_index_panics : index (Str.split arrow [97]) 1 240 = Panic 240 /\ slice_to (@nil N) 1 364 = Panic 364 /\ deref (@None N) 289 = Panic 289.
Proof. repeat split. Qed.
(* CORRECTION (second audit, N6): the Example above exercises the primitives of Kit/Chk.v only (its site 289 is in no model,
   and slice_to [] 1 is not what line 364 evaluates).  Its role is taken over by C08_srt_guards_load_bearing,
   C08_vtt_guards_load_bearing and C08_dur_guards_load_bearing at the end of this file. *)

(* teletext: any page option, any list of delivered (time, payload) pairs with arbitrary bytes *)
Theorem C08_teletext_reader_total : forall page ds (p : N), ttx_feed page ds <> Panic p.
Proof. exact ttx_feed_no_panic. Qed.

(* TTML: the reader on ANY XML token tree (whatever encoding/xml delivers) and, at byte level, on any bytes through the
   XML parser model; the writer on any document value, as a tree and as bytes with any indent option *)
Theorem C08_ttml_reader_total : forall root (p : N), read_ttml root <> Panic p.
Proof. exact read_ttml_total. Qed.
Theorem C08_ttml_reader_total_bytes : forall data (p : N), read_ttml_bytes data <> Panic p.
Proof. exact read_ttml_bytes_total. Qed.
Theorem C08_ttml_writer_total : forall d (p : N), write_ttml d <> Panic p.
Proof. exact write_ttml_total. Qed.
Theorem C08_ttml_writer_total_bytes : forall ind d (p : N), write_ttml_bytes_go ind d <> Panic p.
Proof. exact write_ttml_bytes_go_total. Qed.

Print Assumptions C08_ttml_reader_total.
Print Assumptions C08_ttml_reader_total_bytes.
Print Assumptions C08_ttml_writer_total.
Print Assumptions C08_ttml_writer_total_bytes.
Print Assumptions C08_teletext_reader_total.
Print Assumptions C08_srt_reader_total.
Print Assumptions C08_srt_reader_total_bytes.
Print Assumptions C08_srt_writer_total.
Print Assumptions C08_vtt_reader_total.
Print Assumptions C08_vtt_writer_total.
Print Assumptions C08_ssa_reader_total.
Print Assumptions C08_ssa_writer_total.
Print Assumptions C08_srt_checked_reader_total.
Print Assumptions C08_srt_checked_writer_total.
Print Assumptions C08_srt_checked_reader_agrees.
Print Assumptions C08_srt_checked_writer_agrees.
Print Assumptions C08_vtt_checked_reader_total.
Print Assumptions C08_vtt_checked_writer_total.
Print Assumptions C08_vtt_checked_reader_agrees.
Print Assumptions C08_vtt_checked_writer_agrees.
Print Assumptions C08_parse_duration_checked.

(* ---- nil elements inside Items ----
   Subtitles.Items is a public []*Item; since the fix "writers skip nil items" every writer starts with
   s.Items = nonNilItems(s.Items).  Model: Kit.Chk.somes; the writer on a list with nil elements is the writer on the list
   without them (harness: total.write.nil-item.* for the five writers -- no panic, same bytes / same error as without the
   nil elements; srt.write.nil_item, vtt.write.nil_item, ssawritem: bytes against the model of the list without them). *)
Theorem C08_srt_writer_total_nil_items : forall (l : list (option sitem)) p, write_srt_items_c l <> Panic p.
Proof. exact write_srt_items_c_no_panic. Qed.
Theorem C08_vtt_writer_total_nil_items : forall items d so ro p, write_vtt_items_c items d so ro <> Panic p.
Proof. exact write_vtt_items_c_no_panic. Qed.
Theorem C08_nil_items_skipped : forall (l : list sitem) (a b : list (option sitem)),
  write_srt_items_c (map Some l) = write_srt_c l /\
  write_srt_items_c (a ++ None :: b) = write_srt_items_c (a ++ b).
Proof. exact nil_items_skipped. Qed.
Print Assumptions C08_srt_writer_total_nil_items.
Print Assumptions C08_vtt_writer_total_nil_items.
Print Assumptions C08_nil_items_skipped.

(* ---- SSA/ASS, CHECKED transcription (Model/SsaC.v) ----
   Every run-time panic site of ssa.go -- slice index, slicing, nil dereference, call of a nil func value (the two
   callbacks of SSAOptions), store into a nil map; the table with the guard that dominates each site is in notes/C04.md,
   Real panic sites (C08) -- ssa.go -- is an explicit [Panic <line>] behind the code's own guard, so these statements
   have content: line[1:len(line)-1] behind HasPrefix "[" and HasSuffix "]", line[0] and line[1:] behind len(line) > 0,
   split[0] and split[1:] behind len(split) < 2, the callbacks behind their nil tests FOR EVERY VALUE OF THE OPTIONS
   (both nil included), the store into the format map behind the section headers that make it, items[len(format)-1]
   behind len(format) != 0 and len(items) >= len(format), i[2:] behind HasPrefix "&H", the pending lineItem behind
   len(matches) > 0, parseDuration's slices (Model/DurC.v); in the writer the nil tests of Metadata, of the elements of
   Styles (and the look-up of every stored style name), of Item.Style / Item.InlineStyle / LineItem.InlineStyle, of every
   pointer attribute of script info, styles and events; nil elements of Items are skipped (nonNilItems, [somes]).
   These are the functions the correspondence suites run (ssareadm with all four combinations of nil / non-nil
   callbacks, ssawritem, ssawritechunks, ssastyle, ssaevent, ssaitem, ssatext, ssainfo, ...); they agree with the
   pattern-matching transcriptions on which the fidelity theorems of C04 are stated.  The Examples show that the same
   steps without their guard do reach the site. *)
Theorem C08_ssa_checked_reader_total : forall (o : ssa_opts) (ls : list (list N)) (scan_err : bool) (p : N),
  read_ssa_lines_c o ls scan_err <> Panic p.
Proof. exact read_ssa_lines_c_no_panic. Qed.
Theorem C08_ssa_checked_writer_total : forall d order (p : N), write_ssa_c d order <> Panic p.
Proof. exact write_ssa_c_no_panic. Qed.
Theorem C08_ssa_checked_reader_agrees : forall o ls e, read_ssa_lines_c o ls e = read_ssa_lines ls e.
Proof. exact read_ssa_lines_c_ok. Qed.
Theorem C08_ssa_checked_writer_agrees : forall d order, write_ssa_c d order = write_ssa d order.
Proof. exact write_ssa_c_ok. Qed.
Theorem C08_ssa_writer_total_nil_items : forall (items : list (option aitem)) d order p, write_ssa_items_c items d order <> Panic p.
Proof. exact write_ssa_items_c_no_panic. Qed.
Theorem C08_ssa_nil_items_skipped : forall (l : list aitem) (a b : list (option aitem)) d order,
  write_ssa_items_c (map Some l) d order = write_ssa_c (mkAdoc (ad_meta d) (ad_styles d) l) order /\
  write_ssa_items_c (a ++ None :: b) d order = write_ssa_items_c (a ++ b) d order.
Proof. exact ssa_nil_items_skipped. Qed.
(* the row decoders: the empty Format is the one input class on which newSSAEventFromString indexes out of range; the
   reader tests len(format) == 0 first (L220) *)
Theorem C08_ssa_checked_event_row : forall header content fmt, fmt <> [] ->
  event_from_string_c header content fmt = event_from_string header content fmt.
Proof. exact event_from_string_c_ok. Qed.
Theorem C08_ssa_checked_style_row : forall content fmt, style_from_string_c content fmt = style_from_string content fmt.
Proof. exact style_from_string_c_ok. Qed.
Theorem C08_ssa_event_row_empty_format_panics : forall header content, event_from_string_c header content [] = Panic 977%N.
Proof. exact event_from_string_c_empty_format. Qed.
(* a nil OnInvalidLine called without its nil test (what the seeded change C08-ssa-nil-invalid-line-callback does), on
   the line "no colon here": Panic 198; with the test: the line is skipped *)
Example C08_ssa_unguarded_callback_panics :
  ssa_kv_h (deref (so_invalid opts_nil) 198) (mkAcstate SInfo None ainfo0 [] [])
           [110;111;32;99;111;108;111;110;32;104;101;114;101]%N = Panic 198%N /\
  ssa_kv_h (on_invalid_c opts_nil) (mkAcstate SInfo None ainfo0 [] [])
           [110;111;32;99;111;108;111;110;32;104;101;114;101]%N = Ok (mkAcstate SInfo None ainfo0 [] []).
Proof. exact unguarded_invalid_callback_panics. Qed.
Example C08_ssa_unguarded_sites_panic :
  format_store_c None [[84;101;120;116]%N] = Panic 216%N /\
  slice_range [91%N] 1 (length [91%N] - 1) 162 = Panic 162%N /\
  deref (@None (list N)) 1112 = Panic 1112%N.
Proof. repeat split. Qed.
Print Assumptions C08_ssa_checked_reader_total.
Print Assumptions C08_ssa_checked_writer_total.
Print Assumptions C08_ssa_checked_reader_agrees.
Print Assumptions C08_ssa_checked_writer_agrees.
Print Assumptions C08_ssa_writer_total_nil_items.
Print Assumptions C08_ssa_nil_items_skipped.
Print Assumptions C08_ssa_checked_event_row.
Print Assumptions C08_ssa_checked_style_row.
Print Assumptions C08_ssa_event_row_empty_format_panics.
Print Assumptions C08_ssa_unguarded_callback_panics.
(* ---- EBU STL, checked transcriptions (audit item: "the stl model contains no Panic constructor, so its no-panic theorems
   are true by construction").  Model/StlC.v transcribes stl.go with every run-time panic site as a CHECKED operation behind
   the code's own guard - slice index b[i] and slicing b[lo:hi] in parseGSIBlock / parseTTIBlock / parseDurationSTL(Bytes)
   (guard: readNBytes returns exactly 1024 / 128 bytes or an error; the len(i) < 8 test), the integer division by the frame
   rate (guard: the frame rate comes from stlFramerateMapping, whose values are non-zero: generated table, re-checked each
   run) and by MaxRows (guard MaxRows > 0), nil dereferences (s.Metadata, the optional metadata fields, the running line
   item's InlineStyle, the justification and position pointers), s.Items[0] (guard len > 0), the diacritic swap
   o[len(o)-1] (guard len(o) == 0), and the type assertions on values fetched from the BiMaps (guard: the ok of the lookup;
   the dynamic types of ALL stored values are probed from the code on every run: Gen/StlTables.v stl_*_tags) - with the Go
   line number as panic site.  Proofs/StlChk.v: the checked functions equal the pattern-matching model on ALL inputs and
   never return Panic; the content of each equation is that the guard implies the access is in range / non-nil / non-zero /
   of the asserted type.  The driver runs the checked functions.  Model/StlCW.v does the same for the writer's two-level
   nil tests on the cue list (Item.InlineStyle / STLJustification / STLPosition, LineItem.InlineStyle / *bool).
   The C08_stl_unguarded_* examples show that dropping a guard makes a site reachable.  A nil *Item inside the cue list:
   WriteToSTL filters the list through nonNilItems before anything looks at it (repo 4240852), the checked cue list goes
   through Kit.Chk.somes (C08_stl_writer_total_nil_items, C08_stl_nil_items_skipped below); C08_stl_unguarded_nil_item is the
   code before that filter. *)
From Coq Require Import ZArith.
From Astisub Require Import Kit.Chk Gen.StlTables Model.StlC Proofs.StlChk Model.StlCW Proofs.StlChk2.
Theorem C08_stl_checked_reader_total : forall (ign : bool) (data : list N) (p : N), read_stl_c ign data <> Panic p.
Proof. exact read_stl_c_no_panic. Qed.
Theorem C08_stl_checked_writer_total : forall now md items (p : N), write_stl_c now md items <> Panic p.
Proof. exact write_stl_c_no_panic. Qed.
Theorem C08_stl_checked_reader_agrees : forall ign data, read_stl_c ign data = read_stl ign data.
Proof. exact read_stl_c_ok. Qed.
Theorem C08_stl_checked_writer_agrees : forall now md items, write_stl_c now md items = write_stl now md items.
Proof. exact write_stl_c_ok. Qed.
Theorem C08_stl_checked_gsi_block : forall b, length b = 1024%nat -> parse_gsi_c b = parse_gsi b.
Proof. exact parse_gsi_c_ok. Qed.
Theorem C08_stl_checked_tti_block : forall (p : list N) (fps : Z), length p = 128%nat -> fps <> BinNums.Z0 -> parse_tti_c p fps = Ok (parse_tti p fps).
Proof. exact parse_tti_c_ok. Qed.
Theorem C08_stl_checked_cue_list : forall (l : list (option gsitem)) (p : N), items_c l = Ok (map item_flat (somes l)) /\ items_c l <> Panic p.
Proof. intros l p. split; [apply items_c_ok | apply items_c_no_panic]. Qed.
(* the tables the guards rely on, from the code of this run *)
Theorem C08_stl_checked_tables :
  forallb (fun kv => negb (snd kv =? 0)%Z) stl_framerate = true /\
  forallb (fun kt => snd kt =? tag_string)%N stl_table_tags = true /\ forallb (fun kv => o_some (alookup (fst kv) stl_table_tags)) stl_table = true /\
  forallb (fun kt => snd kt =? tag_int)%N stl_framerate_tags = true /\ forallb (fun kt => snd kt =? tag_string)%N stl_language_tags = true.
Proof. exact (conj stl_framerate_nonzero (conj stl_table_tags_string (conj stl_table_tags_cover (conj stl_framerate_tags_int stl_language_tags_string)))). Qed.
(* a guard dropped: the site behind it is reachable *)
Example C08_stl_unguarded_block_length : parse_gsi_c (repeat 32%N 10%nat) = Panic 431 /\ parse_tti_c (repeat 32%N 100%nat) 25%Z = Panic 774.
Proof. split; [exact gsi_short_block_panics | exact tti_short_block_panics]. Qed.
Example C08_stl_unguarded_metadata : forall now items, new_gsi_unguarded now None items = Panic 382.
Proof. exact gsi_unguarded_metadata_panics. Qed.
Example C08_stl_unguarded_frame_rate : forall f, frames_ns_c f BinNums.Z0 = Panic 643.
Proof. exact frames_zero_rate_panics. Qed.
Example C08_stl_unguarded_leading_mark : enc_step_unguarded [] 768 = Panic 1060 /\ enc_step_c [] 768 = Ok [193%N].
Proof. split; [exact enc_unguarded_leading_mark_panics | exact enc_guarded_leading_mark]. Qed.
Example C08_stl_unguarded_nil_item : items_unguarded_c [None] = Panic 702 /\ items_c [None] = Ok nil.
Proof. exact items_unguarded_nil_item. Qed.
Print Assumptions C08_stl_checked_reader_total.
Print Assumptions C08_stl_checked_writer_total.
Print Assumptions C08_stl_checked_reader_agrees.
Print Assumptions C08_stl_checked_writer_agrees.
Print Assumptions C08_stl_checked_gsi_block.
Print Assumptions C08_stl_checked_tti_block.
Print Assumptions C08_stl_checked_cue_list.
Print Assumptions C08_stl_checked_tables.
(* WriteToSTL on the Go-shaped cue list: []*Item with nil elements anywhere, Item.InlineStyle / STLJustification / STLPosition
   and LineItem.InlineStyle / the three *bool possibly nil (Model/StlCW.v gsitem; write_stl_items_c = the checked cue list,
   then the checked writer of Model/StlC.v).  No panic site is reachable; the bytes are the writer model's on the flattened
   list of the non-nil elements; a nil element anywhere changes nothing (stl.go 943: "s.Items = nonNilItems(s.Items)" before
   the emptiness test, newGSIBlock - TNB, TNS, TCF from Items[0] - and the loop); a list of nil elements only is "nothing
   to write".  The driver suite stlwritem runs write_stl_items_c on the harness's cue lists WITH their nil elements. *)
Theorem C08_stl_writer_total_nil_items : forall now md (l : list (option gsitem)) (p : N), write_stl_items_c now md l <> Panic p.
Proof. exact write_stl_items_c_no_panic. Qed.
Theorem C08_stl_nil_items_skipped : forall now md (l : list gsitem) (a b : list (option gsitem)),
  write_stl_items_c now md (map Some l) = write_stl_c now md (map item_flat l) /\
  write_stl_items_c now md (a ++ None :: b) = write_stl_items_c now md (a ++ b).
Proof.
  intros now md l a b. split; [|apply write_stl_items_c_nil_skipped].
  rewrite write_stl_items_c_ok, somes_map_Some, write_stl_c_ok. reflexivity.
Qed.
Theorem C08_stl_only_nil_items : forall now md n, write_stl_items_c now md (repeat None n) = Err ENothingToWrite.
Proof. intros now md n. rewrite write_stl_items_c_all_nil. reflexivity. Qed.
Print Assumptions C08_stl_writer_total_nil_items.
Print Assumptions C08_stl_nil_items_skipped.
Print Assumptions C08_stl_only_nil_items.
(* ---- TTML: checked transcriptions (Model/TtmlC.v) ----
   Every run-time panic site of ttml.go and of propagateTTMLAttributes (regexp sub-match indices and the slicing of
   the text by them, the Begin/End pointers of a paragraph, the stores into the style/region maps, the nil-able
   Metadata / InlineStyle / Style / Region pointers and nil map entries of the writer's input, Items[:len-1]) is a
   checked access behind the code's own guard, with the Go line number as site (table: notes/C03-panic-sites.md).
   The checked functions are equal to the pattern-matching models on which the fidelity theorems are stated, never
   return Panic, and the driver of the correspondence runs them.  The only library contract is the length (4) of the
   regexp results, stated as lemmas about the matcher models.  Dropping the Begin == nil guard makes Panic reachable.
   In a module because Model/TtmlC.v shares names with other models. *)
Module C08_TTML.
Import Astisub.Model.TtmlC Astisub.Proofs.TtmlChk.
Theorem C08_ttml_checked_time_agrees : forall s, ttml_unmarshal_c s = Ok (ttml_unmarshal s).
Proof. exact ttml_unmarshal_c_agrees. Qed.
Theorem C08_ttml_checked_reader_agrees : forall root, read_ttml_c root = read_ttml root.
Proof. exact read_ttml_c_agrees. Qed.
Theorem C08_ttml_checked_reader_total : forall root (p : N), read_ttml_c root <> Panic p.
Proof. exact read_ttml_c_total. Qed.
Theorem C08_ttml_checked_writer_agrees : forall w, write_ttml_c w = write_ttml (wdoc_proj w).
Proof. exact write_ttml_c_agrees. Qed.
Theorem C08_ttml_checked_writer_total : forall w (p : N), write_ttml_c w <> Panic p.
Proof. exact write_ttml_c_total. Qed.
Theorem C08_ttml_checked_propagate_total : forall a (p : N), propagate_c a <> Panic p.
Proof. exact propagate_c_total. Qed.
Example C08_ttml_unguarded_begin : exists root p, read_ttml_unguarded root = Panic p.
Proof. exact ttml_unguarded_begin. Qed.
Example C08_ttml_guarded_begin : read_ttml_c ttc_no_begin = Err EParse.
Proof. exact ttml_guarded_begin. Qed.
End C08_TTML.
Print Assumptions C08_TTML.C08_ttml_checked_reader_total.
Print Assumptions C08_TTML.C08_ttml_checked_writer_total.
Print Assumptions C08_TTML.C08_ttml_checked_propagate_total.

(* ---- second audit, N6: the guards of the checked SubRip / WebVTT / parseDuration transcriptions are load-bearing ----
   Three repairs of Model/SrtC.v, Model/VttC.v, Model/DurC.v:
   (1) x[:len(x)-1] was written slice_to x (length x - 1) with the nat subtraction, 0 - 1 = 0, so that on the empty slice
       it returned Ok [] where Go evaluates x[:-1] and panics: the sites srt.go 70 and 265, webvtt.go 364 and 642,
       subtitles.go 815 could never fire, whatever stood in front of them.  They now use Kit.Chk.slice_to_pred, whose bound is
       the checked predecessor idx_pred (Panic on 0), as Model/SsaC.v already did.  The sites x[len(x)-1] (srt.go 68,
       webvtt.go 167, subtitles.go 803) were sound: index [] 0 is Panic.
   (2) webvtt.go 656-716 (Line.webVTTBytes, the two tag loops of LineItem.webVTTBytes, webVTTTagsCommonPrefix) were
       structural recursions without any site; they are index loops now, one site per index expression (659, 662, 664,
       695, 704, 714), proved equal to the structural definitions of Model/Vtt.v (Proofs/VttChk.v).
   (3) The examples below replace C08_unguarded_index_panics: each *_noguard* function is the checked model function with
       ONE guard of the Go code removed and nothing else changed (definitions next to the proofs, Proofs/SrtChk.v,
       VttChk.v, DurChk.v); on the input shown it returns Panic at the site behind that guard, and the guarded function
       returns Ok / Err on the same input.  One per kind of guard at least: length test before an index (92, 103, 251, 275,
       824, 827), emptiness test before [len-1] / [:len-1] (68, 70, 167, 364), nil test before a dereference (286, 588,
       688), loop bounds (135, 261, 664, 695, 704, 714), idx > 0 / idx < len-1 before Items[idx-1] / Items[idx+1]
       (659, 662), the caller's strings.Contains before left[1] (240).
   Two guards turn out NOT to be panic guards, and the statements say so instead of pretending: without
   len(s.Items) == 0 the SubRip writer does not panic at 265 (c starts with the BOM: it writes a truncated BOM), and
   without len(parts) >= 2 parseDuration panics on no input (strings.Split returns at least one part); the sites 265
   and 803 / 815 are live all the same (c without the BOM; an empty list of parts).  For webvtt.go 642 likewise c starts
   with WEBVTT.  The regexp sub-match accesses (webvtt.go 368-377, 430-449) remain library contracts. *)
Example C08_srt_guards_load_bearing :
  (finalize_c_noguard [] = Panic 68 /\ finalize_c_noguard_slice [] = Panic 70 /\ finalize_c [] = Ok ([], [])) /\
  (srt_timing_c_noguard_split [97%N] = Panic 92 /\ srt_timing_c [97%N] = Err EParse) /\
  (srt_timing_c_noguard_fields ex_timing_no_end = Panic 103 /\ srt_timing_c ex_timing_no_end = Err EParse) /\
  (run_bytes_c_noguard_nil ex_plain_run = Panic 286 /\ run_bytes_c ex_plain_run = Ok [97%N]) /\
  (strip_items_c_noguard 1 [mkSrun [] None 0] = Panic 135 /\ strip_items_c 1 [mkSrun [] None 0] = Ok []) /\
  (write_srt_c_noguard_empty [] = Ok [239%N; 187%N] /\ write_srt_c_noguard_empty_nobom [] = Panic 265 /\
   write_srt_c [] = Err ENothingToWrite).
Proof. exact srt_guards_load_bearing. Qed.
Example C08_vtt_guards_load_bearing :
  ((parse_text_vtt_c_noguard ex_end_tag [] = Panic 364 /\ parse_text_vtt_c ex_end_tag [] = Ok (mkVline [] [], [])) /\
   (step_cue_c_noguard vstate0 ex_cue_no_end = Panic 251 /\ step_cue_c vstate0 ex_cue_no_end = Err EParse) /\
   (step_cue_c vstate0 [97%N] = Panic 240 /\ is_ok (vtt_step_c vstate0 [97%N]) = true) /\
   (settings_loop_c_noguard 2 1 [[97%N]; [97%N;58%N;98%N]] [] vset0 None = Panic 261 /\
    settings_loop_c 2 1 [[97%N]; [97%N;58%N;98%N]] [] vset0 None = Ok (vset0, None)) /\
   (settings_loop_c_noguard_split 2 1 [[97%N]; [97%N]] [] vset0 None = Panic 275 /\
    settings_loop_c 2 1 [[97%N]; [97%N]] [] vset0 None = Err EParse) /\
   (last_ends_brace_c_noguard [] = Panic 167 /\ last_ends_brace_c [] = Ok true)) /\
  ((vrun_bytes_c_noguard_prev None None ex_run = Panic 688 /\ vrun_bytes_c None None ex_run = Ok [97%N]) /\
   (vitem_settings_c_noguard ex_item_nil_style = Panic 588 /\ vitem_settings_c ex_item_nil_style = Ok []) /\
   (vruns_loop_c_noguard_prev 1 0 [ex_run] = Panic 659 /\ vruns_loop_c_noguard_next 1 0 [ex_run] = Panic 662 /\
    vruns_loop_c 1 0 [ex_run] = Ok [97%N]) /\
   (vruns_loop_c_noguard_bound 2 0 [ex_run] = Panic 664 /\ vruns_loop_c 2 0 [ex_run] = Ok [97%N]) /\
   (tags_open_c_noguard 2 0 [ex_tag_b] = Panic 695 /\ tags_open_c 2 0 [ex_tag_b] = Ok [60%N;98%N;62%N]) /\
   (tags_close_c_noguard 1 0 [ex_tag_b] = Panic 704 /\ tags_close_c 1 0 [ex_tag_b] = Ok [60%N;47%N;98%N;62%N]) /\
   (common_prefix_loop_c_noguard_a 2 0 [ex_tag_b] [ex_tag_b; ex_tag_b] = Panic 714 /\
    common_prefix_loop_c_noguard_b 2 0 [ex_tag_b; ex_tag_b] [ex_tag_b] = Panic 714 /\
    common_prefix_loop_c 2 0 [ex_tag_b] [ex_tag_b; ex_tag_b] = Ok 1%nat /\
    common_prefix_loop_c 2 0 [ex_tag_b; ex_tag_b] [ex_tag_b] = Ok 1%nat) /\
   vline_bytes_c (mkVline [ex_run_b; ex_run_b; ex_run] []) = Ok [60%N;98%N;62%N;97%N;97%N;60%N;47%N;98%N;62%N;97%N;10%N]).
Proof. exact (conj vtt_reader_guards_load_bearing vtt_writer_guards_load_bearing). Qed.
Example C08_dur_guards_load_bearing :
  (parse_hms_c_noguard3 [53%N] = Panic 827 /\ parse_hms_c [53%N] = Ok None) /\
  (parse_hms_c_noguard2 [53%N] = Panic 824 /\ parse_hms_c [53%N] = Ok None) /\
  (parse_duration_on_c_noguard [] Astisub.Model.Dur.comma 3 = Panic 803 /\ slice_to_pred (@nil (list N)) 815 = Panic 815 /\
   parse_duration_c_noguard [53%N] Astisub.Model.Dur.comma 3 = Ok None /\ parse_duration_c [53%N] Astisub.Model.Dur.comma 3 = Ok None) /\
  (forall s sep k p, parse_duration_c_noguard s sep k <> Panic p).
Proof. exact dur_guards_load_bearing. Qed.
(* the index loops of the WebVTT writer are the structural iterations on which C02 is stated *)
Theorem C08_vtt_checked_line_agrees : forall l, vline_bytes_c l = Ok (vline_bytes l).
Proof. exact vline_bytes_ok. Qed.
Theorem C08_vtt_checked_common_prefix_agrees : forall a b, common_prefix_c a b = Ok (common_prefix a b).
Proof. exact common_prefix_c_ok. Qed.
Print Assumptions C08_srt_guards_load_bearing.
Print Assumptions C08_vtt_guards_load_bearing.
Print Assumptions C08_dur_guards_load_bearing.
Print Assumptions C08_vtt_checked_line_agrees.
Print Assumptions C08_vtt_checked_common_prefix_agrees.
Print Assumptions C08_TTML.C08_ttml_checked_time_agrees.
Print Assumptions C08_TTML.C08_ttml_checked_reader_agrees.
Print Assumptions C08_TTML.C08_ttml_checked_writer_agrees.
(* ---- TTML: nil items, and what the guards protect (audit 2, N6) ----
   WriteToTTML starts with s.Items = nonNilItems(s.Items) (ttml.go:690): write_ttml_items_c takes the item list with
   its nil elements and filters it as the code does.  No panic whatever the nil elements; they are skipped; a list of
   nil items only is refused.  C08_ttml_guards_needed: model functions (out_header_c, styles_loop_c) or their variants
   with ONE guard made optional (out_attrs_g, out_p_g, propagate_g; with the guard kept they are the model functions by
   reflexivity: out_attrs_g_kept, out_p_g_kept, propagate_g_kept) reach the panic site the guard protects. *)
Module C08_TTML_N6.
Import Astisub.Model.TtmlC Astisub.Proofs.TtmlChk.
Theorem C08_ttml_writer_total_nil_items : forall items w (p : N), write_ttml_items_c items w <> Panic p.
Proof. exact write_ttml_items_c_total. Qed.
Theorem C08_ttml_nil_items_skipped : forall (l : list ttc_witem) (a b : list (option ttc_witem)) w,
  somes a = [] -> somes b = [] ->
  write_ttml_items_c (a ++ map Some l ++ b) w = write_ttml_items_c (map Some l) w.
Proof. exact ttml_nil_items_skipped. Qed.
Example C08_ttml_only_nil_items : forall w, write_ttml_items_c [None; None] w = Err ENothingToWrite.
Proof. exact ttml_only_nil_items. Qed.
Theorem C08_ttml_guards_kept : forall s it a,
  out_attrs_g true s = out_attrs_c s /\ out_p_g true it = out_p_c it /\ propagate_g true a = propagate_c a.
Proof. intros s it a. repeat split. Qed.
Example C08_ttml_guards_needed :
  out_header_c s_region [([114], None)] 690 691 693 694 [114] = Panic 690 /\
  out_attrs_g false None = Panic 560 /\ out_attrs_g true None = Ok no_attrs /\
  styles_loop_c [mkStyle [] None no_attrs] None None = Panic 375 /\
  out_p_g false (mkTWitem 0 0 None None None []) = Panic 763 /\
  (exists n, out_p_g true (mkTWitem 0 0 None None None []) = Ok n) /\
  propagate_g false (ttc_extent_only [56; 48; 37]) = Panic 10394 /\
  propagate_g true (ttc_extent_only [56; 48; 37]) = Ok tt.
Proof. exact ttml_unguarded_sites. Qed.
End C08_TTML_N6.
Print Assumptions C08_TTML_N6.C08_ttml_writer_total_nil_items.
Print Assumptions C08_TTML_N6.C08_ttml_nil_items_skipped.
Print Assumptions C08_TTML_N6.C08_ttml_guards_kept.
Print Assumptions C08_TTML_N6.C08_ttml_guards_needed.
