From Astisub Require Import Kit.Base.
Theorem C08_placeholder : True. Proof. exact I. Qed.
