(* C09 — Sync: shift moves every cue by exactly d, clamps at 0, drops only dead cues. *)
From Coq Require Import List ZArith NArith.
From Astisub Require Import Kit.Base Model.Ops Proofs.AddProofs.
Import ListNotations.
Open Scope Z_scope.

(* exactly the cues whose end would be at or before zero are removed; the rest keep their order *)
Theorem C09_removed : forall d l, Forall wf_item l ->
  map uid (add_dur d l) = map uid (filter (alive d) l).
Proof. exact add_removed. Qed.

(* every survivor: end moved by exactly d, start moved by d but never below 0, content and identity untouched *)
Theorem C09_times_payload : forall d l, Forall wf_item l ->
  Forall2 (fun x y => en y = en x + d /\ st y = Z.max 0 (st x + d) /\ same_payload x y)
          (filter (alive d) l) (add_dur d l).
Proof. exact add_pointwise. Qed.

(* closed form *)
Theorem C09_closed_form : forall d l, Forall wf_item l ->
  add_dur d l = map (fun x => set_st (set_en x (en x + d)) (Z.max 0 (st x + d))) (filter (alive d) l).
Proof. exact add_survivors. Qed.

(* d then -d restores every cue that was neither clamped nor removed *)
Theorem C09_back : forall d l, Forall (restorable d) l -> add_dur (- d) (add_dur d l) = l.
Proof. exact add_back. Qed.

Theorem C09_preserves_wf : forall d l, Forall wf_item l -> Forall wf_item (add_dur d l).
Proof. exact add_wf. Qed.

(* non-vacuity: removal, clamping and plain shift in one list, unordered *)
Example C09_example :
  let mk u s e := mkItem u s e [] None None false in
  map (fun x => (uid x, st x, en x)) (add_dur (-3) [mk 1%N 5 9; mk 2%N 0 3; mk 3%N 1 4; mk 4%N 3 3])
  = [(1%N, 2, 6); (3%N, 0, 1)].
Proof. reflexivity. Qed.
Example C09_back_example :
  let mk u s e := mkItem u s e [] None None false in
  Forall (restorable (-2)) [mk 1%N 5 9; mk 2%N 3 3].
Proof. repeat constructor; cbn; unfold restorable; cbn; repeat split; try discriminate; auto with zarith. Qed.

Print Assumptions C09_removed.
Print Assumptions C09_times_payload.
Print Assumptions C09_closed_form.
Print Assumptions C09_back.
Print Assumptions C09_preserves_wf.
