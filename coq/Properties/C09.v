(* C09 — Sync: shift moves every cue by exactly d, clamps at 0, drops only dead cues. *)
From Coq Require Import List ZArith NArith.
From Astisub Require Import Kit.Base Model.Ops Proofs.AddProofs.
Import ListNotations.
Open Scope Z_scope.

(* exactly the cues whose end would be at or before zero are removed; the rest keep their order *)
Theorem C09_removed : forall d l, Forall wf_item l ->
  map uid (add_dur d l) = map uid (filter (alive d) l).
Proof. exact add_removed. Qed.

(* every survivor: end moved by exactly d, start moved by d but never below 0, content and identity untouched *)
Theorem C09_times_payload : forall d l, Forall wf_item l ->
  Forall2 (fun x y => en y = en x + d /\ st y = Z.max 0 (st x + d) /\ same_payload x y)
          (filter (alive d) l) (add_dur d l).
Proof. exact add_pointwise. Qed.

(* closed form *)
Theorem C09_closed_form : forall d l, Forall wf_item l ->
  add_dur d l = map (fun x => set_st (set_en x (en x + d)) (Z.max 0 (st x + d))) (filter (alive d) l).
Proof. exact add_survivors. Qed.

(* d then -d restores every cue that was neither clamped nor removed *)
Theorem C09_back : forall d l, Forall (restorable d) l -> add_dur (- d) (add_dur d l) = l.
Proof. exact add_back. Qed.

Theorem C09_preserves_wf : forall d l, Forall wf_item l -> Forall wf_item (add_dur d l).
Proof. exact add_wf. Qed.

(* non-vacuity: removal, clamping and plain shift in one list, unordered *)
Example C09_example :
  let mk u s e := mkItem u s e [] None None false in
  map (fun x => (uid x, st x, en x)) (add_dur (-3) [mk 1%N 5 9; mk 2%N 0 3; mk 3%N 1 4; mk 4%N 3 3])
  = [(1%N, 2, 6); (3%N, 0, 1)].
Proof. reflexivity. Qed.
Example C09_back_example :
  let mk u s e := mkItem u s e [] None None false in
  Forall (restorable (-2)) [mk 1%N 5 9; mk 2%N 3 3].
Proof. repeat constructor; cbn; unfold restorable; cbn; repeat split; try discriminate; auto with zarith. Qed.

Print Assumptions C09_removed.
Print Assumptions C09_times_payload.
Print Assumptions C09_closed_form.
Print Assumptions C09_back.
Print Assumptions C09_preserves_wf.

(* ---- the round trip "d, then -d" cue by cue inside ANY list (audit follow-up; Proofs/OpsAddExtra.v) ---- *)
From Coq Require Import Bool.
From Astisub Require Import Proofs.OpsAddExtra.

(* closed form, for every list of cues with start <= end: the cues that survive both shifts are those with
   0 < end + d and 0 < end, in their original order; each keeps identity, content and end, and its start becomes
   max 0 (max 0 (start + d) - d) *)
Theorem C09_round_closed : forall d l, Forall wf_item l ->
  add_dur (- d) (add_dur d l) = map (fun x => set_st x (round_start d (st x))) (filter (round_alive d) l).
Proof. exact add_round_survivors. Qed.
Theorem C09_round_pointwise : forall d l, Forall wf_item l ->
  Forall2 (fun x y => en y = en x /\ st y = round_start d (st x) /\ same_payload x y /\ (restorable0 d x -> y = x))
          (filter (round_alive d) l) (add_dur (- d) (add_dur d l)).
Proof. exact add_round_pointwise. Qed.
(* a cue comes back as it was iff it was neither clamped (0 <= start + d) nor removed (0 < end + d), being a legal cue
   (0 <= start, 0 < end) *)
Theorem C09_round_restores_iff : forall d x, wf_item x -> (round1 d x = Some x <-> restorable0 d x).
Proof. exact round1_restores_iff. Qed.
(* ... and it comes back IN PLACE inside a list that also contains clamped and removed cues *)
Theorem C09_back_in_place : forall d l1 x l2, Forall wf_item (l1 ++ x :: l2) -> restorable0 d x ->
  add_dur (- d) (add_dur d (l1 ++ x :: l2)) = add_dur (- d) (add_dur d l1) ++ x :: add_dur (- d) (add_dur d l2).
Proof. exact add_round_in_place. Qed.
(* a clamped cue is not restored: its start comes back as -d, later than it was *)
Theorem C09_round_clamped : forall d x, 0 <= st x -> st x + d < 0 -> 0 < en x + d -> 0 < en x ->
  round1 d x = Some (set_st x (- d)) /\ st x < - d.
Proof. exact round1_clamped. Qed.
(* the whole list comes back under the weaker "not clamped" 0 <= start + d (C09_back asks 0 < start + d) *)
Theorem C09_back0 : forall d l, Forall (restorable0 d) l -> add_dur (- d) (add_dur d l) = l.
Proof. exact add_back0. Qed.
(* zero-length cues (start = end): one shift moves them by exactly d or removes them, never clamps; the round trip
   restores them exactly or drops them; the one at instant 0 never survives a round trip *)
Theorem C09_zero_length_shift : forall d x, st x = en x ->
  shift1 d x = if 0 <? st x + d then Some (set_st (set_en x (en x + d)) (st x + d)) else None.
Proof. exact shift1_zero_length. Qed.
Theorem C09_zero_length_round : forall d x, st x = en x ->
  round1 d x = if (0 <? st x + d) && (0 <? st x) then Some x else None.
Proof. exact round1_zero_length. Qed.
(* [round1] is what the two shifts do to one cue *)
Theorem C09_round1_meaning : forall d x, wf_item x ->
  match shift1 d x with Some x' => shift1 (- d) x' | None => None end = round1 d x.
Proof. exact shift1_round. Qed.

(* non-vacuity: cues with text; removed (2), clamped (3), zero-length landing on 0 (4), zero-length surviving (5),
   dead from the start (6), landing exactly on 0 without being clamped (7), plainly restored (1) *)
Example C09_round_example :
  map (fun x => (uid x, st x, en x, item_text x)) (add_dur (- (-3)) (add_dur (-3) ex_mixed)) =
  [(1%N, 5, 9, [65%N]); (3%N, 3, 4, [67%N]); (5%N, 4, 4, [69%N]); (7%N, 3, 8, [71%N])].
Proof. exact ex_mixed_round. Qed.
Example C09_round_example_hyps : Forall wf_item ex_mixed /\
  restorable0 (-3) (ex_cue 1 5 9 65) /\ restorable0 (-3) (ex_cue 7 3 8 71) /\
  ~ restorable0 (-3) (ex_cue 3 1 4 67) /\ ~ restorable (-3) (ex_cue 7 3 8 71).
Proof. split; [exact ex_mixed_wf | exact ex_mixed_restorable]. Qed.

Print Assumptions C09_round_closed.
Print Assumptions C09_round_pointwise.
Print Assumptions C09_round_restores_iff.
Print Assumptions C09_back_in_place.
Print Assumptions C09_round_clamped.
Print Assumptions C09_back0.
Print Assumptions C09_zero_length_shift.
Print Assumptions C09_zero_length_round.
Print Assumptions C09_round1_meaning.

(* ---- int64 (second audit, N10; Kit/Int64.v, Model/Ops64.v, Proofs/Ops64Proofs.v) ----
   time.Duration is an int64 and Go's += wraps around; the theorems above are about the unbounded model [add_dur].
   [add_dur64] does the two additions of Subtitles.Add with wrap-around and the tests on the wrapped values.  Range: for
   every cue both sums start + d and end + d are int64 values ([add_range]); it is exactly the no-overflow condition of
   the two additions.  Inside it the two models coincide, so every theorem above is a theorem about Go's arithmetic;
   outside it they differ (Add(10) on a cue ending at MaxInt64 - 5: the end becomes negative). *)
From Astisub Require Import Kit.Int64 Model.Ops64 Proofs.Ops64Proofs.
Theorem C09_int64 : forall d l, Forall (add_range d) l -> add_dur64 d l = add_dur d l.
Proof. exact add_dur64_eq. Qed.
(* a sufficient range that is easy to check: the shift and every time in [-2^62, 2^62) *)
Theorem C09_int64_small : forall d x, small62 d -> small62 (st x) -> small62 (en x) -> add_range d x.
Proof. exact add_range_small. Qed.
(* in or out of the range, what the int64 model returns are int64 values *)
Theorem C09_int64_closed : forall d l, Forall times64 (add_dur64 d l).
Proof. exact add_dur64_in. Qed.
(* the transfer, on one of the theorems above *)
Theorem C09_int64_times_payload : forall d l, Forall wf_item l -> Forall (add_range d) l ->
  Forall2 (fun x y => en y = en x + d /\ st y = Z.max 0 (st x + d) /\ same_payload x y)
          (filter (alive d) l) (add_dur64 d l).
Proof. intros d l Hw Hr. rewrite (add_dur64_eq d l Hr). exact (add_pointwise d l Hw). Qed.
(* the hypothesis is needed *)
Example C09_int64_wraps :
  map (fun x => (st x, en x)) (add_dur64 10 [ex_add_wrap]) = [(i64_max - 10, i64_min + 4)] /\
  map (fun x => (st x, en x)) (add_dur 10 [ex_add_wrap]) = [(i64_max - 10, i64_max + 5)] /\
  ~ add_range 10 ex_add_wrap.
Proof. exact add64_wraps. Qed.
Example C09_int64_wraps_removed :
  add_dur64 30 [ex_add_wrap] = [] /\ map (fun x => (st x, en x)) (add_dur 30 [ex_add_wrap]) = [(i64_max + 10, i64_max + 25)].
Proof. exact add64_wraps_removed. Qed.
Print Assumptions C09_int64.
Print Assumptions C09_int64_small.
Print Assumptions C09_int64_closed.
Print Assumptions C09_int64_times_payload.

(* ---- composition (session 5; Proofs/AddCompose.v): two shifts in the same direction are one shift by the sum - back
   shifts for every list of cues with start <= end (removal and clamping included), forward shifts for cues on the
   timeline; the zero shift is the identity there.  Shifts of opposite sign do not compose: the clamp loses the start
   (computed witness). ---- *)
From Astisub Require Import Proofs.AddCompose.
Theorem C09_compose_back : forall d1 d2 l, d1 <= 0 -> d2 <= 0 -> Forall wf_item l ->
  add_dur d2 (add_dur d1 l) = add_dur (d1 + d2) l.
Proof. exact add_compose_back. Qed.
Theorem C09_compose_forward : forall d1 d2 l, 0 <= d1 -> 0 <= d2 ->
  Forall (fun x => 0 <= st x /\ st x <= en x /\ 0 < en x) l ->
  add_dur d2 (add_dur d1 l) = add_dur (d1 + d2) l.
Proof. exact add_compose_forward. Qed.
Theorem C09_zero_shift : forall l, Forall (fun x => 0 <= st x /\ st x <= en x /\ 0 < en x) l -> add_dur 0 l = l.
Proof. exact add_zero. Qed.
Example C09_compose_mixed_differs :
  let x := mkItem 1%N 2 10 [] None None false in
  (0 <= st x /\ st x <= en x /\ 0 < en x) /\
  map (fun y => (st y, en y)) (add_dur 5 (add_dur (-5) [x])) = [(5, 10)] /\
  map (fun y => (st y, en y)) (add_dur (-5 + 5) [x]) = [(2, 10)].
Proof. exact add_compose_mixed_differs. Qed.
Print Assumptions C09_compose_back.
Print Assumptions C09_compose_forward.
Print Assumptions C09_zero_shift.

(* ---- order (session 5; Proofs/AddSorted.v): a start-ordered list stays start-ordered after any shift - clamping and
   removal included, no start <= end hypothesis -, so a following Order is a no-op ---- *)
From Astisub Require Import Proofs.OrderProofs Proofs.AddSorted.
Theorem C09_preserves_order : forall d l, sorted l -> sorted (add_dur d l).
Proof. exact add_sorted. Qed.
Theorem C09_then_order : forall d l, sorted l -> order (add_dur d l) = add_dur d l.
Proof. exact order_add_sorted. Qed.
Print Assumptions C09_preserves_order.
Print Assumptions C09_then_order.
