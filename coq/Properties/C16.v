(* C16 — Timestamp codec: truncating, canonical, monotone, self-inverse per format.
   Text formats: sep = ',' (SubRip) or '.' (WebVTT, TTML, SSA); k fraction digits = 3 (ms) or 2 (SSA, cs);
   every reader parses with 3 digits.  frac_div k = 10^(9-k) ns is the format's unit. *)
From Coq Require Import List ZArith NArith Bool.
From Astisub Require Import Kit.Base Kit.Str Kit.Float64 Model.Dur Model.Lin Proofs.DurProofs Proofs.FracFloatProofs.
Import ListNotations.
Open Scope Z_scope.

(* grammar: hh(+):mm:ss<sep>f{k}, two-digit minutes and seconds below 60, exactly k fraction digits *)
Theorem C16_grammar : forall sep k t, (1 <= k <= 3)%nat -> 0 <= t ->
  format_duration t [sep] k = two (f_h t) ++ [colon] ++ two (f_m t) ++ [colon] ++ two (f_s t) ++ [sep] ++ pad_left 48%N k (itoa_z (f_fr k t)) /\
  digits (two (f_h t)) /\ (2 <= length (two (f_h t)))%nat /\
  digits (two (f_m t)) /\ length (two (f_m t)) = 2%nat /\ 0 <= f_m t < 60 /\
  digits (two (f_s t)) /\ length (two (f_s t)) = 2%nat /\ 0 <= f_s t < 60 /\
  digits (pad_left 48%N k (itoa_z (f_fr k t))) /\ length (pad_left 48%N k (itoa_z (f_fr k t))) = k.
Proof. exact format_grammar. Qed.

(* the reader maps the rendering of t to the latest representable instant not after t
   (every non-negative int64 instant: no 100 h bound is needed) *)
Theorem C16_parse_format : forall sep k t, sep_ok sep -> (1 <= k <= 3)%nat -> 0 <= t <= max_int64 ->
  parse_duration (format_duration t [sep] k) sep 3 = Some (t - t mod frac_div k).
Proof. exact parse_format. Qed.
Theorem C16_latest_representable : forall k t, (1 <= k <= 3)%nat -> 0 <= t ->
  let u := frac_div k in (t - t mod u) mod u = 0 /\ t - t mod u <= t < t - t mod u + u.
Proof. exact trunc_latest. Qed.
(* a second write is identical to the first *)
Theorem C16_canonical : forall sep k t, (1 <= k <= 3)%nat -> 0 <= t ->
  format_duration (t - t mod frac_div k) [sep] k = format_duration t [sep] k.
Proof. exact format_canonical. Qed.
(* later instants never render as earlier timestamps *)
Theorem C16_monotone : forall k t t', (1 <= k <= 3)%nat -> 0 <= t <= t' ->
  t - t mod frac_div k <= t' - t' mod frac_div k.
Proof. exact format_monotone. Qed.

(* the fraction digits are computed by the code as floor(float64(n)/1e6/10^(3-k)) in binary64; the model
   above uses the integer quotient n / 10^(9-k): they are equal for every sub-second remainder *)
Theorem C16_float_fraction : forall (k : nat) (n : Z), (k = 2 \/ k = 3)%nat -> (0 <= n < 1000000000)%Z ->
  frac_float k n = (n / 10 ^ (9 - Z.of_nat k))%Z.
Proof. exact frac_float_correct. Qed.

(* instances *)
Example C16_seps : sep_ok comma /\ sep_ok dot. Proof. split; split; (reflexivity || discriminate). Qed.
Example C16_units : frac_div 3 = 1000000 /\ frac_div 2 = 10000000. Proof. split; reflexivity. Qed.
Example C16_srt_example : format_srt 359999999999999 = [57;57;58;53;57;58;53;57;44;57;57;57]%N /\ parse_srt (format_srt 359999999999999) = Some 359999999000000.
Proof. split; vm_compute; reflexivity. Qed.
Example C16_ssa_example : parse_ssa (format_ssa 3723456789012) = Some 3723450000000.
Proof. vm_compute; reflexivity. Qed.
Example C16_100h_example : parse_vtt (format_vtt 360000001000000) = Some 360000001000000.
Proof. vm_compute; reflexivity. Qed.

(* STL (fps = 25 or 30; any 0 < fps < 100), t below 24 h: the frame rendered is the latest frame
   instant not after t, below fps; the reader returns that instant to within 1 ns; a second write is identical *)
Theorem C16_stl : forall t fps, 0 <= t < day_ns -> 0 < fps < 100 ->
  let F := ((t mod second_ns) * fps) / second_ns in
  let exact_times_fps := (f_h t * hour_ns + f_m t * minute_ns + f_s t * second_ns) * fps + F * second_ns in
  0 <= F < fps /\
  exists v, parse_stl (format_stl t fps) fps = Some v /\
    exact_times_fps <= v * fps < exact_times_fps + fps /\
    v <= t + 1 /\ format_stl v fps = format_stl t fps.
Proof. exact stl_roundtrip. Qed.
Example C16_stl_example : format_stl 33333334 30 = [48;48;48;48;48;48;48;49]%N /\ parse_stl (format_stl 33333334 30) 30 = Some 33333334.
Proof. split; vm_compute; reflexivity. Qed.

Print Assumptions C16_grammar.
Print Assumptions C16_parse_format.
Print Assumptions C16_latest_representable.
Print Assumptions C16_canonical.
Print Assumptions C16_monotone.
Print Assumptions C16_stl.
Print Assumptions C16_float_fraction.

(* ---- STL writers as the code computes them (audit follow-up; Model/DurFloat.v, Proofs/DurFloatProofs.v) ----
   stl.go formatDurationSTL / formatDurationSTLBytes take the hour, minute and second fields through float64:
   time.Duration.Hours() / Minutes() / Seconds() (float64(d / unit) + float64(d % unit) / unit), math.Floor, and the
   comparison "< 10" for the leading zero; the frame field is integer arithmetic since the fix "STL frame numbers
   survive a read/write pass at 30 fps" (int(d.Nanoseconds()) * framerate / 1e9 with an int constant), i.e. the formula
   of Model/Dur.v, for every frame rate.  [format_stl_float] / [format_stl_bytes_float] are that computation in
   binary64 (Flocq, round to nearest even, no fused operation); they equal the integer model for every instant below
   1024 hours - in particular below 24 h - and EVERY frame rate (the frame rate does not enter the float part).
   Checked on the real functions through VerifFormatDurationSTL / VerifFormatDurationSTLBytes: 3.1 million instants (every
   multiple of a second, a minute and an hour up to 1024 units, +-3 ns, and random ones) at 25, 30, 24, 1 and 99 fps,
   no difference. *)
From Astisub Require Import Model.DurFloat Proofs.DurFloatProofs.
Theorem C16_stl_float_path : forall t fps, 0 <= t < day_ns ->
  format_stl_float t fps = format_stl t fps /\ format_stl_bytes_float t fps = format_stl_bytes t fps /\
  stl_fields_float t fps = stl_fields t fps.
Proof.
  intros t fps Ht. pose proof (day_below_1024h t Ht) as H.
  split; [exact (format_stl_float_eq t fps H) | split; [exact (format_stl_bytes_float_eq t fps H) | exact (stl_fields_float_eq t fps H)]].
Qed.
Theorem C16_stl_float_path_1024h : forall t fps, 0 <= t < 1024 * hour_ns ->
  format_stl_float t fps = format_stl t fps /\ format_stl_bytes_float t fps = format_stl_bytes t fps.
Proof. intros t fps H. split; [exact (format_stl_float_eq t fps H) | exact (format_stl_bytes_float_eq t fps H)]. Qed.
(* the mechanism: d.Hours() (Minutes, Seconds) floors to the integer quotient and compares with 10 as the quotient does *)
Theorem C16_duration_float_floor : forall t unit, 0 <= t -> 0 < unit <= 4398046511104 -> t / unit < 1024 ->
  floor_Z (dur_float t unit) = Z.quot t unit /\ two_float (dur_float t unit) = two (Z.quot t unit).
Proof. exact dur_float_floor. Qed.

(* the 4-byte cue-boundary form (TTI time code in / out) on an ARBITRARY instant below 24 h (C05_timecode_* start from a
   timecode): the frame written is the floor of the frame count; read back, it is that frame's instant to within one
   nanosecond, at most 1 ns after t; writing it again gives the same four bytes; later instants never come back
   earlier.  [stl_back t fps] = parse_stl_bytes (format_stl_bytes t fps) fps. *)
Theorem C16_stl_bytes : forall t fps, 0 <= t < day_ns -> 0 < fps < 100 ->
  let F := stl_frame t fps in
  let exact_times_fps := (t - t mod second_ns) * fps + F * second_ns in
  0 <= F < fps /\ F * second_ns <= (t mod second_ns) * fps < (F + 1) * second_ns /\
  exact_times_fps <= stl_back t fps * fps < exact_times_fps + fps /\
  stl_back t fps <= t + 1 /\ 0 <= stl_back t fps < day_ns /\
  format_stl_bytes (stl_back t fps) fps = format_stl_bytes t fps.
Proof. exact stl_bytes_roundtrip. Qed.
Theorem C16_stl_bytes_monotone : forall t t' fps, 0 <= t <= t' -> t' < day_ns -> 0 < fps < 100 ->
  stl_back t fps <= stl_back t' fps.
Proof. exact stl_bytes_monotone. Qed.
Theorem C16_stl_bytes_shape : forall t fps, 0 <= t < day_ns -> 0 < fps < 100 ->
  format_stl_bytes t fps = map (fun v => Z.to_N (v mod 256)) [f_h t; f_m t; f_s t; stl_frame t fps] /\
  stl_back t fps = (t - t mod second_ns) + frames_ns (stl_frame t fps) fps.
Proof. intros t fps Ht Hf. exact (proj2 (stl_back_value t fps Ht Hf)). Qed.
Example C16_stl_bytes_example :
  format_stl_bytes 3723456789012 25 = [1; 2; 3; 11]%N /\ stl_back 3723456789012 25 = 3723440000000 /\
  format_stl_bytes 3723456789012 30 = [1; 2; 3; 13]%N /\ stl_back 3723456789012 30 = 3723433333334 /\
  format_stl_bytes_float 3723456789012 30 = [1; 2; 3; 13]%N /\
  format_stl_float 86399999999999 25 = [50; 51; 53; 57; 53; 57; 50; 52]%N /\ format_stl 86399999999999 25 = [50; 51; 53; 57; 53; 57; 50; 52]%N.
Proof. exact stl_bytes_examples. Qed.

Print Assumptions C16_stl_float_path.
Print Assumptions C16_stl_float_path_1024h.
Print Assumptions C16_duration_float_floor.
Print Assumptions C16_stl_bytes.
Print Assumptions C16_stl_bytes_monotone.
Print Assumptions C16_stl_bytes_shape.
(* EBU STL, the float path (audit item): stl.go computes the hour, minute and second fields of a timecode as
   int(math.Floor(d.Hours())) etc., where time.Duration.Hours() is float64(d / Hour) + float64(d % Hour) / 3.6e12 (one rounded
   division, one rounded addition), and tests d.Hours() < 10 for the leading zero; only the frame field is integer
   arithmetic.  Model/StlFloat.v transcribes that path with Kit/Float64.v (Flocq binary64); on the whole range a timecode
   can hold (0 <= t < 256 h) it equals the integer model Dur.stl_fields used everywhere else, so every STL theorem stated
   on stl_fields / format_stl / format_stl_bytes is a theorem about the float computation. *)
From Astisub Require Import Model.StlFloat Proofs.StlFloatProofs.
Theorem C16_stl_float_fields : forall t fps, stl_range t -> stl_fields_float t fps = stl_fields t fps.
Proof. exact stl_fields_float_correct. Qed.
Theorem C16_stl_float_leading_zero : forall c t, stl_unit c -> stl_range t -> lt10_float c t = (Z.quot t c <? 10).
Proof. exact lt10_float_correct. Qed.
Print Assumptions C16_stl_float_fields.
Print Assumptions C16_stl_float_leading_zero.
