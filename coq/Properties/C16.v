From Astisub Require Import Kit.Base Model.Dur.
Theorem C16_placeholder : True. Proof. exact I. Qed.
