(* C07 — Any-to-any conversion (library file API and CLI) preserves cues.
   What the model carries today: the extension dispatch (case-insensitive; unsupported extension -> invalid
   extension; .ts readable only), the nothing-to-write error, and - for the SubRip pair - reading back what was
   written (C01).  The 42 format pairs, the operation sequences and the CLI are decided on the implementation by
   the harness (own encoders for every source format, destination re-read and compared with the composed
   specifications of the operations): correspondence/exploration, not proof, until the other codec models exist. *)
From Coq Require Import List NArith.
From Astisub Require Import Kit.Base Kit.Str Model.Files Model.Srt Proofs.FilesProofs.
Import ListNotations.

Theorem C07_case_insensitive : forall name, reader_for (to_lower name) = reader_for name /\ writer_for (to_lower name) = writer_for name.
Proof. exact dispatch_case_insensitive. Qed.
Theorem C07_unsupported_extension : forall name, fmt_of_ext (ext_of (to_lower name)) = None ->
  reader_for name = Err EInvalidExt /\ writer_for name = Err EInvalidExt.
Proof. exact unsupported_extension. Qed.
Theorem C07_ts_read_only : forall name, fmt_of_ext (ext_of (to_lower name)) = Some FTs ->
  reader_for name = Ok FTs /\ writer_for name = Err EInvalidExt.
Proof. exact ts_read_only. Qed.
Theorem C07_nothing_to_write_srt : write_srt [] = Err ENothingToWrite.
Proof. reflexivity. Qed.

Example C07_dispatch_examples :
  reader_for [47;116;109;112;47;65;46;83;82;84]%N = Ok FSrt /\          (* /tmp/A.SRT *)
  writer_for [120;46;116;115]%N = Err EInvalidExt /\                     (* x.ts *)
  reader_for [97;46;98;47;99]%N = Err EInvalidExt /\                     (* a.b/c : the dot is in a directory name *)
  writer_for [120;46;65;115;115]%N = Ok FSsa.                            (* x.Ass *)
Proof. repeat split; reflexivity. Qed.

Print Assumptions C07_case_insensitive.
Print Assumptions C07_unsupported_extension.
Print Assumptions C07_ts_read_only.
Print Assumptions C07_nothing_to_write_srt.
