(* C07 — Any-to-any conversion (library file API and CLI) preserves cues.
   What the model carries: the extension dispatch (case-insensitive; unsupported extension -> invalid
   extension; .ts readable only), the nothing-to-write error, the same-format trips (C01, C02) and the two
   cross-format conversions between the modelled codecs, SubRip -> WebVTT and WebVTT -> SubRip, for ALL
   representable documents: the destination read back holds the same number of cues in the same order, times
   truncated to the millisecond, the same text per line (Model/Conv.v is the conversion as the shared cue list
   makes it; its bytes are compared with the library's on every generated document, suites convsv/convvs).
   Operations in between (Model/ConvOps.v composes the codec models with the operation models of C09-C15; its bytes
   are compared with the library's on every generated document x operation sequence, suite convops): for ALL
   representable SubRip documents and ALL sequences of sync / fragment / unfragment / order / optimize / linear
   correction / merge-with-another-representable-document, every cue that comes out carries the lines of a source
   cue, and - provided the times the operations produce are non-negative, the property's proviso - the converted
   file reads back as exactly the transformed list (ms, renumbered), towards SubRip and towards WebVTT.
   The other format pairs and the CLI are decided on the implementation by the harness (own
   encoders for every source format, destination re-read and compared with the composed specifications of the
   operations, which are themselves the theorems of C09-C15): correspondence/exploration, not proof. *)
From Coq Require Import List ZArith NArith.
From Astisub Require Import Kit.Base Kit.Str Model.Files Model.Ops Model.Srt Model.Vtt Model.Conv Model.ConvOps Model.Plain Model.PlainOps Model.Cli Proofs.FilesProofs.
From Astisub Require Import Proofs.SrtProofs Proofs.VttDoc Proofs.ConvProofs Proofs.ConvOpsProofs Proofs.PlainProofs Proofs.PlainOpsProofs.
From Astisub Require Import Model.PlainSsa Proofs.PlainSsaProofs.
From Astisub Require Import Model.Stl Model.PlainStl Proofs.PlainStlProofs.
From Astisub Require Import Model.PlainTtml Proofs.PlainTtmlProofs.
Import ListNotations.

(* SubRip file -> WebVTT file: cues, order, times to the millisecond, text per line *)
Theorem C07_srt_to_vtt : forall l : list sitem,
  Forall repr_item l -> l <> [] -> (Z.of_nat (length l) <= max_int64)%Z ->
  repr_vdoc (conv_sv (renumber_truncate l)) [] [] ->
  exists srt vtt d', write_srt l = Ok srt /\ convert_srt_vtt srt = Ok vtt /\ read_vtt vtt = Ok d' /\
                     map vview (vd_items d') = map sview_ms l.
Proof. exact srt_to_vtt. Qed.
Print Assumptions C07_srt_to_vtt.

(* WebVTT file -> SubRip file.  Scope: the second hypothesis holds for documents whose runs carry no tags (voices, comments,
   settings, regions, inline timestamps are fine): a tagged run becomes a SubRip run with an attribute-less style, which
   the SubRip representability predicate excludes (the writer emits it exactly like an unstyled run, and the reader then
   merges it with its neighbours).  Tagged documents are covered by C07_any_source below together with the byte comparison
   of the library's WebVTT -> SubRip conversion of styled documents with the conversion through the plain view
   (suite plain.styled.vtt->srt).  Non-vacuity: C07_vtt_to_srt_example. *)
Theorem C07_vtt_to_srt : forall d so ro,
  repr_vdoc d so ro -> Forall repr_item (conv_vs (ndoc d so ro)) ->
  exists vtt srt l', write_vtt d so ro = Ok vtt /\ convert_vtt_srt vtt = Ok srt /\ read_srt srt = Ok l' /\
                     map sview l' = map vview_ms (vd_items (ndoc d so ro)) /\ length l' = length (vd_items d).
Proof. exact vtt_to_srt. Qed.
Print Assumptions C07_vtt_to_srt.

(* SubRip file -> any sequence of operations -> SubRip file: reads back as the operations applied to the source cues *)
Theorem C07_srt_ops_srt : forall (ops : list cop) (l : list sitem),
  Forall repr_item l -> l <> [] -> (Z.of_nat (length l) <= max_int64)%Z -> Forall (cop_ok repr_item) ops ->
  let l' := srt_ops ops (renumber_truncate l) in
  Forall time_ok l' -> l' <> [] -> (Z.of_nat (length l') <= max_int64)%Z ->
  exists src dst, write_srt l = Ok src /\ convert_srt_ops_srt ops src = Ok dst /\ read_srt dst = Ok (renumber_truncate l').
Proof. exact srt_ops_srt. Qed.
Print Assumptions C07_srt_ops_srt.

(* ... -> WebVTT file: same cues, order, times (ms) and text per line as the transformed list *)
Theorem C07_srt_ops_vtt : forall (ops : list cop) (l : list sitem),
  Forall repr_item l -> l <> [] -> (Z.of_nat (length l) <= max_int64)%Z ->
  let l' := srt_ops ops (renumber_truncate l) in
  repr_vdoc (conv_sv l') [] [] ->
  exists src dst d', write_srt l = Ok src /\ convert_srt_ops_vtt ops src = Ok dst /\ read_vtt dst = Ok d' /\
                     map vview (vd_items d') = map sview_ms l'.
Proof. exact srt_ops_vtt. Qed.
Print Assumptions C07_srt_ops_vtt.

(* whatever the operations, the lines of every resulting cue are the lines of a source cue: representability of the
   text is preserved by every operation sequence (Q = any property of a cue's lines) *)
Theorem C07_ops_keep_content : forall (Q : list (list srun) -> Prop) ops l,
  Forall (fun it => Q (si_lines it)) l -> Forall (cop_ok (fun it => Q (si_lines it))) ops ->
  Forall (fun it => Q (si_lines it)) (srt_ops ops l).
Proof. exact srt_ops_lines. Qed.
Print Assumptions C07_ops_keep_content.

Example C07_ops_example :
  Forall repr_item ex_ops_src /\ Forall (cop_ok repr_item) ex_ops /\
  map (fun s => (si_st s, si_en s)) (srt_ops ex_ops (renumber_truncate ex_ops_src)) =
    [(0, 400000000); (1500000000, 5500000000); (6500000000, 7500000000)]%Z.
Proof. split; [exact ex_ops_src_repr | split; [exact ex_ops_ok | exact ex_ops_result]]. Qed.

(* Every pair of codecs at once.  A codec is plain-faithful at unit u when every acceptable plain cue list (start, end,
   text of each line) is written to a document that reads back with the same cues, order and texts, times truncated to
   u.  Any two such codecs compose into the conversion statement of the property: source written, converted through
   the shared cue list (for unstyled cues: the plain view; enc = writer after of_plain, dec = to_plain after reader),
   destination read back = the cues truncated to the source's
   and then to the destination's unit.  Instances: SubRip and WebVTT below; the other codecs next to their round-trip
   theorems. *)
Theorem C07_pair : forall (SA SB : Type) uA okA (encA : plain -> res SA) decA uB okB (encB : plain -> res SB) decB,
  plain_faithful uA okA encA decA -> plain_faithful uB okB encB decB ->
  forall p, okA p -> okB (ptrunc uA p) ->
  exists src dst, encA p = Ok src /\ convert_plain decA encB src = Ok dst /\ decB dst = Ok (ptrunc uB (ptrunc uA p)).
Proof. exact @plain_pair. Qed.
Print Assumptions C07_pair.
Theorem C07_srt_plain_faithful : plain_faithful 1000000 srt_plain_ok srt_enc srt_dec.
Proof. exact srt_plain_faithful. Qed.
Print Assumptions C07_srt_plain_faithful.
Theorem C07_vtt_plain_faithful : plain_faithful 1000000 vtt_plain_ok vtt_enc vtt_dec.
Proof. exact vtt_plain_faithful. Qed.
Print Assumptions C07_vtt_plain_faithful.
(* ... and with any sequence of the documented operations in between (they act on the plain cue list through the operation
   models of C09-C15): the destination reads back as the operations applied to the source's cues, truncated to the
   destination's unit; whatever the operations, every resulting cue's lines are those of a source cue (of the document or
   of a merged one), so the text stays representable *)
Theorem C07_pair_ops : forall (SA SB : Type) uA okA (encA : plain -> res SA) decA uB okB (encB : plain -> res SB) decB,
  plain_faithful uA okA encA decA -> plain_faithful uB okB encB decB ->
  forall ops p, okA p -> okB (ops_plain ops (ptrunc uA p)) ->
  exists src dst, encA p = Ok src /\ convert_plain_ops decA encB ops src = Ok dst /\
                  decB dst = Ok (ptrunc uB (ops_plain ops (ptrunc uA p))).
Proof. exact @plain_ops_pair. Qed.
Print Assumptions C07_pair_ops.
Theorem C07_ops_plain_keep_lines : forall (Q : list str -> Prop) ops p,
  Forall (fun c : pcue => Q (snd c)) p -> Forall (pop_ok Q) ops -> Forall (fun c : pcue => Q (snd c)) (ops_plain ops p).
Proof. exact ops_plain_keep_lines. Qed.
Print Assumptions C07_ops_plain_keep_lines.
Example C07_pair_ops_example :
  ops_plain ex_pops ex_pplain =
  [(0%Z, 400000000%Z, [[65]%N]); (1500000000%Z, 5500000000%Z, [[72; 105]%N]); (6500000000%Z, 7500000000%Z, [[89; 111]%N])].
Proof. exact ex_pops_result. Qed.

Theorem C07_ssa_plain_faithful : plain_faithful ssa_unit ssa_plain_ok ssa_enc ssa_dec.
Proof. exact ssa_plain_faithful. Qed.
Print Assumptions C07_ssa_plain_faithful.
Example C07_ssa_plain_example : ssa_plain_ok ex_plain /\ ssa_plain_ok (ptrunc 1000000 ex_plain).
Proof. split; [exact ex_plain_ssa_ok | exact ex_plain_ssa_after_srt]. Qed.
(* EBU STL written with the library's defaults (no metadata: teletext display standard "1", 25 frames per second, clock
   fixed): unit = the 40 ms frame; stl_plain_ok = 1..65535 cues, times from 0 to below 100 h, at least one line per cue,
   every line a non-empty text over the Latin repertoire without '$' and without white space at its ends, encoded text
   within the 112 bytes of a TTI block; text equality is exact (one run per line: the writer inserts no space) *)
Theorem C07_stl_plain_faithful : plain_faithful stl_plain_unit stl_plain_ok stl_enc stl_dec.
Proof. exact stl_plain_faithful. Qed.
Print Assumptions C07_stl_plain_faithful.
Example C07_stl_plain_example : stl_plain_ok ex_plain_stl.
Proof. exact ex_plain_stl_ok. Qed.
(* TTML at byte level: the writer's bytes (default indent), the XML parser model, the tree reader *)
Theorem C07_ttml_plain_faithful : plain_faithful 1000000 ttml_plain_ok ttml_enc ttml_dec.
Proof. exact ttml_plain_faithful. Qed.
Print Assumptions C07_ttml_plain_faithful.
(* ... and with the decoder over the XML parser model for hand-written documents (Kit/XmlParse2.v), which is the one the
   plain view registers for TTML sources (harness-rendered documents included) *)
Theorem C07_ttml_plain_faithful2 : plain_faithful 1000000 ttml_plain_ok ttml_enc ttml_dec2.
Proof. exact ttml_plain_faithful2. Qed.
Print Assumptions C07_ttml_plain_faithful2.
(* ANY source document the source reader accepts - styled, with metadata, in any rendering - whose text the destination
   can carry: converting it through the plain view gives a destination that reads back as the source's cues (times
   truncated to the destination's unit), with any operation sequence in between.  (For which pairs and sources the
   library's conversion IS the conversion through the plain view - the destination writer ignoring everything the source
   reader sets besides text - is established by the byte comparison of suite convplain on styled sources.) *)
Theorem C07_any_source : forall (SA SB : Type) (decA : SA -> res plain) uB okB (encB : plain -> res SB) decB,
  plain_faithful uB okB encB decB ->
  forall ops src p, decA src = Ok p -> okB (ops_plain ops p) ->
  exists dst, convert_plain_ops decA encB ops src = Ok dst /\ decB dst = Ok (ptrunc uB (ops_plain ops p)).
Proof. exact @plain_ops_sink. Qed.
Print Assumptions C07_any_source.

(* the command-line tool: every sub-command with valid flags applies its one operation between the two codecs (cli_ops is
   the flag validation of astisub/main.go; the CLI binary's output bytes are compared with cli_run for every sub-command,
   every pair of codecs and invalid flag values, suite cliplain) *)
Theorem C07_cli : forall (SA SB : Type) uA okA (encA : plain -> res SA) decA uB okB (encB : plain -> res SB) decB,
  plain_faithful uA okA encA decA -> plain_faithful uB okB encB decB ->
  forall a ops p, cli_ops a = Ok ops -> okA p -> okB (ops_plain ops (ptrunc uA p)) ->
  exists src dst, encA p = Ok src /\ cli_run decA encB a src = Ok dst /\
                  decB dst = Ok (ptrunc uB (ops_plain ops (ptrunc uA p))).
Proof. exact @cli_pair. Qed.
Print Assumptions C07_cli.

Example C07_plain_example : srt_plain_ok ex_plain /\ vtt_plain_ok (ptrunc 1000000 ex_plain).
Proof. split; [exact ex_plain_srt_ok | exact ex_plain_vtt_ok]. Qed.

Example C07_vtt_to_srt_example :
  repr_vdoc (vtt_of_plain (ptrunc 1000000 ex_plain)) [] [] /\
  Forall repr_item (conv_vs (ndoc (vtt_of_plain (ptrunc 1000000 ex_plain)) [] [])).
Proof. exact ex_vtt_to_srt_hyps. Qed.

Example C07_conversion_example : Forall repr_item ex_conv /\ repr_vdoc (conv_sv (renumber_truncate ex_conv)) [] [].
Proof. split; [exact ex_conv_srt | exact ex_conv_repr]. Qed.

Theorem C07_case_insensitive : forall name, reader_for (to_lower name) = reader_for name /\ writer_for (to_lower name) = writer_for name.
Proof. exact dispatch_case_insensitive. Qed.
Theorem C07_unsupported_extension : forall name, fmt_of_ext (ext_of (to_lower name)) = None ->
  reader_for name = Err EInvalidExt /\ writer_for name = Err EInvalidExt.
Proof. exact unsupported_extension. Qed.
Theorem C07_ts_read_only : forall name, fmt_of_ext (ext_of (to_lower name)) = Some FTs ->
  reader_for name = Ok FTs /\ writer_for name = Err EInvalidExt.
Proof. exact ts_read_only. Qed.
Theorem C07_nothing_to_write_srt : write_srt [] = Err ENothingToWrite.
Proof. reflexivity. Qed.

Example C07_dispatch_examples :
  reader_for [47;116;109;112;47;65;46;83;82;84]%N = Ok FSrt /\          (* /tmp/A.SRT *)
  writer_for [120;46;116;115]%N = Err EInvalidExt /\                     (* x.ts *)
  reader_for [97;46;98;47;99]%N = Err EInvalidExt /\                     (* a.b/c : the dot is in a directory name *)
  writer_for [120;46;65;115;115]%N = Ok FSsa.                            (* x.Ass *)
Proof. repeat split; reflexivity. Qed.

Print Assumptions C07_case_insensitive.
Print Assumptions C07_unsupported_extension.
Print Assumptions C07_ts_read_only.
Print Assumptions C07_nothing_to_write_srt.

(* Teletext as the SOURCE of conversions (a .ts file can be read, not written).  The teletext "document" is the list of
   delivered (time, PES payload) pairs of the reader model (Model/Ttx.v; the demuxer is a library contract, see
   notes/C06.md).  ttx_enc writes a plain cue list as a subtitle inserter would (Model/PlainTtx.v: page 888 with the subtitle
   flag, national option 0, one instance per cue at its start time, an erase page at its end unless the next cue begins at
   that very time, one row per line: start box twice, text, end box, padding; one PES packet per instance); ttx_dec is the
   reader with page auto-detection followed by the plain view of its cues.  ttx_plain_ok (decidable): the first cue starts
   at 0 (the reader's times are relative to the first presentation time of the stream), 0 <= start <= end on the millisecond
   grid, each cue ends before or when the next begins (one page on screen at a time), 1..24 lines of 1..37 bytes that are
   G0 cells decoding to themselves under national option 0 (40 cells with the box codes), no space at either end of a line
   (the reader trims).  Unit 1 ms: inside ttx_plain_ok nothing is truncated.  From C06's stream theorem
   (C06_stream_page_auto).  With C07_pair / C07_pair_ops / C07_cli this gives ts -> {srt, vtt, ssa, stl, ttml}. *)
From Astisub Require Import Model.TtxSpec Model.PlainTtx Proofs.PlainTtxProofs.
Theorem C07_ttx_plain_faithful : plain_faithful 1000000 ttx_plain_ok ttx_enc ttx_dec.
Proof. exact ttx_plain_faithful. Qed.
Print Assumptions C07_ttx_plain_faithful.
Theorem C07_ttx_plain_source : forall (SB : Type) uB okB (encB : plain -> res SB) decB, plain_faithful uB okB encB decB ->
  forall p, ttx_plain_ok p -> okB (ptrunc 1000000 p) ->
  exists src dst, ttx_enc p = Ok src /\ convert_plain ttx_dec encB src = Ok dst /\ decB dst = Ok (ptrunc uB (ptrunc 1000000 p)).
Proof. exact @ttx_plain_source. Qed.
Print Assumptions C07_ttx_plain_source.
Theorem C07_ttx_to_srt : forall p, ttx_plain_ok p -> srt_plain_ok (ptrunc 1000000 p) ->
  exists src dst, ttx_enc p = Ok src /\ convert_plain ttx_dec srt_enc src = Ok dst /\
                  srt_dec dst = Ok (ptrunc 1000000 (ptrunc 1000000 p)).
Proof. exact plain_ttx_to_srt. Qed.
Print Assumptions C07_ttx_to_srt.
Example C07_ttx_plain_example : ttx_plain_ok ex_plain_ttx /\ srt_plain_ok (ptrunc 1000000 ex_plain_ttx) /\ length ex_plain_ttx = 3%nat.
Proof. split; [exact ex_plain_ttx_ok | split; [exact ex_plain_ttx_srt_ok | reflexivity]]. Qed.

(* ---- styled sources into SubRip (Proofs/ConvToSrtStyled.v) ----
   The SubRip writer looks at times, run texts and the SRT attributes only; no STL, TTML or SSA reading path sets those
   (propagateSTLAttributes, propagateTTMLAttributes set WebVTT settings; propagateSSAAttributes is empty).  For styled
   sources of these formats the library's conversion into SubRip is therefore the conversion through the plain view --
   byte comparison on styled generated sources: groups plain.styled.stl->srt (STL files with in-row style changes, colours,
   boxing, justification, positions; harness/conv_stl_srt.go), plain.styled.ttml->srt, plain.styled.ssa->srt -- and for
   EVERY document the source reader accepts whose text SubRip can carry, the destination reads back as the source's cues in
   order, times truncated to the millisecond, the same text per line. *)
From Astisub Require Import Proofs.ConvToSrtStyled.
Theorem C07_stl_to_srt_styled : forall data p, stl_dec data = Ok p -> srt_plain_ok p ->
  exists dst, convert_plain stl_dec srt_enc data = Ok dst /\ srt_dec dst = Ok (ptrunc 1000000 p).
Proof. exact stl_to_srt_styled. Qed.
Print Assumptions C07_stl_to_srt_styled.
Theorem C07_ttml_to_srt_styled : forall data p, ttml_dec2 data = Ok p -> srt_plain_ok p ->
  exists dst, convert_plain ttml_dec2 srt_enc data = Ok dst /\ srt_dec dst = Ok (ptrunc 1000000 p).
Proof. exact ttml_to_srt_styled. Qed.
Print Assumptions C07_ttml_to_srt_styled.
Theorem C07_ssa_to_srt_styled : forall data p, ssa_dec data = Ok p -> srt_plain_ok p ->
  exists dst, convert_plain ssa_dec srt_enc data = Ok dst /\ srt_dec dst = Ok (ptrunc 1000000 p).
Proof. exact ssa_to_srt_styled. Qed.
Print Assumptions C07_ssa_to_srt_styled.
(* STYLED TTML sources converted to SSA/ASS (Model/ConvTtmlSsa.v; Proofs/ConvTtmlSsaProofs.v).  conv_ttml_ssa is what
   WriteToSSA sees of the Subtitles value ReadFromTTML built: the title as the only script info, EVERY style of the TTML
   styles map (referenced or not; parent links, TTML attributes and regions do not travel) as a style row holding the name
   only, per cue the times, the ID of its style in the Style column, and per line the texts of its spans put together.
   The library's destination bytes are compared with convert_ttml_ssa on every generated styled TTML document (suite
   convttmlssa).
   C07_ttml_to_ssa_styled: for every source the TTML reader model accepts (XML parser model, then the tree reader) whose
   conversion is representable in SSA, and every order in which the runtime may range over the styles map (reorder: any
   permutation of the keys): the conversion succeeds and the destination read back has the same cues in the same order,
   times truncated to the centisecond, per line the same text (exact equality: the SSA writer inserts nothing between the
   runs of a line).  The representability hypothesis is stated on conv_ttml_ssa_nf d, the same document with the runs of
   every line put together (written to the same bytes; the shape the SSA reader returns); it is image_repr of C04
   (Proofs/SsaRewrite.v: doc_repr without the styles map being listed in sorted order) and amounts to: at least one cue;
   every style ID non-empty, free of commas and line terminators, unchanged by TrimSpace; the title on one line and
   unchanged by TrimSpace; times in 0 .. max Duration; a cue's style reference is not the reserved spelling *Default;
   every line text free of braces and of the two-byte sequences \n and \N and unchanged by TrimSpace; the cue text free
   of line terminators.  ttml_ssa_okb decides it (C07_ttml_to_ssa_okb); each condition is needed (computed
   counter-examples C07_ttml_to_ssa_needs; what the library does on them: notes/C07-ttml-ssa.md).
   C07_ttml_to_ssa_styled_written: the same starting from a representable TTML DOCUMENT (repr_doc of C03) and the bytes
   the TTML writer emits for it, any indent: times truncated to the millisecond, then to the centisecond.
   C07_ttml_to_ssa_order: the destination bytes do not depend on the iteration order of the styles map. *)
From Astisub Require Import Kit.Xml Kit.XmlParse2 Model.Ttml Model.Ssa Model.ConvTtmlSsa Proofs.SsaRewrite Proofs.TtmlDocSpec Proofs.ConvTtmlSsaProofs.
From Coq Require Import Permutation.
Theorem C07_ttml_to_ssa_styled : forall src root d reorder,
  xml_parse2 src = Some root -> read_ttml root = Ok d ->
  image_repr (conv_ttml_ssa_nf d) -> Permutation (reorder (tsa_keys d)) (tsa_keys d) ->
  exists dst d', convert_ttml_ssa_by reorder src = Ok dst /\ read_ssa dst = Ok d' /\
                 ssa_to_plain d' = ptrunc 10000000 (ttml_to_plain d).
Proof. exact ttml_to_ssa_styled. Qed.
Print Assumptions C07_ttml_to_ssa_styled.
(* document level: any TTML document value, any enumeration of the keys of its styles map *)
Theorem C07_ttml_to_ssa_styled_doc : forall d order,
  image_repr (conv_ttml_ssa_nf d) -> Permutation order (tsa_keys d) ->
  exists dst d', write_ssa (conv_ttml_ssa d) order = Ok dst /\ read_ssa dst = Ok d' /\
                 ssa_to_plain d' = ptrunc 10000000 (ttml_to_plain d).
Proof. exact ttml_to_ssa_doc. Qed.
Print Assumptions C07_ttml_to_ssa_styled_doc.
Theorem C07_ttml_to_ssa_styled_written : forall d ind reorder,
  repr_doc d = true -> indent_ok ind = true ->
  image_repr (conv_ttml_ssa_nf (written_value d)) -> Permutation (reorder (tsa_keys d)) (tsa_keys d) ->
  exists src dst d', write_ttml_bytes ind d = Ok src /\ convert_ttml_ssa_by reorder src = Ok dst /\ read_ssa dst = Ok d' /\
                     ssa_to_plain d' = ptrunc 10000000 (ptrunc 1000000 (ttml_to_plain d)).
Proof. exact ttml_to_ssa_written. Qed.
Print Assumptions C07_ttml_to_ssa_styled_written.
(* through the two plain-view decoders: what C07_any_source compares, for the conversion the library really performs *)
Theorem C07_ttml_to_ssa_styled_plain : forall src p d reorder,
  read_ttml_bytes2 src = Ok d -> ttml_to_plain d = p ->
  image_repr (conv_ttml_ssa_nf d) -> Permutation (reorder (tsa_keys d)) (tsa_keys d) ->
  exists dst, ttml_dec2 src = Ok p /\ convert_ttml_ssa_by reorder src = Ok dst /\ ssa_dec dst = Ok (ptrunc ssa_unit p).
Proof. exact ttml_to_ssa_styled_plain. Qed.
Print Assumptions C07_ttml_to_ssa_styled_plain.
Theorem C07_ttml_to_ssa_order : forall reorder src,
  (forall l, Permutation (reorder l) l) -> convert_ttml_ssa_by reorder src = convert_ttml_ssa src.
Proof. exact convert_ttml_ssa_order_independent. Qed.
Print Assumptions C07_ttml_to_ssa_order.
Theorem C07_ttml_to_ssa_same_bytes : forall d order, write_ssa (conv_ttml_ssa d) order = write_ssa (conv_ttml_ssa_nf d) order.
Proof. exact tsa_write_nf. Qed.
Print Assumptions C07_ttml_to_ssa_same_bytes.
Theorem C07_ttml_to_ssa_okb : forall d, ttml_ssa_okb d = true -> image_repr (conv_ttml_ssa_nf d).
Proof. exact ttml_ssa_okb_ok. Qed.
Print Assumptions C07_ttml_to_ssa_okb.
(* non-vacuity: a document with a title, three styles (one referenced by a cue, one by a span only, one a parent), a
   region, two cues, a two-line cue whose first line has two spans, times off both grids: it is a representable TTML
   document, its conversion satisfies the hypothesis (also in the sorted form doc_reprb of C04), the conversion is
   computed (styles map ranged over in reverse order), and the written-bytes theorem applies to it *)
Example C07_ttml_to_ssa_example :
  repr_doc tsa_ex = true /\ ttml_ssa_okb (written_value tsa_ex) = true /\
  Proofs.SsaRepr.doc_reprb (conv_ttml_ssa_nf (written_value tsa_ex)) = true /\
  tsa_trip tsa_ex = Ok [(1000000000%Z, 2000000000%Z, [[72;101;108;108;111;44;32;119;111;114;108;100]; [115;101;99;111;110;100;32;108;105;110;101]]);
                        (3000000000%Z, 4990000000%Z, [[112;108;97;105;110]])]%N.
Proof. split; [exact tsa_ex_ttml_repr|]. split; [exact (proj1 (proj2 tsa_ex_ok))|]. split; [exact (proj2 (proj2 tsa_ex_ok)) | exact tsa_ex_trip]. Qed.
Example C07_ttml_to_ssa_example_roundtrip :
  exists src dst d', write_ttml_bytes ttml_default_indent tsa_ex = Ok src /\ convert_ttml_ssa_by (@rev str) src = Ok dst /\
                     read_ssa dst = Ok d' /\ ssa_to_plain d' = ptrunc ssa_unit (ptrunc 1000000 (ttml_to_plain tsa_ex)).
Proof. exact tsa_ex_roundtrip. Qed.
(* each representability condition is needed (one cue, lines given as lists of span texts): a brace pair (a{b}c reads
   back as ac), \N inside a line (two lines), blanks at the ends of a line (trimmed), a carriage return (rest of the
   text lost), a comma in a style ID (the destination cannot be read), line terminators in the title (a cue injected) *)
Example C07_ttml_to_ssa_needs :
  tsa_cx_lines (tsa_trip (tsa_cx [] [] None [[[97;123;98;125;99]]])) = Some [[97;99]] /\
  tsa_cx_lines (tsa_trip (tsa_cx [] [] None [[[97;92;78;98]]])) = Some [[97]; [98]] /\
  tsa_cx_lines (tsa_trip (tsa_cx [] [] None [[[32;97;32]]; [[98;32]]])) = Some [[97]; [98]] /\
  tsa_cx_lines (tsa_trip (tsa_cx [] [] None [[[97;13;98]]])) = Some [[97]] /\
  tsa_trip (tsa_cx [] [[97;44;98]] (Some [97;44;98]) [[[120]]]) = Err EParse /\
  tsa_trip (tsa_cx tsa_cx_title [] None [[[120]]]) = Ok [(0%Z, 0%Z, [[98]]); (1000000000%Z, 2000000000%Z, [[120]])].
Proof.
  split; [exact (proj1 tsa_needs_no_brace)|]. split; [exact (proj1 tsa_needs_no_break_N)|].
  split; [exact (proj1 tsa_needs_trimmed_lines)|]. split; [exact (proj1 tsa_needs_no_line_terminator)|].
  split; [exact (proj1 tsa_needs_no_comma_in_id) | exact (proj1 tsa_needs_title_one_line)].
Qed.
(* STYLED conversions between SSA/ASS and WebVTT (the library's conversion is NOT the one through the plain view for these
   two pairs: the speaker name travels).  Model/ConvSsaVtt.v and Model/ConvVttSsa.v transcribe, from the source reader
   and the destination writer, what reaches the writer; convert_ssa_vtt / convert_vtt_ssa are byte-compared with the library on
   every generated styled source and on hand-rendered sources with hard texts (suites convssavtt, convvttssa).
   SSA/ASS -> WebVTT: one numbered cue per Dialogue event, every line prefixed by a voice tag carrying the Name column, the run
   texts (escaped) one after the other; override blocks, styles, script info, layer, margins, effect are not written.
   WebVTT -> SSA/ASS: one Dialogue row per cue, Name = the last speaker named in the cue, Text = the run texts of each line put
   together, lines joined by backslash-n; a STYLE block becomes a one-row styles section; tags, classes, inline timestamps,
   settings, regions, comments, the timestamp map are not written.
   Statements: for EVERY representable source document (doc_repr / repr_vdoc: the hypotheses of C04_write_read and
   C02_write_read) whose conversion - with the runs of each line put together, which is the document the destination bytes
   denote: conv_ssa_vtt_m, conv_vtt_ssa_m - is representable in the destination, the written source converts without error
   and the destination reads back, through the plain view, as the source's cues: same number, same order, times truncated to
   the source's and then the destination's unit, per line exactly the same text (no white-space normalisation).
   ssavtt_join_ok: no run text ends with the byte 0xC2 (true of every valid UTF-8 text; the WebVTT writer escapes run by run).
   What the hypothesis on the conversion excludes, each with a computed counter-example (Proofs/ConvSsaVttProofs.v
   ssa_to_vtt_needs_..., Proofs/ConvVttSsaProofs.v vtt_to_ssa_needs_...; replayed on the library, notes/C07-ssa-vtt.md):
   towards WebVTT - empty lines, white space at the ends of a line, lines that WebVTT reads as another kind of line (NOTE,
   STYLE, Region:, X-TIMESTAMP-MAP prefixes, the arrow), speaker names with '>' '&' or blanks at their ends; towards SSA -
   braces, the sequences backslash-n / backslash-N, white space at the ends of a line, cues without lines, speaker names
   with a comma (the hypothesis excludes them; since the library fix of finding F1 the writer emits the comma as a semicolon
   and the text survives: vtt_to_ssa_comma_in_voice_readable). *)
From Astisub Require Import Model.Ssa Model.ConvSsaVtt Model.ConvVttSsa Proofs.SsaDoc Proofs.ConvSsaVttProofs Proofs.ConvVttSsaProofs.
Theorem C07_ssa_to_vtt_styled : forall d : adoc,
  doc_repr d -> ssavtt_join_ok d = true -> repr_vdoc (conv_ssa_vtt_m (canon_doc d)) (style_keys d) [] ->
  exists ssa vtt d', write_ssa d (style_keys d) = Ok ssa /\ convert_ssa_vtt ssa = Ok vtt /\ read_vtt vtt = Ok d' /\
                     vtt_to_plain d' = ptrunc 1000000 (ptrunc ssa_unit (ssa_to_plain d)).
Proof. exact ssa_to_vtt_styled. Qed.
Print Assumptions C07_ssa_to_vtt_styled.
(* the conversion's bytes are those of the merged form (this is what ties conv_ssa_vtt_m to the library's conversion) *)
Theorem C07_ssa_to_vtt_merged_bytes : forall d so ro, ssavtt_join_ok d = true ->
  write_vtt (conv_ssa_vtt d) so ro = write_vtt (conv_ssa_vtt_m d) so ro.
Proof. exact write_conv_ssa_vtt_m. Qed.
Print Assumptions C07_ssa_to_vtt_merged_bytes.
Theorem C07_vtt_to_ssa_styled : forall d so ro,
  repr_vdoc d so ro -> doc_repr (conv_vtt_ssa_m (ndoc d so ro)) ->
  exists vtt ssa d', write_vtt d so ro = Ok vtt /\ convert_vtt_ssa vtt = Ok ssa /\ read_ssa ssa = Ok d' /\
                     ssa_to_plain d' = ptrunc ssa_unit (ptrunc 1000000 (vtt_to_plain d)).
Proof. exact vtt_to_ssa_styled. Qed.
Print Assumptions C07_vtt_to_ssa_styled.
Theorem C07_vtt_to_ssa_merged_bytes : forall d order,
  write_ssa (conv_vtt_ssa d) order = write_ssa (conv_vtt_ssa_m d) order.
Proof. exact write_conv_vtt_ssa_m. Qed.
Print Assumptions C07_vtt_to_ssa_merged_bytes.
(* non-vacuity: a v4.00+ script with a style, script info, two speakers, override blocks in the middle and at both ends of a
   line, '&' and '<' in the text, times off the grid; a WebVTT file with timestamp map, STYLE block, region, comment, settings,
   two speakers in one cue, a tag, a class, an inline timestamp, a comma in the text; ex_sv_expected / ex_vs_expected (Proofs/Conv...Proofs.v)
   spell out the plain views that come back: 1.23 s - 2.5 s with the lines  Hello brave new world & <co>  and  second line , then
   3 s - 4 s with  x > y ; resp. 1 s - 2.5 s with  Hello brave new world, & more  and  second line , then 3 s - 4 s with  x > y *)
Example C07_ssa_to_vtt_styled_example :
  doc_repr ex_sv_doc /\ ssavtt_join_ok ex_sv_doc = true /\ repr_vdoc (conv_ssa_vtt_m (canon_doc ex_sv_doc)) (style_keys ex_sv_doc) [] /\
  ptrunc 1000000 (ptrunc ssa_unit (ssa_to_plain ex_sv_doc)) = ex_sv_expected /\ length ex_sv_expected = 2%nat.
Proof. split; [exact ex_sv_repr | split; [exact ex_sv_join | split; [exact ex_sv_conv_repr | split; [exact ex_sv_plain | reflexivity]]]]. Qed.
Example C07_vtt_to_ssa_styled_example :
  repr_vdoc ex_vs_doc ex_vs_so ex_vs_ro /\ doc_repr (conv_vtt_ssa_m (ndoc ex_vs_doc ex_vs_so ex_vs_ro)) /\
  ptrunc ssa_unit (ptrunc 1000000 (vtt_to_plain ex_vs_doc)) = ex_vs_expected /\ length ex_vs_expected = 2%nat.
Proof. split; [exact ex_vs_repr | split; [exact ex_vs_conv_repr | split; [exact ex_vs_plain | reflexivity]]]. Qed.
(* Styled TTML sources -> WebVTT (Model/ConvTtmlVtt.v; the library's bytes are compared with convert_ttml_vtt on every
   generated styled TTML document, suite convttmlvtt).  What travels, transcribed from ReadFromTTML /
   propagateTTMLAttributes / WriteToWebVTT: every region (origin -> regionanchor 0%,0%, viewportanchor, scroll up;
   extent -> width, lines = height / 5 in Go's integer arithmetic) with the one-level fall-back to the style it names;
   per cue align (textAlign), line / position (origin, swapped under a tb writing mode), region, size (extent) from the
   paragraph's own attributes with the one-level fall-back to its style; per span the class of its own tts:color when it is
   one of the five colours the writer knows; the text.
   Statement: for EVERY document value d of the TTML reader model whose conversion is representable in WebVTT, the
   conversion succeeds, and the destination read back has the same cues in the same order, times truncated to the
   millisecond, per line the run texts put together - exact equality, no white-space normalisation:
   vtt_to_plain d' = ptrunc 1000000 (ttml_to_plain d).
   Representability is repr_vdoc of C02 applied to tv_norm (conv_ttml_vtt d): the converted document with its lines in the
   WebVTT writer's normal form - a span of one of the five colours as a run inside the class tag c.NAME, adjacent spans
   without such a colour as ONE run (the WebVTT reader cannot tell them apart).  tv_norm (conv_ttml_vtt d) is written byte
   for byte like conv_ttml_vtt d (lemma tv_norm_bytes).  repr_vdoc then asks: times in [0, max_int64]; every line non-empty,
   valid UTF-8 without NUL, without white space at its ends, not looking like another kind of WebVTT line (NOTE, STYLE,
   Region:, an arrow, digits only); settings and region attributes without white space, ':' resp. '=' ; region identifiers
   alike.  Two shapes of lines are outside it although the library converts them correctly (harness oracle): two ADJACENT
   spans carrying the SAME one of the five colours (the writer closes and reopens the class tag, which is not in the
   image of the WebVTT writer's normal form), and an uncoloured span whose text begins with the byte 0xA0 right after
   another uncoloured span.
   _file: from any source bytes the TTML reader model accepts (XML parser model for hand-written documents);
   _written: from any representable TTML document value written by the library's TTML writer with any white-space indent.
   Non-vacuity: C07_ttml_to_vtt_styled_example (source bytes with two regions with origin/extent, one of them falling back
   to a style and with a tb writing mode, a style with textAlign referenced by a paragraph, a coloured span, bare text, two
   adjacent uncoloured spans, a line break; the model's conversion of these bytes equals the bytes the library wrote). *)
From Astisub Require Import Model.Ttml Model.ConvTtmlVtt Proofs.TtmlDocSpec Proofs.ConvTtmlVttProofs.
Theorem C07_ttml_to_vtt_styled : forall d so ro,
  repr_vdoc (tv_norm (conv_ttml_vtt d)) so ro ->
  exists dst d', write_vtt (conv_ttml_vtt d) so ro = Ok dst /\ read_vtt dst = Ok d' /\
                 vtt_to_plain d' = ptrunc 1000000 (ttml_to_plain d).
Proof. exact ttml_to_vtt_styled. Qed.
Print Assumptions C07_ttml_to_vtt_styled.
Theorem C07_ttml_to_vtt_styled_file : forall data d,
  read_ttml_bytes2 data = Ok d ->
  repr_vdoc (tv_norm (conv_ttml_vtt d)) (tv_style_order d) (tv_region_order d) ->
  exists dst d', convert_ttml_vtt data = Ok dst /\ read_vtt dst = Ok d' /\
                 vtt_to_plain d' = ptrunc 1000000 (ttml_to_plain d).
Proof. exact ttml_to_vtt_styled_file. Qed.
Print Assumptions C07_ttml_to_vtt_styled_file.
Theorem C07_ttml_to_vtt_styled_written : forall d ind,
  repr_doc d = true -> indent_ok ind = true ->
  repr_vdoc (tv_norm (conv_ttml_vtt (written_value d))) (tv_style_order d) (tv_region_order d) ->
  exists src dst d', write_ttml_bytes ind d = Ok src /\ convert_ttml_vtt src = Ok dst /\ read_vtt dst = Ok d' /\
                     vtt_to_plain d' = ptrunc 1000000 (ttml_to_plain d).
Proof. exact ttml_to_vtt_styled_written. Qed.
Print Assumptions C07_ttml_to_vtt_styled_written.
(* the normal form is written byte for byte like the converted document *)
Theorem C07_ttml_to_vtt_norm_bytes : forall d so ro,
  repr_vdoc (tv_norm (conv_ttml_vtt d)) so ro ->
  write_vtt (tv_norm (conv_ttml_vtt d)) so ro = write_vtt (conv_ttml_vtt d) so ro.
Proof. exact (fun d so ro H => tv_norm_bytes _ so ro (conv_flat d) (repr_chains _ so ro H)). Qed.
Print Assumptions C07_ttml_to_vtt_norm_bytes.
Example C07_ttml_to_vtt_styled_example :
  read_ttml_bytes2 ex_tv_src = Ok ex_tv_doc /\
  convert_ttml_vtt ex_tv_src = Ok ex_tv_dst /\
  repr_vdoc (tv_norm (conv_ttml_vtt ex_tv_doc)) (tv_style_order ex_tv_doc) (tv_region_order ex_tv_doc) /\
  (exists d', read_vtt ex_tv_dst = Ok d' /\ vtt_to_plain d' = ptrunc 1000000 (ttml_to_plain ex_tv_doc)).
Proof. exact ex_tv_all. Qed.
(* ---- styled sources converted into TTML (Model/ConvTtml.v, Proofs/ConvTtmlProofs.v) ----
   What WriteToTTML sees of the cues the SubRip, WebVTT and SSA readers produce: SubRip - the font colour as tts:color on the
   run's span, nothing else; WebVTT - the regions map as layout and the cue's region, the STYLE entry as an empty style
   element; SSA - the title as ttm:title, every style as an empty style element and the event's style as the p's style;
   every run is its own span.  The library's destination bytes are compared with convert_S_ttml on the styled generated
   sources (suite convstyledttml).  Theorems, at byte level (Go-exact writer bytes with the default indent, XML parser
   model, tree reader): when the converted value is representable in TTML ([repr_doc]: at least one cue, times in
   [0, max_int64], at least one line per cue, no line break inside a run, references closed) and XML-legal ([legal_doc]), the
   conversion succeeds and the document reads back with the same cues in the same order, times truncated to the
   millisecond, and per line EXACTLY the same text (the TTML writer inserts no white space between runs: no [nows]
   normalisation is needed).  In a module because the TTML model shares names with other models. *)
From Astisub Require Model.Stl Model.PlainStl Model.ConvTtml Proofs.ConvTtmlProofs Model.Ttml Model.TtmlGo Proofs.TtmlDocSpec Model.PlainTtml Model.PlainSsa Model.Ssa.
Module C07_TTML.
Import Astisub.Model.Ttml Astisub.Model.TtmlGo Astisub.Proofs.TtmlDocSpec Astisub.Model.PlainTtml Astisub.Model.Ssa Astisub.Model.PlainSsa
  Astisub.Model.Stl Astisub.Model.PlainStl Astisub.Model.ConvTtml Astisub.Proofs.ConvTtmlProofs.
Theorem C07_srt_to_ttml_styled : forall l, repr_doc (conv_srt_ttml l) = true -> legal_doc (conv_srt_ttml l) = true ->
  exists b, to_ttml_bytes (conv_srt_ttml l) = Ok b /\ ttml_dec2 b = Ok (ptrunc 1000000 (srt_to_plain l)).
Proof. exact srt_to_ttml_styled. Qed.
Theorem C07_vtt_to_ttml_styled : forall d, repr_doc (conv_vtt_ttml d) = true -> legal_doc (conv_vtt_ttml d) = true ->
  exists b, to_ttml_bytes (conv_vtt_ttml d) = Ok b /\ ttml_dec2 b = Ok (ptrunc 1000000 (vtt_to_plain d)).
Proof. exact vtt_to_ttml_styled. Qed.
Theorem C07_ssa_to_ttml_styled : forall d, repr_doc (conv_ssa_ttml d) = true -> legal_doc (conv_ssa_ttml d) = true ->
  exists b, to_ttml_bytes (conv_ssa_ttml d) = Ok b /\ ttml_dec2 b = Ok (ptrunc 1000000 (ssa_to_plain d)).
Proof. exact ssa_to_ttml_styled. Qed.
(* EBU STL sources: C07_convert_stl_ttml below (Model/ConvStlTtml.v: metadata and the runs' colour reach the writer) *)
(* file to file *)
Theorem C07_convert_srt_ttml_styled : forall data l, read_srt data = Ok l ->
  repr_doc (conv_srt_ttml l) = true -> legal_doc (conv_srt_ttml l) = true ->
  exists b, convert_srt_ttml data = Ok b /\ ttml_dec2 b = Ok (ptrunc 1000000 (srt_to_plain l)).
Proof. exact convert_srt_ttml_styled. Qed.
Example C07_to_ttml_styled_examples :
  (repr_doc (conv_srt_ttml ex_srt_styled) = true /\ legal_doc (conv_srt_ttml ex_srt_styled) = true) /\
  (repr_doc (conv_vtt_ttml ex_vtt_styled) = true /\ legal_doc (conv_vtt_ttml ex_vtt_styled) = true) /\
  (repr_doc (conv_ssa_ttml ex_ssa_styled) = true /\ legal_doc (conv_ssa_ttml ex_ssa_styled) = true).
Proof. exact (conj ex_srt_styled_ok (conj ex_vtt_styled_ok ex_ssa_styled_ok)). Qed.
End C07_TTML.
Print Assumptions C07_TTML.C07_srt_to_ttml_styled.
Print Assumptions C07_TTML.C07_vtt_to_ttml_styled.
Print Assumptions C07_TTML.C07_ssa_to_ttml_styled.
(* ---- styled conversions into EBU STL (Model/ConvStl.v, Proofs/ConvStlProofs.v).  conv_S_stl = what WriteToSTL sees of a cue
   list the S reader produced: no reader sets an STL attribute, so the times and, per line, the texts of the line items
   (joined by the writer with a blank), plus of the metadata the title (SSA script info, TTML), the frame rate and the
   mapped language (TTML).  For every S result whose conversion is representable (stl_conv_ok: stl_plain_ok of the cues
   with the runs of each line joined by a blank - repertoire, no white space at the ends, 112 bytes, times below 100 h -,
   the metadata that travels fits the GSI block, and the frame rate is not 30: a 30 fps file has another unit and is
   covered by C05_write_read_teletext): the conversion succeeds, the STL file read back has the same cues in the same order,
   times truncated to the 40 ms frame, and per line the same text ONCE BLANKS ARE DISREGARDED (plain_nows / stl_nows: the
   writer's blank between two runs is the only difference; the read-back itself is given exactly by
   C07_conversion_into_stl). *)
From Astisub Require Import Model.Ssa Model.PlainSsa Model.Ttml Model.PlainTtml Model.ConvStl Proofs.ConvStlProofs.
Theorem C07_conversion_into_stl : forall md rv, stl_conv_ok md (rv_joined rv) ->
  exists dst, write_conv_stl (md, stl_of_runs rv) = Ok dst /\
              stl_dec dst = Ok (ptrunc 40000000 (rv_joined rv)) /\
              plain_nows (ptrunc 40000000 (rv_joined rv)) = plain_nows (ptrunc 40000000 (rv_concat rv)).
Proof. exact conversion_into_stl. Qed.
Theorem C07_srt_to_stl_styled : forall l, stl_conv_ok None (rv_joined (srt_runs l)) -> styled_into_stl (conv_srt_stl l) (srt_to_plain l).
Proof. exact srt_to_stl_styled. Qed.
Theorem C07_vtt_to_stl_styled : forall d, stl_conv_ok (fst (conv_vtt_stl d)) (rv_joined (vtt_runs d)) -> styled_into_stl (conv_vtt_stl d) (vtt_to_plain d).
Proof. exact vtt_to_stl_styled. Qed.
Theorem C07_ssa_to_stl_styled : forall d, stl_conv_ok (fst (conv_ssa_stl d)) (rv_joined (ssa_runs d)) -> styled_into_stl (conv_ssa_stl d) (ssa_to_plain d).
Proof. exact ssa_to_stl_styled. Qed.
Theorem C07_ttml_to_stl_styled : forall d, stl_conv_ok (fst (conv_ttml_stl d)) (rv_joined (ttml_runs d)) -> styled_into_stl (conv_ttml_stl d) (ttml_to_plain d).
Proof. exact ttml_to_stl_styled. Qed.
(* a TTML cue list with title, language and frame rate 25, two runs in a line, a time off the grid: converted, 1280 bytes,
   title and language code in the GSI block, read back "Hello world" for the runs "Hello" "world" *)
Example C07_into_stl_styled_example : stl_conv_ok (fst (conv_ttml_stl ex_tdoc)) (rv_joined (ttml_runs ex_tdoc)).
Proof. exact ex_tdoc_ok. Qed.
Print Assumptions C07_conversion_into_stl.
Print Assumptions C07_srt_to_stl_styled.
Print Assumptions C07_vtt_to_stl_styled.
Print Assumptions C07_ssa_to_stl_styled.
Print Assumptions C07_ttml_to_stl_styled.

(* ---- styled EBU STL SOURCES converted to WebVTT and TTML (Model/ConvStlVtt.v, ConvStlTtml.v; Proofs/ConvStlVttProofs.v,
   ConvStlTtmlProofs.v).  The source is the cue list ReadFromSTL gives for a file (C05_read_rendered says which one): every
   row is a list of runs with the italic / underline / boxing flags and, under the teletext standards, colour and double
   height; the cue carries justification and vertical position.  conv_stl_vtt / conv_stl_ttml = what WriteToWebVTT /
   WriteToTTML look at:
     - WebVTT: times; the cue settings align:... line:...% the STL reader derived from justification code and vertical
       position (ri_align, ri_line); per run the text, and of the teletext colours red / yellow / magenta / cyan a class tag
       <c.NAME> (the writer's colour table has no name for black, green #008000, blue, white: lost); italic, underline,
       boxing, double height are lost;
     - TTML: times; Metadata.Language -> xml:lang (the code of the language table), Metadata.Title -> ttm:title; per run a
       <span>, with tts:color="#rrggbb" for each of the eight teletext colours; everything else is lost (the frame rate is
       not written).  The library's bytes go through encoding/xml's EscapeText: convert_stl_ttml_go; the GSI title is a raw
       byte string, anything in it that is not XML-legal UTF-8 becomes U+FFFD (stlttml_legalb excludes it).
   Statements: for every STL file the reader accepts whose cue list is representable in the destination
   (stl_vtt_ok / stlttml_ok, decidable: at least one cue, times 0 .. MaxInt64, run texts a WebVTT cue line / a TTML span can
   hold; for WebVTT also: no two adjacent runs of one written colour class; for TTML: every cue has a line - a cue without
   lines reads back with one empty line), the conversion succeeds and the destination read back has the same cues in the
   same order, times truncated to the millisecond, and per line the text of the runs PUT TOGETHER (stl_to_plain: run texts
   concatenated).  The STL reader trims every run, so a blank the FILE has between two runs of a row (WriteToSTL puts one
   there, C07_conversion_into_stl) is not in the cue list and not in the destination: with respect to the rows of the file
   the text is equal ONCE WHITE SPACE BETWEEN RUNS IS DISREGARDED - "hello" + italic "world" in the file comes out as
   "helloworld" (ex_stlvtt_file: computed on a written file, the bytes observed on the library).
   Not covered: WebVTT with adjacent runs of the same colour class (written <c.red>a</c><c.red>b</c>; ex_stlvtt_same_readback
   computes one such case, the text is preserved there too); negative times (programme start above a time code). *)
From Astisub Require Import Model.ConvStlVtt Model.ConvStlTtml Proofs.ConvStlVttProofs Proofs.ConvStlTtmlProofs.
From Astisub Require Proofs.TtmlDocSpec.
Theorem C07_stl_to_vtt_styled : forall ign data d, read_stl ign data = Ok d -> stl_vtt_ok d ->
  exists dst, convert_stl_vtt ign data = Ok dst /\ vtt_dec dst = Ok (ptrunc 1000000 (stl_to_plain d)).
Proof. exact conversion_stl_vtt_file. Qed.
Theorem C07_stl_to_ttml_styled : forall ign data d, read_stl ign data = Ok d -> stlttml_ok d -> stlttml_legalb d = true ->
  exists dst, convert_stl_ttml_go ign data = Ok dst /\ ttml_dec dst = Ok (ptrunc 1000000 (stl_to_plain d)).
Proof. exact conversion_stl_ttml_styled_go. Qed.
(* the TTML destination read back as a document: title, mapped language, colours and run boundaries are there *)
Theorem C07_stl_to_ttml_styled_doc : forall d : rdoc, stlttml_ok d ->
  exists dst, write_ttml_bytes ttml_default_indent (conv_stl_ttml d) = Ok dst /\
              read_ttml_bytes dst
              = Ok (mkDoc (Some (mkMeta 0 (rd_title d) [] (TtmlDocSpec.written_lang (rd_lang d)))) [] []
                          (map (fun it => mkItem (TtmlDocSpec.trunc_ms (ri_st it)) (TtmlDocSpec.trunc_ms (ri_en it)) None None no_attrs
                                                 (map (map stlttml_run) (ri_lines it))) (rd_items d))).
Proof. intros d Hd. apply conversion_stl_ttml_styled_doc. rewrite stlttml_repr_eq. exact Hd. Qed.
(* a written file with "hello" and italic boxed "world" in a row, justification right, vertical position 18 (ex_stlvtt_file
   has the WebVTT bytes, with  align:right line:73%  and "helloworld"): its cue list is in the domain, two runs then one *)
Example C07_stl_to_vtt_styled_example :
  match ex_stlvtt_src with
  | Ok data => match read_stl false data with
               | Ok d => stl_vtt_ok d /\ map (fun it => map (fun l => length l) (ri_lines it)) (rd_items d) = [[2%nat; 1%nat]]
               | _ => False
               end
  | _ => False
  end.
Proof. vm_compute. split; reflexivity. Qed.
Print Assumptions C07_stl_to_vtt_styled.
Print Assumptions C07_stl_to_ttml_styled.
Print Assumptions C07_stl_to_ttml_styled_doc.
(* STYLED teletext sources into the five writers (Model/ConvTtx.v; byte-level correspondence against the library through
   the file API in harness/plain_ttx.go, suite convstyledttx).  ds is ANY delivered list the reader accepts
   (ttx_feed 0 ds = Ok cs: page auto-detection; with C06_stream_page_auto cs is cues_of for every stream of the class of
   C06): colour codes, double height / width / size, several runs per row, spaces in front of and behind the texts.
   conv_ttx_F is what the library hands to the writer of F: per run the text (the reader trimmed it) and a non-nil style
   carrying the teletext colour and size flags.  What each writer does with it, exactly:
   - srt, ssa: no teletext attribute is written (none of the four SubRip attributes / no override block); the runs of a line
     are written one after the other.  vtt: same, a colour the writer has a class for becomes <c.CLASS>..</c>.  The bytes are
     those of the PLAIN document whose line text is the run texts put together with NOTHING in between (ttx_to_plain): the
     file reads back as ptrunc unit (ttx_to_plain cs).  No byte of text is lost; a word boundary that was on the page only as
     the attribute cell (displayed as a space) between two runs, or as spaces next to it, is not in the run texts the reader
     returns and so is not in the file: "Hello" <red> "red" reads back "Hellored".  This is inside C07's tolerance ("the same
     text once inter-run whitespace is disregarded") and is recorded as an observation in notes/C06.md.
   - stl: the writer joins the runs of a line with ONE space: the file reads back as the run texts joined with a single
     space (ttx_to_plain_spaced), whatever number of spaces / attribute cells was between them on the page; the two views
     are equal once spaces are disregarded (C07_ttx_spaced_nosp: the normalisation is "delete every byte 0x20").
   - ttml: one span per run (tts:color from the teletext colour), reads back with the run texts put together.
   runs_whole: no run text ends with the byte 0xC2 (the writers escape each run on its own and U+00A0 = C2 A0 is the only
   escaped sequence longer than a byte; run texts of the reader are whole characters).
   WebVTT is PARTIAL: proved for cues whose runs have no colour or one without a WebVTT class (black, green, blue, white);
   the full statement is the same without cues_classless.  Red / yellow / magenta / cyan: correspondence only. *)
From Astisub Require Import Model.TtxRow Model.Ttx Model.ConvTtx Proofs.ConvTtxProofs Proofs.ConvTtxProofs2 Proofs.ConvTtxExamples.
Theorem C07_ttx_to_srt_styled : forall ds cs, ttx_feed 0 ds = Ok cs -> runs_whole cs = true -> srt_plain_ok (ttx_to_plain cs) ->
  exists dst, convert_ttx_srt ds = Ok dst /\ srt_dec dst = Ok (ptrunc 1000000 (ttx_to_plain cs)).
Proof. exact ttx_to_srt_styled. Qed.
Print Assumptions C07_ttx_to_srt_styled.
Theorem C07_ttx_to_ssa_styled : forall ds cs, ttx_feed 0 ds = Ok cs -> ssa_plain_ok (ttx_to_plain cs) ->
  exists dst, convert_ttx_ssa ds = Ok dst /\ ssa_dec dst = Ok (ptrunc ssa_unit (ttx_to_plain cs)).
Proof. exact ttx_to_ssa_styled. Qed.
Print Assumptions C07_ttx_to_ssa_styled.
Theorem C07_ttx_to_ttml_styled : forall ds cs, ttx_feed 0 ds = Ok cs -> TtmlDocSpec.repr_doc (conv_ttx_ttml cs) = true ->
  exists dst d', convert_ttx_ttml ds = Ok dst /\ read_ttml_bytes dst = Ok d' /\ ttml_to_plain d' = ptrunc 1000000 (ttx_to_plain cs).
Proof. exact ttx_to_ttml_styled. Qed.
Print Assumptions C07_ttx_to_ttml_styled.
Theorem C07_ttx_to_stl_styled : forall ds cs, ttx_feed 0 ds = Ok cs -> stl_plain_ok (ttx_to_plain_spaced cs) ->
  exists dst, convert_ttx_stl ds = Ok dst /\ stl_dec dst = Ok (ptrunc stl_plain_unit (ttx_to_plain_spaced cs)).
Proof. exact ttx_to_stl_styled. Qed.
Print Assumptions C07_ttx_to_stl_styled.
Theorem C07_ttx_stl_single_run : forall cs, Forall (fun c => Forall (fun l : list trunT => length l = 1%nat) (c_lines c)) cs ->
  ttx_to_plain_spaced cs = ttx_to_plain cs.
Proof. exact spaced_single. Qed.
Print Assumptions C07_ttx_stl_single_run.
Theorem C07_ttx_spaced_nosp : forall cs, plain_nosp (ttx_to_plain_spaced cs) = plain_nosp (ttx_to_plain cs).
Proof. exact spaced_nosp. Qed.
Print Assumptions C07_ttx_spaced_nosp.
Theorem C07_ttx_to_vtt_styled_partial : forall ds cs, ttx_feed 0 ds = Ok cs -> cues_classless cs = true -> runs_whole cs = true ->
  vtt_plain_ok (ttx_to_plain cs) ->
  exists dst, convert_ttx_vtt ds = Ok dst /\ vtt_dec dst = Ok (ptrunc 1000000 (ttx_to_plain cs)).
Proof. exact ttx_to_vtt_styled_partial. Qed.
Print Assumptions C07_ttx_to_vtt_styled_partial.
(* non-vacuity: a two-cue page 888 stream: row 1 "Hello" / red "red" / white " white  ", row 2 double height green "green";
   then cyan double size "BIG"; an erase page.  Three runs, one run, one run; the texts that come back written out *)
Example C07_ttx_styled_example_source : ttx_feed 0 ex_styled = Ok ex_styled_cs /\
  map (fun c => (c_st c, c_en c, map (map (fun r : trunT => (tr_text r, ts_color (tr_sty r), ts_dh (tr_sty r)))) (c_lines c))) ex_styled_cs =
  [ (0%Z, 2000000000%Z, [ [([72;101;108;108;111], None, None); ([114;101;100], Some 1, None); ([119;104;105;116;101], Some 7, None)];
                         [([103;114;101;101;110], Some 2, Some true)] ]);
    (2000000000%Z, 3500000000%Z, [ [([66;73;71], Some 6, None)] ]) ]%N.
Proof. split; [exact ex_styled_feed | exact ex_styled_shape]. Qed.
Example C07_ttx_styled_example_srt : exists dst, convert_ttx_srt ex_styled = Ok dst /\
  srt_dec dst = Ok [ (0%Z, 2000000000%Z, [[72;101;108;108;111;114;101;100;119;104;105;116;101]; [103;114;101;101;110]]); (2000000000%Z, 3500000000%Z, [[66;73;71]]) ]%N.
Proof. exact ex_styled_to_srt. Qed.
Example C07_ttx_styled_example_ssa : exists dst, convert_ttx_ssa ex_styled = Ok dst /\
  ssa_dec dst = Ok [ (0%Z, 2000000000%Z, [[72;101;108;108;111;114;101;100;119;104;105;116;101]; [103;114;101;101;110]]); (2000000000%Z, 3500000000%Z, [[66;73;71]]) ]%N.
Proof. exact ex_styled_to_ssa. Qed.
Example C07_ttx_styled_example_ttml : exists dst d', convert_ttx_ttml ex_styled = Ok dst /\ read_ttml_bytes dst = Ok d' /\
  ttml_to_plain d' = [ (0%Z, 2000000000%Z, [[72;101;108;108;111;114;101;100;119;104;105;116;101]; [103;114;101;101;110]]); (2000000000%Z, 3500000000%Z, [[66;73;71]]) ]%N.
Proof. exact ex_styled_to_ttml. Qed.
Example C07_ttx_styled_example_stl : exists dst, convert_ttx_stl ex_styled = Ok dst /\
  stl_dec dst = Ok [ (0%Z, 2000000000%Z, [[72;101;108;108;111;32;114;101;100;32;119;104;105;116;101]; [103;114;101;101;110]]); (2000000000%Z, 3480000000%Z, [[66;73;71]]) ]%N.
Proof. exact ex_styled_to_stl. Qed.
Example C07_ttx_styled_example_vtt : cues_classless ex_classless_cs = true /\ exists dst, convert_ttx_vtt ex_classless = Ok dst /\
  vtt_dec dst = Ok [ (0%Z, 2000000000%Z, [[72;101;108;108;111;98;108;117;101;119;104;105;116;101]; [103;114;101;101;110]]); (2000000000%Z, 3500000000%Z, [[66;73;71]]) ]%N.
Proof. split; [exact (proj1 ex_classless_ok) | exact ex_classless_to_vtt]. Qed.

(* ---- CORRECTION to the comment above C07_vtt_to_srt (second audit, item (i)6), and the wider theorem ----
   The comment says "voices, comments, settings, regions, inline timestamps are fine".  Inline timestamps are NOT: a
   timestamp splits a line into two untagged runs, conv_vs then has two adjacent unstyled SubRip runs, which repr_item
   excludes (no_adj).  C07_vtt_to_srt therefore covers exactly the documents whose every line is ONE untagged run (voices,
   comments, settings, regions are fine).  The theorem below covers the rest: the SubRip writer emits an attribute-less
   styled run exactly like an unstyled one, so the library's bytes are those of the MERGED conversion conv_vs_m (each line
   one unstyled run holding the line's text; C07_vtt_to_srt_merged_bytes) provided no run text ends with the byte 0xC2
   (vs_join_ok: the writer escapes run by run and the no-break space is C2 A0; every valid UTF-8 text satisfies it), and
   the representability hypothesis is asked of conv_vs_m.  Tags, classes, voices, inline timestamps, settings, regions,
   comments, STYLE blocks are all covered (C07_vtt_to_srt_styled_example: the worked document of C02, for which conv_vs is
   not representable). *)
From Astisub Require Import Proofs.ConvVttSrtStyled.
Theorem C07_vtt_to_srt_merged_bytes : forall d, vs_join_ok d = true -> write_srt (conv_vs d) = write_srt (conv_vs_m d).
Proof. exact write_conv_vs_m. Qed.
Print Assumptions C07_vtt_to_srt_merged_bytes.
Theorem C07_vtt_to_srt_styled : forall d so ro,
  repr_vdoc d so ro -> vs_join_ok d = true -> Forall repr_item (conv_vs_m (ndoc d so ro)) ->
  exists vtt srt l', write_vtt d so ro = Ok vtt /\ convert_vtt_srt vtt = Ok srt /\ read_srt srt = Ok l' /\
                     map sview l' = map vview_ms (vd_items (ndoc d so ro)) /\
                     length l' = length (vd_items d).
Proof. exact vtt_to_srt_styled. Qed.
Print Assumptions C07_vtt_to_srt_styled.
Example C07_vtt_to_srt_styled_example :
  repr_vdoc VttDoc.ex_doc VttDoc.ex_so VttDoc.ex_ro /\ vs_join_ok VttDoc.ex_doc = true /\ Forall repr_item (conv_vs_m (ndoc VttDoc.ex_doc VttDoc.ex_so VttDoc.ex_ro)) /\
  forallb repr_itemb (conv_vs (ndoc VttDoc.ex_doc VttDoc.ex_so VttDoc.ex_ro)) = false.
Proof. exact ex_vtt_to_srt_styled_hyps. Qed.

(* ---- CORRECTION to the header of this file (second audit, N14) ----
   The header ends with "The other format pairs and the CLI are decided on the implementation by the harness ...:
   correspondence/exploration, not proof."  That sentence is stale: every pair among SubRip, WebVTT, SSA/ASS, EBU STL, TTML
   (and teletext as a source) is covered by C07_pair / C07_pair_ops / C07_any_source with the C07_*_plain_faithful
   instances (unstyled content, any operation sequence), the command-line tool by C07_cli, and styled sources by the
   C07_*_styled theorems of this file (srt->vtt, vtt->srt, ssa<->vtt, ttml->vtt, ttml->ssa, stl / ttml / ssa -> srt, and the
   pairs of the STL and TTML slices), each tied to the library by a byte comparison on generated styled sources. *)
