From Astisub Require Import Kit.Base.
Theorem C07_placeholder : True. Proof. exact I. Qed.
