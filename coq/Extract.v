(* Extraction of the executable models: ExtrOcamlBasic only; N, Z, positive stay inductive. *)
Require Extraction.
Require Import ExtrOcamlBasic.
From Coq Require Import ZArith NArith.
From Astisub Require Import Kit.Base Kit.Str Kit.Float64 Kit.Scan Kit.Html Model.Ops Model.Dur Model.Lin Model.Srt Model.Files Model.Vtt Model.Conv Model.ConvOps Model.Plain Model.PlainOps Model.Cli Model.TtxRow Model.Ttx Model.TtxSpec Model.Ssa Kit.Float64x Kit.Xml Model.Ttml Kit.XmlParse Kit.Utf8 Model.Stl Model.PlainSsa Model.SrtC Model.VttC Model.PlainStl Kit.IOW Model.StlIO Kit.Chk Model.StlC Model.PlainTtml Model.TtmlOpt Model.PlainTtx Kit.XmlParse2 Proofs.TtmlRender Proofs.TtmlRenderEx Model.TtxHam Kit.XmlEsc Model.TtmlGo Model.ConvTtml Model.TtmlC Model.SsaC Model.ConvStl Model.ConvStlVtt Model.ConvStlTtml Model.ConvTtx Model.TtxFull Kit.Int64 Model.Ops64 Model.StlCW.
From Astisub Require Import Kit.ScanLim Model.ConvSsaVtt Model.ConvTtmlSsa Model.ConvTtmlVtt Model.ConvVttSsa Proofs.ConvTtmlSsaProofs.
Extraction "model.ml"
  Z.add Z.mul Z.opp Z.div Z.modulo Z.of_N Z.to_N N.add N.mul
  order merge add_dur force_duration fragment unfragment optimize remove_styling item_text
  add_dur64 force_duration64 fragment64 linear_correction64
  format_duration parse_duration parse_srt format_stl format_stl_bytes parse_stl parse_stl_bytes
  trim_space split_byte atoi itoa_z fields
  lin linear_correction frac_float
  lines scan read_n tokenize html_simple
  read_srt_c read_srt_lines_c write_srt_c read_vtt_c read_vtt_lines_c write_vtt_c
  read_srt read_srt_lines write_srt parse_text_srt escape_html unescape_html
  reader_for writer_for
  read_vtt write_vtt parse_text_vtt vtt_line_simple
  convert_srt_vtt convert_vtt_srt
  convert_srt_ops_srt convert_srt_ops_vtt
  convert_plain srt_enc srt_dec vtt_enc vtt_dec ptrunc convert_plain_ops ops_plain cli_run cli_ops
  convert_plain srt_enc srt_dec vtt_enc vtt_dec ptrunc ssa_enc ssa_dec
  ttx_feed ttx_parse_row
  mux_ok mux_ok_auto cues_of events pes_ok pes_units tmin tmax zero_or
  inst_mux_ok is_our_header body_ok rowspec_ok is_our_row benign neutral_unit dead_ok is_terminator unselected_ok row_cells
  ttx_enc ttx_dec ttx_plain_okb desig_final desig_ok ham2418_word ham2418_dec_word
  convert_ttx_srt convert_ttx_vtt convert_ttx_ssa convert_ttx_stl convert_ttx_ttml
  read_ssa read_ssa_lines write_ssa write_ssa_chunks style_keys style_from_string style_string event_from_string event_string
  find_sattr sattrs_all find_eattr eattrs_all parse_color format_color parse_bool parse_float3 format_float3 format_float_short
  parse_time text_lines item_text_ssa item_name event_item event_of_item info_parse info_bytes segments
  read_ssa_c read_ssa_lines_c write_ssa_c write_ssa_chunks_c write_ssa_items_c style_from_string_c style_string_c event_from_string_c event_string_c
  parse_color_c parse_time_c text_lines_c event_item_c event_of_item_c info_bytes_c
  ttml_time time_simple read_ttml doc_time_simple write_ttml write_ttml_bytes indent_doc format_ttml xml_parse ttml_enc ttml_dec ttml_dec2 ttml_optimize render_ttml denote_ttml ex_rendering ex_model xml_parse2 write_ttml_bytes_go xml_legal convert_srt_ttml convert_vtt_ttml convert_ssa_ttml read_ttml_c write_ttml_c wdoc_proj ttml_unmarshal_c propagate_c print_node_go
  read_stl read_faithful write_stl write_faithful encode_text_stl text_faithful decode_bytes open_row stl_ttx_row
  parse_gsi gsi_faithful gsi_bytes parse_tti tti_bytes new_gsi new_tti sattr0_stl time_faithful stl_enc stl_dec read_stl_sched read_stl_fail_at write_stl_to read_stl_c write_stl_c encode_text_stl_c open_row_c stl_ttx_row_c parse_gsi_c gsi_bytes_c parse_tti_c tti_bytes_c decode1_c convert_srt_stl convert_vtt_stl convert_ssa_stl convert_ttml_stl convert_stl_vtt convert_stl_ttml_go
  tf_of tf_reads tf_oneshot
  parse_gsi gsi_faithful gsi_bytes parse_tti tti_bytes new_gsi new_tti sattr0_stl time_faithful stl_enc stl_dec read_stl_sched read_stl_fail_at write_stl_to read_stl_c write_stl_c encode_text_stl_c open_row_c stl_ttx_row_c parse_gsi_c gsi_bytes_c parse_tti_c tti_bytes_c decode1_c convert_srt_stl convert_vtt_stl convert_ssa_stl convert_ttml_stl convert_stl_vtt convert_stl_ttml_go write_stl_items_c item_flat read_stl_fail_at_wd
  convert_ttml_ssa convert_ttml_ssa_by ttml_ssa_okb read_ttml_bytes2 convert_ssa_vtt convert_vtt_ssa convert_ttml_vtt scan_lim.
