(* Extraction of the executable models: ExtrOcamlBasic only; N, Z, positive stay inductive. *)
Require Extraction.
Require Import ExtrOcamlBasic.
From Coq Require Import ZArith NArith.
From Astisub Require Import Kit.Base Kit.Str Kit.Float64 Kit.Scan Kit.Html Model.Ops Model.Dur Model.Lin Model.Srt Model.Files Model.Vtt Model.Conv Kit.Utf8 Model.Stl.
Extraction "model.ml"
  Z.add Z.mul Z.opp Z.div Z.modulo Z.of_N Z.to_N N.add N.mul
  order merge add_dur force_duration fragment unfragment optimize remove_styling item_text
  format_duration parse_duration parse_srt format_stl format_stl_bytes parse_stl parse_stl_bytes
  trim_space split_byte atoi itoa_z fields
  lin linear_correction frac_float
  lines scan read_n tokenize html_simple
  read_srt read_srt_lines write_srt parse_text_srt escape_html unescape_html
  reader_for writer_for
  read_vtt write_vtt parse_text_vtt vtt_line_simple
  convert_srt_vtt convert_vtt_srt
  read_stl read_faithful write_stl write_faithful encode_text_stl text_faithful decode_bytes open_row stl_ttx_row
  parse_gsi gsi_faithful gsi_bytes parse_tti tti_bytes new_gsi new_tti eattr0 time_faithful.
