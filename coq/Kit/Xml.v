(* XML at the level of the token tree that encoding/xml delivers: elements with a (space, local) name,
   attributes in document order, children = character data | element.  The encoding/xml layer itself
   (bytes <-> this tree) is a named contract of the trusted base; the TTML model works on the tree.
   Definitions only. *)
From Coq Require Import List ZArith NArith Bool.
From Astisub Require Import Kit.Base Kit.Str.
Import ListNotations.
Open Scope N_scope.

Record xname := mkName { x_space : str; x_local : str }.
Definition xattr : Type := xname * str.

Inductive xnode :=
| XText (s : str)
| XElem (name : xname) (attrs : list xattr) (kids : list xnode).

Definition xname_eqb (a b : xname) : bool := str_eqb (x_space a) (x_space b) && str_eqb (x_local a) (x_local b).

(* ---- matching by local name (struct tags without a namespace match any namespace) ---- *)
(* every value of the attributes whose local name is [l], in document order *)
Fixpoint attr_vals (l : str) (attrs : list xattr) : list str :=
  match attrs with
  | [] => []
  | (n, v) :: r => if str_eqb (x_local n) l then v :: attr_vals l r else attr_vals l r
  end.
(* the decoder assigns the field once per matching attribute: the last one stays *)
Definition attr_last (l : str) (attrs : list xattr) : option str := last (map Some (attr_vals l attrs)) None.
Definition attr_str (l : str) (attrs : list xattr) : str := match attr_last l attrs with Some v => v | None => [] end.

Definition elem_kids (n : xnode) : list xnode := match n with XElem _ _ k => k | XText _ => [] end.
Definition elem_attrs (n : xnode) : list xattr := match n with XElem _ a _ => a | XText _ => [] end.
Definition is_elem_named (l : str) (n : xnode) : bool :=
  match n with XElem nm _ _ => str_eqb (x_local nm) l | XText _ => false end.
(* child elements with local name [l], in document order *)
Definition kids_named (l : str) (kids : list xnode) : list xnode := filter (is_elem_named l) kids.
(* elements reached from [kids] through the path of local names [path] (a>b>c of a struct tag) *)
Fixpoint path_elems (path : list str) (kids : list xnode) : list xnode :=
  match path with
  | [] => []
  | [l] => kids_named l kids
  | l :: p => flat_map (fun n => path_elems p (elem_kids n)) (kids_named l kids)
  end.
(* a string field: the character data directly inside the element *)
Definition direct_text (kids : list xnode) : str :=
  flat_map (fun k => match k with XText s => s | XElem _ _ _ => [] end) kids.

(* XML white space (production S): the only characters that can be indentation between tags *)
Definition is_xml_space (c : byte) : bool := (c =? 32) || (c =? 9) || (c =? 13) || (c =? 10).
(* strings.TrimLeft(s, " \t\r\n") *)
Fixpoint trim_left_xml (s : str) : str :=
  match s with
  | c :: r => if is_xml_space c then trim_left_xml r else s
  | [] => []
  end.
(* len(strings.Trim(s, " \t\r\n")) == 0 *)
Definition blank_xml (s : str) : bool := forallb is_xml_space s.

(* ---- induction principle for the nested type ---- *)
Section XInd.
  Variable P : xnode -> Prop.
  Hypothesis Ptext : forall s, P (XText s).
  Hypothesis Pelem : forall nm a ks, Forall P ks -> P (XElem nm a ks).
  Fixpoint xnode_ind' (n : xnode) : P n :=
    match n with
    | XText s => Ptext s
    | XElem nm a ks =>
      Pelem nm a ks ((fix go (l : list xnode) : Forall P l :=
                        match l with [] => Forall_nil P | k :: r => Forall_cons k (xnode_ind' k) (go r) end) ks)
    end.
End XInd.

(* ---- serialisation as xml.Encoder prints it (EscapeText; explicit end tags; Indent("", indent)) ---- *)
Definition esc_byte (c : byte) : str :=
  if c =? 34 then [38;35;51;52;59]            (* &#34; *)
  else if c =? 39 then [38;35;51;57;59]       (* &#39; *)
  else if c =? 38 then [38;97;109;112;59]     (* &amp; *)
  else if c =? 60 then [38;108;116;59]        (* &lt; *)
  else if c =? 62 then [38;103;116;59]        (* &gt; *)
  else if c =? 9 then [38;35;120;57;59]       (* &#x9; *)
  else if c =? 10 then [38;35;120;65;59]      (* &#xA; *)
  else if c =? 13 then [38;35;120;68;59]      (* &#xD; *)
  else [c].
Definition esc_text (s : str) : str := flat_map esc_byte s.

(* an attribute as the encoder prints it: space, name, ="escaped value" *)
Definition print_attr (pname : xname -> str) (a : xattr) : str :=
  [32] ++ pname (fst a) ++ [61; 34] ++ esc_text (snd a) ++ [34].
Definition is_elem (n : xnode) : bool := match n with XElem _ _ _ => true | XText _ => false end.
(* Encoder.Indent("", ind) seen on the tree: a line break and depth-many [ind] before every start tag, and
   before an end tag that does not directly follow its start tag or character data; nothing at all when
   [ind] is empty.  Meant for trees whose elements have either element children only or at most one text child. *)
Fixpoint indent_tree (ind : str) (d : nat) (n : xnode) : xnode :=
  match n with
  | XText s => XText s
  | XElem nm al ks =>
    if existsb is_elem ks
    then XElem nm al (flat_map (fun k => [XText (10 :: concat (repeat ind (S d))); indent_tree ind (S d) k]) ks
                      ++ [XText (10 :: concat (repeat ind d))])
    else XElem nm al ks
  end.
Definition indent_doc (ind : str) (n : xnode) : xnode := match ind with [] => n | _ => indent_tree ind 0 n end.
(* the bytes of a tree as the encoder prints it with Indent("", ind): explicit end tags, EscapeText on
   character data and attribute values, raw indentation; [pname] prints a name (prefix:local).
   Parsing these bytes gives [indent_doc ind n] (XML-layer contract). *)
Definition indent_str (ind : str) (d : nat) : str := match ind with [] => [] | _ => 10 :: concat (repeat ind d) end.
Fixpoint print_node (pname : xname -> str) (ind : str) (d : nat) (n : xnode) : str :=
  match n with
  | XText s => esc_text s
  | XElem nm al ks =>
    [60] ++ pname nm ++ flat_map (print_attr pname) al ++ [62]
    ++ (if existsb is_elem ks
        then flat_map (fun k => indent_str ind (S d) ++ print_node pname ind (S d) k) ks ++ indent_str ind d
        else flat_map (print_node pname ind (S d)) ks)
    ++ [60; 47] ++ pname nm ++ [62]
  end.
