(* Ranging over a Go map: the keys arrive in an arbitrary order.  The writers that must be deterministic
   collect the keys, sort them, and then look the values up.  Generic model and its order-independence. *)
From Coq Require Import List NArith Bool Lia Permutation Sorted.
From Astisub Require Import Kit.Base.
Import ListNotations.
Open Scope N_scope.

Fixpoint ninsert (x : N) (l : list N) : list N :=
  match l with
  | [] => [x]
  | y :: r => if x <=? y then x :: l else y :: ninsert x r
  end.
Definition nsort (l : list N) : list N := fold_right ninsert [] l.

(* [order] = the iteration order the runtime happens to choose for the keys of [m] *)
Definition range_sorted {V A} (m : list (N * V)) (order : list N) (f : A -> N -> option V -> A) (a : A) : A :=
  fold_left (fun acc k => f acc k (alookup k m)) (nsort order) a.

Definition nsorted (l : list N) := StronglySorted N.le l.

Lemma ninsert_perm x l : Permutation (x :: l) (ninsert x l).
Proof.
  induction l as [|y r IH]; cbn [ninsert]; [reflexivity|].
  destruct (x <=? y); [reflexivity|]. rewrite perm_swap. constructor. exact IH.
Qed.
Lemma nsort_perm l : Permutation l (nsort l).
Proof. induction l as [|x r IH]; cbn [nsort fold_right]; [constructor|]. etransitivity; [|apply ninsert_perm]. constructor. exact IH. Qed.
Lemma ninsert_sorted x l : nsorted l -> nsorted (ninsert x l).
Proof.
  induction l as [|y r IH]; intros Hs; cbn [ninsert]; [repeat constructor|].
  apply StronglySorted_inv in Hs as Hs'. destruct Hs' as [Hr Hy].
  destruct (x <=? y) eqn:C.
  - apply N.leb_le in C. constructor; [exact Hs|]. constructor; [exact C|].
    rewrite Forall_forall in *. intros z Hz. specialize (Hy z Hz). lia.
  - apply N.leb_gt in C. constructor; [apply IH; exact Hr|].
    rewrite Forall_forall in *. intros z Hz.
    apply (Permutation_in _ (Permutation_sym (ninsert_perm x r))) in Hz. destruct Hz as [<-|Hz]; [lia | auto].
Qed.
Lemma nsort_sorted l : nsorted (nsort l).
Proof. induction l as [|x r IH]; cbn [nsort fold_right]; [constructor|]. apply ninsert_sorted. exact IH. Qed.

Lemma sorted_perm_eq l1 : forall l2, nsorted l1 -> nsorted l2 -> Permutation l1 l2 -> l1 = l2.
Proof.
  induction l1 as [|a r1 IH]; intros l2 S1 S2 P.
  - apply Permutation_nil in P. subst. reflexivity.
  - destruct l2 as [|b r2]; [apply Permutation_sym, Permutation_nil in P; discriminate|].
    apply StronglySorted_inv in S1 as S1'. destruct S1' as [Sr1 Ha]. apply StronglySorted_inv in S2 as S2'. destruct S2' as [Sr2 Hb].
    assert (Hab : a = b).
    { assert (Ia : In a (b :: r2)) by (eapply Permutation_in; [exact P | left; reflexivity]).
      assert (Ib : In b (a :: r1)) by (eapply Permutation_in; [apply Permutation_sym; exact P | left; reflexivity]).
      rewrite Forall_forall in Ha, Hb.
      destruct Ia as [E|Ia]; [symmetry; exact E|]. destruct Ib as [E|Ib]; [exact E|].
      specialize (Ha b Ib). specialize (Hb a Ia). lia. }
    subst b. f_equal. apply IH; [exact Sr1 | exact Sr2 | eapply Permutation_cons_inv; exact P].
Qed.

(* sorting forgets the iteration order *)
Theorem nsort_order_independent l l' : Permutation l l' -> nsort l = nsort l'.
Proof.
  intros P. apply sorted_perm_eq; [apply nsort_sorted | apply nsort_sorted |].
  etransitivity; [apply Permutation_sym, nsort_perm|]. etransitivity; [exact P | apply nsort_perm].
Qed.

Theorem range_sorted_independent {V A} (m : list (N * V)) (order order' : list N) (f : A -> N -> option V -> A) (a : A) :
  Permutation order order' -> range_sorted m order f a = range_sorted m order' f a.
Proof. intros P. unfold range_sorted. rewrite (nsort_order_independent _ _ P). reflexivity. Qed.
