(* Checked accesses: the Go operations that panic at run time when their operand is out of range or nil, as explicit
   [Panic site] results.  The checked transcriptions (Model/SrtC.v, Model/VttC.v) use them behind the same guards as
   the Go code, so that a guard missing in the model makes [Panic] reachable.  Definitions only. *)
From Coq Require Import List NArith Bool Arith Lia.
From Astisub Require Import Kit.Base.
Import ListNotations.

(* l[i] *)
Definition index {A} (l : list A) (i : nat) (site : N) : res A :=
  match nth_error l i with Some x => Ok x | None => Panic site end.
(* l[:n] *)
Definition slice_to {A} (l : list A) (n : nat) (site : N) : res (list A) :=
  if Nat.leb n (length l) then Ok (firstn n l) else Panic site.
(* l[n:] *)
Definition slice_from {A} (l : list A) (n : nat) (site : N) : res (list A) :=
  if Nat.leb n (length l) then Ok (skipn n l) else Panic site.
(* *p, p.field *)
Definition deref {A} (p : option A) (site : N) : res A :=
  match p with Some x => Ok x | None => Panic site end.
Definition is_some {A} (p : option A) : bool := match p with Some _ => true | None => false end.
(* l[i] = x (the list is left unchanged when i is out of range: the callers check the index first) *)
Fixpoint set_nth {A} (l : list A) (i : nat) (x : A) : list A :=
  match l, i with
  | [], _ => []
  | _ :: r, O => x :: r
  | y :: r, S j => y :: set_nth r j x
  end.

(* a Go slice of pointers whose elements may be nil, e.g. Subtitles.Items : []*Item; nonNilItems (subtitles.go) keeps
   the non-nil elements in order, and every writer starts with it *)
Fixpoint somes {A} (l : list (option A)) : list A :=
  match l with [] => [] | Some x :: r => x :: somes r | None :: r => somes r end.
Lemma somes_map_Some {A} (l : list A) : somes (map Some l) = l.
Proof. induction l as [|x r IH]; [reflexivity|]. cbn [map somes]. rewrite IH. reflexivity. Qed.
Lemma somes_app {A} (a b : list (option A)) : somes (a ++ b) = somes a ++ somes b.
Proof. induction a as [|[x|] r IH]; cbn [app somes]; [reflexivity | rewrite IH; reflexivity | exact IH]. Qed.

(* ---- the Go int len(l)-1 (second audit, N6) ----
   With nat subtraction 0 - 1 = 0, so [slice_to l (length l - 1) site] is [Ok []] for the empty list, where the Go
   expression l[:len(l)-1] has the bound -1 and panics (slice bounds out of range [:-1]): a site written that way can
   never fire and the guard in front of it carries nothing.  The predecessor is therefore a checked operation itself. *)
(* the Go int n-1 used as an index or slice bound: -1, hence out of range whatever the slice, when n = 0 *)
Definition idx_pred (n : nat) (site : N) : res nat := match n with O => Panic site | S k => Ok k end.
(* l[:len(l)-1] *)
Definition slice_to_pred {A} (l : list A) (site : N) : res (list A) :=
  do k <- idx_pred (length l) site; slice_to l k site.
Lemma slice_to_pred_nil {A} site : slice_to_pred (@nil A) site = Panic site.
Proof. reflexivity. Qed.
Lemma slice_to_pred_app1 {A} (P : list A) x site : slice_to_pred (P ++ [x]) site = Ok P.
Proof.
  unfold slice_to_pred. rewrite app_length. cbn [length]. rewrite Nat.add_1_r. cbn [idx_pred bind]. unfold slice_to.
  rewrite app_length. cbn [length]. destruct (Nat.leb (length P) (length P + 1)) eqn:E; [|apply Nat.leb_gt in E; lia].
  rewrite firstn_app, Nat.sub_diag, firstn_all. cbn [firstn]. rewrite app_nil_r. reflexivity.
Qed.
Lemma slice_to_pred_removelast {A} (l : list A) site : l <> [] -> slice_to_pred l site = Ok (removelast l).
Proof.
  intros H. destruct (exists_last H) as (P & x & ->). rewrite slice_to_pred_app1, removelast_last. reflexivity.
Qed.
