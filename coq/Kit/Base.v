(* Go-semantics kit, base: result type, byte strings, association lists ("Go maps"). *)
From Coq Require Import List ZArith NArith Bool.
Import ListNotations.

Definition byte := N.
Definition str := list byte.

Inductive errkind := EInvalidExt | ENothingToWrite | EParse | EIO | ETooLong | EUnknownRef | EOther.
Inductive res (A : Type) := Ok (a : A) | Err (k : errkind) | Panic (site : N).
Arguments Ok {A} a. Arguments Err {A} k. Arguments Panic {A} site.

Definition bind {A B} (r : res A) (f : A -> res B) : res B :=
  match r with Ok a => f a | Err k => Err k | Panic s => Panic s end.
Notation "'do' x <- r ; k" := (bind r (fun x => k)) (at level 200, x name, r at level 100, k at level 200).

Fixpoint str_eqb (a b : str) : bool :=
  match a, b with
  | [], [] => true
  | x :: a', y :: b' => N.eqb x y && str_eqb a' b'
  | _, _ => false
  end.

Lemma str_eqb_eq a b : str_eqb a b = true <-> a = b.
Proof.
  revert b; induction a as [|x a IH]; intros [|y b]; simpl; split; intros H; try reflexivity; try discriminate.
  - apply andb_true_iff in H. destruct H as [H1 H2]. apply N.eqb_eq in H1. apply IH in H2. congruence.
  - inversion H; subst. rewrite N.eqb_refl. simpl. apply IH. reflexivity.
Qed.

Lemma str_eqb_refl a : str_eqb a a = true.
Proof. apply str_eqb_eq. reflexivity. Qed.

Definition opt_eqb (a b : option N) : bool :=
  match a, b with None, None => true | Some x, Some y => N.eqb x y | _, _ => false end.

(* Go map with N keys: association list, keys unique; [None] = nil map. *)
Fixpoint alookup {V} (k : N) (m : list (N * V)) : option V :=
  match m with
  | [] => None
  | (k', v) :: r => if N.eqb k k' then Some v else alookup k r
  end.
Definition amem {V} (k : N) (m : list (N * V)) : bool :=
  match alookup k m with Some _ => true | None => false end.
Fixpoint adelete {V} (k : N) (m : list (N * V)) : list (N * V) :=
  match m with
  | [] => []
  | (k', v) :: r => if N.eqb k k' then adelete k r else (k', v) :: adelete k r
  end.
Definition nmem (k : N) (l : list N) : bool := existsb (N.eqb k) l.
