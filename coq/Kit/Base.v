(* Go-semantics kit, base: result type, byte strings, association lists ("Go maps"). *)
From Coq Require Import List ZArith NArith Bool.
Import ListNotations.

(* notations, not definitions: [rewrite] then never stumbles over [byte] vs [N] *)
Notation byte := N (only parsing).
Notation str := (list N) (only parsing).

Inductive errkind := EInvalidExt | ENothingToWrite | EParse | EIO | ETooLong | EUnknownRef | EOther.
Inductive res (A : Type) := Ok (a : A) | Err (k : errkind) | Panic (site : N).
Arguments Ok {A} a. Arguments Err {A} k. Arguments Panic {A} site.

Definition bind {A B} (r : res A) (f : A -> res B) : res B :=
  match r with Ok a => f a | Err k => Err k | Panic s => Panic s end.
Notation "'do' x <- r ; k" := (bind r (fun x => k)) (at level 200, x name, r at level 100, k at level 200).

Fixpoint str_eqb (a b : str) : bool :=
  match a, b with
  | [], [] => true
  | x :: a', y :: b' => N.eqb x y && str_eqb a' b'
  | _, _ => false
  end.

Lemma str_eqb_eq a b : str_eqb a b = true <-> a = b.
Proof.
  revert b; induction a as [|x a IH]; intros [|y b]; simpl; split; intros H; try reflexivity; try discriminate.
  - apply andb_true_iff in H. destruct H as [H1 H2]. apply N.eqb_eq in H1. apply IH in H2. congruence.
  - inversion H; subst. rewrite N.eqb_refl. simpl. apply IH. reflexivity.
Qed.

Lemma str_eqb_refl a : str_eqb a a = true.
Proof. apply str_eqb_eq. reflexivity. Qed.

Definition opt_eqb (a b : option N) : bool :=
  match a, b with None, None => true | Some x, Some y => N.eqb x y | _, _ => false end.

(* Go map with N keys: association list, keys unique; [None] = nil map. *)
Fixpoint alookup {V} (k : N) (m : list (N * V)) : option V :=
  match m with
  | [] => None
  | (k', v) :: r => if N.eqb k k' then Some v else alookup k r
  end.
Definition amem {V} (k : N) (m : list (N * V)) : bool :=
  match alookup k m with Some _ => true | None => false end.
Fixpoint adelete {V} (k : N) (m : list (N * V)) : list (N * V) :=
  match m with
  | [] => []
  | (k', v) :: r => if N.eqb k k' then adelete k r else (k', v) :: adelete k r
  end.
Definition nmem (k : N) (l : list N) : bool := existsb (N.eqb k) l.

(* list facts missing from the 8.16 standard library *)
Lemma filter_length_le {A} (f : A -> bool) l : length (filter f l) <= length l.
Proof. induction l as [|a l IH]; cbn [filter length]; [apply le_n|]. destruct (f a); cbn [length]; [apply le_n_S, IH | apply le_S, IH]. Qed.
Lemma filter_all {A} (f : A -> bool) l : forallb f l = true -> filter f l = l.
Proof.
  induction l as [|a l IH]; cbn [forallb filter]; [reflexivity|]. intros H. apply andb_true_iff in H. destruct H as [Ha Hl].
  rewrite Ha, (IH Hl). reflexivity.
Qed.
Lemma filter_idem {A} (f : A -> bool) l : filter f (filter f l) = filter f l.
Proof.
  apply filter_all. apply forallb_forall. intros x Hx. apply filter_In in Hx. tauto.
Qed.
Lemma NoDup_map_filter {A B} (g : A -> B) (f : A -> bool) l : NoDup (map g l) -> NoDup (map g (filter f l)).
Proof.
  induction l as [|a r IH]; intros H; [constructor|]. cbn [map] in H. inversion H as [|? ? Hna Hr]; subst.
  cbn [filter]. destruct (f a); [|apply IH; exact Hr]. cbn [map]. constructor; [|apply IH; exact Hr].
  intros Hin. apply Hna. apply in_map_iff in Hin. destruct Hin as (x & Hx & Hin). apply filter_In in Hin.
  rewrite <- Hx. apply in_map. tauto.
Qed.
Lemma firstn_plus {A} n m (l : list A) : firstn (n + m) l = firstn n l ++ firstn m (skipn n l).
Proof. revert l. induction n as [|n IH]; intros l; [reflexivity|]. destruct l as [|a l]; cbn [plus firstn skipn app]; [destruct m; reflexivity|]. rewrite IH. reflexivity. Qed.
Lemma skipn_plus {A} n m (l : list A) : skipn m (skipn n l) = skipn (n + m) l.
Proof. revert l. induction n as [|n IH]; intros l; [reflexivity|]. destruct l as [|a l]; cbn [plus skipn]; [destruct m; reflexivity|]. apply IH. Qed.
