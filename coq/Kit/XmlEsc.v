(* encoding/xml EscapeText exactly: the text is decoded rune by rune (utf8.DecodeRune); the eight special characters
   are escaped; a rune outside the XML 1.0 Char production, and every byte that does not start a valid UTF-8
   sequence, is replaced by U+FFFD.  [xml_legal] = texts on which no replacement happens (then EscapeText is the
   byte-wise [esc_text] of Kit/Xml.v).  Definitions only. *)
From Coq Require Import List NArith Bool.
From Astisub Require Import Kit.Base Kit.Str Kit.Xml Kit.Utf8.
Import ListNotations.
Open Scope N_scope.

(* isInCharacterRange *)
Definition in_char_range (r : N) : bool :=
  (r =? 9) || (r =? 10) || (r =? 13) || ((32 <=? r) && (r <=? 55295)) || ((57344 <=? r) && (r <=? 65533))
  || ((65536 <=? r) && (r <=? 1114111)).
(* utf8.DecodeRune on a non-empty string: Some (rune, width) for a valid sequence, None for RuneError/width 1 *)
Definition decode_rune (s : str) : option (N * nat) :=
  match s with
  | [] => None
  | a :: r =>
    if a <? 128 then Some (a, 1%nat)
    else if (194 <=? a) && (a <? 224) then
      match r with
      | b :: _ => if utf8_cont b then Some ((a - 192) * 64 + (b - 128), 2%nat) else None
      | _ => None
      end
    else if (224 <=? a) && (a <? 240) then
      match r with
      | b :: c :: _ =>
        if utf8_cont b && utf8_cont c && (negb (a =? 224) || (160 <=? b)) && (negb (a =? 237) || (b <? 160))
        then Some ((a - 224) * 4096 + (b - 128) * 64 + (c - 128), 3%nat) else None
      | _ => None
      end
    else if (240 <=? a) && (a <? 245) then
      match r with
      | b :: c :: d :: _ =>
        if utf8_cont b && utf8_cont c && utf8_cont d && (negb (a =? 240) || (144 <=? b)) && (negb (a =? 244) || (b <? 144))
        then Some ((a - 240) * 262144 + (b - 128) * 4096 + (c - 128) * 64 + (d - 128), 4%nat) else None
      | _ => None
      end
    else None
  end.
Definition fffd : str := [239; 191; 189].
Definition is_special (c : N) : bool :=
  (c =? 34) || (c =? 39) || (c =? 38) || (c =? 60) || (c =? 62) || (c =? 9) || (c =? 10) || (c =? 13).
Fixpoint esc_go_fuel (fuel : nat) (s : str) : str :=
  match fuel, s with
  | S f, a :: r =>
    match decode_rune s with
    | Some (rn, w) =>
      (if is_special rn then esc_byte rn else if in_char_range rn then firstn w s else fffd)
      ++ esc_go_fuel f (skipn w s)
    | None => fffd ++ esc_go_fuel f r
    end
  | _, _ => []
  end.
Definition esc_text_go (s : str) : str := esc_go_fuel (length s) s.
(* no replacement: valid UTF-8 of XML 1.0 characters *)
Fixpoint legal_fuel (fuel : nat) (s : str) : bool :=
  match s with
  | [] => true
  | _ :: _ =>
    match fuel with
    | O => false
    | S f => match decode_rune s with
             | Some (rn, w) => in_char_range rn && legal_fuel f (skipn w s)
             | None => false
             end
    end
  end.
Definition xml_legal (s : str) : bool := legal_fuel (length s) s.

(* the encoder's bytes with EscapeText as it is *)
Definition print_attr_go (pname : xname -> str) (a : xattr) : str :=
  [32] ++ pname (fst a) ++ [61; 34] ++ esc_text_go (snd a) ++ [34].
Fixpoint print_node_go (pname : xname -> str) (ind : str) (d : nat) (n : xnode) : str :=
  match n with
  | XText s => esc_text_go s
  | XElem nm al ks =>
    [60] ++ pname nm ++ flat_map (print_attr_go pname) al ++ [62]
    ++ (if existsb is_elem ks
        then flat_map (fun k => indent_str ind (S d) ++ print_node_go pname ind (S d) k) ks ++ indent_str ind d
        else flat_map (print_node_go pname ind (S d)) ks)
    ++ [60; 47] ++ pname nm ++ [62]
  end.
(* every character data and attribute value of the tree is legal *)
Fixpoint legal_tree (n : xnode) : bool :=
  match n with
  | XText s => xml_legal s
  | XElem _ al ks => forallb (fun a => xml_legal (snd a)) al && forallb legal_tree ks
  end.
