(* Insertion sort over a decidable total order: sorting forgets the order of its input.
   Instantiated for byte strings in Go's string order (the writers sort map keys with sort.Strings). *)
From Coq Require Import List NArith Bool Lia Permutation Sorted.
From Astisub Require Import Kit.Base.
Import ListNotations.

Section Generic.
  Context {A : Type} (leb : A -> A -> bool).
  Hypothesis leb_total : forall a b, leb a b = true \/ leb b a = true.
  Hypothesis leb_antisym : forall a b, leb a b = true -> leb b a = true -> a = b.
  Hypothesis leb_trans : forall a b c, leb a b = true -> leb b c = true -> leb a c = true.

  Fixpoint ginsert (x : A) (l : list A) : list A :=
    match l with [] => [x] | y :: r => if leb x y then x :: l else y :: ginsert x r end.
  Definition gsort (l : list A) : list A := fold_right ginsert [] l.
  Definition gsorted (l : list A) := StronglySorted (fun a b => leb a b = true) l.

  Lemma ginsert_perm x l : Permutation (x :: l) (ginsert x l).
  Proof.
    induction l as [|y r IH]; cbn [ginsert]; [reflexivity|].
    destruct (leb x y); [reflexivity|]. rewrite perm_swap. constructor. exact IH.
  Qed.
  Lemma gsort_perm l : Permutation l (gsort l).
  Proof. induction l as [|x r IH]; cbn [gsort fold_right]; [constructor|]. etransitivity; [|apply ginsert_perm]. constructor. exact IH. Qed.
  Lemma ginsert_sorted x l : gsorted l -> gsorted (ginsert x l).
  Proof.
    induction l as [|y r IH]; intros Hs; cbn [ginsert]; [repeat constructor|].
    apply StronglySorted_inv in Hs as Hs'. destruct Hs' as [Hr Hy].
    destruct (leb x y) eqn:C.
    - constructor; [exact Hs|]. constructor; [exact C|].
      rewrite Forall_forall in *. intros z Hz. eapply leb_trans; [exact C | apply Hy; exact Hz].
    - assert (Hyx : leb y x = true) by (destruct (leb_total x y) as [H|H]; [congruence | exact H]).
      constructor; [apply IH; exact Hr|].
      rewrite Forall_forall in *. intros z Hz.
      apply (Permutation_in _ (Permutation_sym (ginsert_perm x r))) in Hz. destruct Hz as [<-|Hz]; [exact Hyx | auto].
  Qed.
  Lemma gsort_sorted l : gsorted (gsort l).
  Proof. induction l as [|x r IH]; cbn [gsort fold_right]; [constructor|]. apply ginsert_sorted. exact IH. Qed.

  Lemma gsorted_perm_eq l1 : forall l2, gsorted l1 -> gsorted l2 -> Permutation l1 l2 -> l1 = l2.
  Proof.
    induction l1 as [|a r1 IH]; intros l2 S1 S2 P.
    - apply Permutation_nil in P. subst. reflexivity.
    - destruct l2 as [|b r2]; [apply Permutation_sym, Permutation_nil in P; discriminate|].
      apply StronglySorted_inv in S1 as S1'. destruct S1' as [Sr1 Ha]. apply StronglySorted_inv in S2 as S2'. destruct S2' as [Sr2 Hb].
      assert (Hab : a = b).
      { assert (Ia : In a (b :: r2)) by (eapply Permutation_in; [exact P | left; reflexivity]).
        assert (Ib : In b (a :: r1)) by (eapply Permutation_in; [apply Permutation_sym; exact P | left; reflexivity]).
        rewrite Forall_forall in Ha, Hb.
        destruct Ia as [E|Ia]; [symmetry; exact E|]. destruct Ib as [E|Ib]; [exact E|].
        apply leb_antisym; [apply Ha; exact Ib | apply Hb; exact Ia]. }
      subst b. f_equal. apply IH; [exact Sr1 | exact Sr2 | eapply Permutation_cons_inv; exact P].
  Qed.

  Theorem gsort_order_independent l l' : Permutation l l' -> gsort l = gsort l'.
  Proof.
    intros P. apply gsorted_perm_eq; [apply gsort_sorted | apply gsort_sorted |].
    etransitivity; [apply Permutation_sym, gsort_perm|]. etransitivity; [exact P | apply gsort_perm].
  Qed.
End Generic.

(* Go's string order on byte strings *)
Open Scope N_scope.
Fixpoint sleb (a b : list N) : bool :=
  match a, b with
  | [], _ => true
  | _ :: _, [] => false
  | x :: a', y :: b' => if x <? y then true else if y <? x then false else sleb a' b'
  end.
Lemma sleb_total a : forall b, sleb a b = true \/ sleb b a = true.
Proof.
  induction a as [|x a IH]; intros [|y b]; cbn [sleb]; auto.
  destruct (x <? y) eqn:E1; [left; reflexivity|]. destruct (y <? x) eqn:E2; [right; reflexivity|]. apply IH.
Qed.
Lemma sleb_antisym a : forall b, sleb a b = true -> sleb b a = true -> a = b.
Proof.
  induction a as [|x a IH]; intros [|y b]; cbn [sleb]; try discriminate; [reflexivity|].
  destruct (x <? y) eqn:E1; destruct (y <? x) eqn:E2; try discriminate.
  - apply N.ltb_lt in E1. apply N.ltb_lt in E2. lia.
  - intros H1 H2. apply N.ltb_ge in E1. apply N.ltb_ge in E2. assert (x = y) by lia. subst. f_equal. apply IH; assumption.
Qed.
Lemma sleb_trans a : forall b c, sleb a b = true -> sleb b c = true -> sleb a c = true.
Proof.
  induction a as [|x a IH]; intros [|y b] [|z c]; cbn [sleb]; try discriminate; try reflexivity.
  destruct (x <? y) eqn:E1; destruct (y <? z) eqn:E2; destruct (x <? z) eqn:E3; try reflexivity;
    try (apply N.ltb_lt in E1); try (apply N.ltb_ge in E1); try (apply N.ltb_lt in E2); try (apply N.ltb_ge in E2);
    try (apply N.ltb_lt in E3); try (apply N.ltb_ge in E3); try lia.
  - destruct (z <? y) eqn:E4; [discriminate|]. destruct (z <? x) eqn:E5; [apply N.ltb_lt in E5; apply N.ltb_ge in E4; lia|]. intros _ H. exfalso. apply N.ltb_ge in E4. lia.
  - destruct (y <? x) eqn:E4; [discriminate|]. intros _ _. destruct (z <? x) eqn:E5; [apply N.ltb_lt in E5; apply N.ltb_ge in E4; lia | ]. apply N.ltb_ge in E4. apply N.ltb_ge in E5. lia.
  - destruct (y <? x) eqn:E4; [discriminate|]. destruct (z <? y) eqn:E5; [discriminate|].
    destruct (z <? x) eqn:E6; [apply N.ltb_lt in E6; apply N.ltb_ge in E4; apply N.ltb_ge in E5; lia|].
    apply IH.
Qed.
