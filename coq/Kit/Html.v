(* The fragment of the golang.org/x/net/html tokenizer that SRT and WebVTT cue text exercises:
   text, start tags with attributes, end tags, self-closing tags, "bogus comments".
   Not modelled (see [html_simple]): raw-text elements (script, style, title, textarea, ...), "<!" markup
   declarations, character references inside attribute values, NUL handling.  Definitions only. *)
From Coq Require Import List NArith Bool Arith.
From Astisub Require Import Kit.Base Kit.Str.
Import ListNotations.
Open Scope N_scope.

Inductive htok :=
| HText (raw : str)
| HStart (name : str) (attrs : list (str * str)) (raw : str)   (* name and keys lower-cased *)
| HSelfClose (name : str) (attrs : list (str * str)) (raw : str)
| HEnd (name : str) (raw : str)
| HComment (raw : str).

Definition is_letter (c : byte) : bool := ((65 <=? c) && (c <=? 90)) || ((97 <=? c) && (c <=? 122)).
Definition is_tag_ws (c : byte) : bool := (c =? 32) || (c =? 10) || (c =? 13) || (c =? 9) || (c =? 12).
Definition LT : byte := 60.  Definition GT : byte := 62.  Definition SLASH : byte := 47.  Definition EQ : byte := 61.

(* every reader returns None when the input ends inside the tag (the tokenizer then yields ErrorToken) *)
Fixpoint skip_ws (s : str) : str :=
  match s with c :: t => if is_tag_ws c then skip_ws t else s | [] => [] end.

(* tag name: up to white space (consumed), '/' or '>' (not consumed) *)
Fixpoint read_name (s acc : str) : option (str * str) :=
  match s with
  | [] => None
  | c :: t => if is_tag_ws c then Some (rev acc, t)
              else if (c =? SLASH) || (c =? GT) then Some (rev acc, s)
              else read_name t (c :: acc)
  end.
(* attribute key: up to white space or '/' (consumed), '=' or '>' (not consumed) *)
Fixpoint read_key (s acc : str) : option (str * str) :=
  match s with
  | [] => None
  | c :: t => if is_tag_ws c || (c =? SLASH) then Some (rev acc, t)
              else if (c =? EQ) || (c =? GT) then Some (rev acc, s)
              else read_key t (c :: acc)
  end.
Fixpoint read_until_quote (q : byte) (s acc : str) : option (str * str) :=
  match s with
  | [] => None
  | c :: t => if c =? q then Some (rev acc, t) else read_until_quote q t (c :: acc)
  end.
Fixpoint read_bare (s acc : str) : option (str * str) :=
  match s with
  | [] => None
  | c :: t => if is_tag_ws c then Some (rev acc, t)
              else if c =? GT then Some (rev acc, s)
              else read_bare t (c :: acc)
  end.
Definition read_val (s : str) : option (str * str) :=
  match skip_ws s with
  | [] => None
  | c :: t =>
    if negb (c =? EQ) then Some ([], c :: t)
    else match skip_ws t with
         | [] => None
         | q :: t2 =>
           if q =? GT then Some ([], q :: t2)
           else if (q =? 39) || (q =? 34) then read_until_quote q t2 []
           else read_bare (q :: t2) []
         end
  end.
(* the attribute loop; returns the attributes and what follows the closing '>' *)
Fixpoint read_attrs (fuel : nat) (s : str) (acc : list (str * str)) : option (list (str * str) * str) :=
  match fuel with
  | O => None
  | S f =>
    match s with
    | [] => None
    | c :: t =>
      if c =? GT then Some (rev acc, t)
      else match read_key s [] with
           | None => None
           | Some (k, s1) =>
             match read_val s1 with
             | None => None
             | Some (v, s2) =>
               let acc' := match k with [] => acc | _ => (to_lower k, v) :: acc end in
               match skip_ws s2 with
               | [] => None
               | s3 => read_attrs f s3 acc'
               end
             end
           end
    end
  end.
(* [s] starts at the first letter of the tag name *)
Definition read_tag (s : str) : option (str * list (str * str) * str) :=
  match read_name s [] with
  | None => None
  | Some (name, s1) =>
    match skip_ws s1 with
    | [] => None
    | s2 => match read_attrs (S (length s2)) s2 [] with
            | Some (attrs, rest) => Some (to_lower name, attrs, rest)
            | None => None
            end
    end
  end.
Fixpoint read_until_gt (s : str) : str :=   (* rest after the first '>' (or [] at end of input) *)
  match s with [] => [] | c :: t => if c =? GT then t else read_until_gt t end.

(* raw bytes consumed = prefix of [s] of length (length s - length rest) *)
Definition consumed (s rest : str) : str := firstn (length s - length rest) s.

Definition flush (cur : str) : list htok := match cur with [] => [] | _ => [HText (rev cur)] end.

Fixpoint tokenize_fuel (fuel : nat) (s : str) (cur : str) : list htok :=
  match fuel with
  | O => flush cur
  | S f =>
    match s with
    | [] => flush cur
    | c :: t =>
      if negb (c =? LT) then tokenize_fuel f t (c :: cur)
      else match t with
           | [] => flush (c :: cur)                        (* '<' is the last byte: text *)
           | d :: t2 =>
             if is_letter d then
               flush cur ++
               match read_tag t with
               | None => []                                 (* input ends inside the tag: ErrorToken *)
               | Some (name, attrs, rest) =>
                 let raw := consumed s rest in
                 let selfclose := match rev raw with _ :: x :: _ => x =? SLASH | _ => false end in
                 (if selfclose then HSelfClose name attrs raw else HStart name attrs raw) :: tokenize_fuel f rest []
               end
             else if d =? SLASH then
               match t2 with
               | [] => flush cur ++ [HText [c; d]]         (* "</" at end of input: the text before it, then "</" as text *)
               | e :: t3 =>
                 flush cur ++
                 if e =? GT then HComment (consumed s t3) :: tokenize_fuel f t3 []
                 else if is_letter e then
                   match read_tag t2 with
                   | None => []
                   | Some (name, _, rest) => HEnd name (consumed s rest) :: tokenize_fuel f rest []
                   end
                 else let rest := read_until_gt t2 in HComment (consumed s rest) :: tokenize_fuel f rest []
               end
             else if (d =? 33) || (d =? 63) then
               flush cur ++ (let rest := read_until_gt t in HComment (consumed s rest) :: tokenize_fuel f rest [])
             else tokenize_fuel f t (c :: cur)              (* '<' + other: text, reconsume *)
           end
    end
  end.
Definition tokenize (s : str) : list htok := tokenize_fuel (S (length s)) s [].

(* first attribute with the given (lower-case) key: htmlTokenAttribute *)
Fixpoint attr_get (k : str) (attrs : list (str * str)) : option str :=
  match attrs with
  | [] => None
  | (k', v) :: r => if str_eqb k k' then Some v else attr_get k r
  end.

(* faithful domain: none of the constructs the model does not reproduce *)
Definition raw_text_tags : list str :=
  [[105;102;114;97;109;101]; [110;111;101;109;98;101;100]; [110;111;102;114;97;109;101;115]; [110;111;115;99;114;105;112;116];
   [112;108;97;105;110;116;101;120;116]; [115;99;114;105;112;116]; [115;116;121;108;101]; [116;101;120;116;97;114;101;97];
   [116;105;116;108;101]; [120;109;112]].
Definition tok_simple (t : htok) : bool :=
  match t with
  | HText _ => true
  | HStart n attrs _ | HSelfClose n attrs _ =>
      negb (existsb (str_eqb n) raw_text_tags) && forallb (fun kv => negb (existsb (N.eqb 38) (snd kv)) && negb (existsb (N.eqb 13) (snd kv))) attrs
  | HEnd _ _ => true
  | HComment _ => false
  end.
Definition html_simple (s : str) : bool := forallb tok_simple (tokenize s) && negb (existsb (N.eqb 0) s).
