(* binary64 arithmetic as Go performs it on amd64 (round to nearest even, no fused operations):
   a thin layer over Flocq's BinarySingleNaN.  Executable (extracts, vm_computes). *)
From Coq Require Import ZArith Bool.
From Flocq Require Import Core BinarySingleNaN.
Open Scope Z_scope.

Definition prec : Z := 53.
Definition emax : Z := 1024.
Lemma Hprec : Prec_gt_0 prec. Proof. unfold Prec_gt_0, prec. reflexivity. Qed.
Lemma Hmax : Prec_lt_emax prec emax. Proof. unfold Prec_lt_emax, prec, emax. reflexivity. Qed.

Definition f64 := binary_float prec emax.
(* float64(int64) *)
Definition of_Z (z : Z) : f64 := binary_normalize prec emax Hprec Hmax mode_NE z 0 false.
Definition fadd : f64 -> f64 -> f64 := @Bplus prec emax Hprec Hmax mode_NE.
Definition fsub : f64 -> f64 -> f64 := @Bminus prec emax Hprec Hmax mode_NE.
Definition fmul : f64 -> f64 -> f64 := @Bmult prec emax Hprec Hmax mode_NE.
Definition fdiv : f64 -> f64 -> f64 := @Bdiv prec emax Hprec Hmax mode_NE.
(* int64(float64): truncation toward zero (values in range) *)
Definition to_Z (x : f64) : Z := @Btrunc prec emax x.
(* math.Floor followed by a conversion to an integer *)
Definition floor_Z (x : f64) : Z :=
  let t := to_Z x in
  match @Bcompare prec emax x (of_Z t) with
  | Some Lt => t - 1
  | _ => t
  end.
