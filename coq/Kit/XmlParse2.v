(* A byte-level parser for the XML subset that hand-written / third-party TTML documents use; a superset of
   the subset of Kit/XmlParse.v (what xml.Encoder emits):
     - a prolog of white space, <?...?> and <!-- ... --> before the root element, the same after it;
     - start tags with attributes separated by white space (space, tab, LF), optional white space around '=',
       values in double or single quotes, optional white space before '>' or '/>', self-closing tags,
       end tags with optional white space before '>';
     - the five predefined entities and numeric character references (decimal, hexadecimal) decoded to UTF-8;
     - comments inside element content are skipped; the character data on both sides is one text node;
     - name spaces exactly as Kit/XmlParse.v (Decoder.translate).
   Everything else is rejected ([None]): <!DOCTYPE, <![CDATA[, a processing instruction inside the root
   element, a byte 13 anywhere, mismatched tags, text outside the root element, ]]> in character data.
   The result is the tree of encoding/xml's token stream with adjacent character data merged.
   Executable definitions only (fuel / structural recursion). *)
From Coq Require Import List NArith Bool.
From Astisub Require Import Kit.Base Kit.Str Kit.Xml Kit.XmlParse.
Import ListNotations.
Open Scope N_scope.

(* ---- white space inside tags and between the top-level items: space, tab, LF (CR is rejected) ---- *)
Definition is_ws2 (c : byte) : bool := (c =? 32) || (c =? 9) || (c =? 10).
Fixpoint skip_ws (s : str) : str :=
  match s with
  | c :: r => if is_ws2 c then skip_ws r else s
  | [] => []
  end.

(* ---- numeric character references ---- *)
Definition dec_val (c : byte) : option N := if (48 <=? c) && (c <=? 57) then Some (c - 48) else None.
Definition hex_val (c : byte) : option N :=
  if (48 <=? c) && (c <=? 57) then Some (c - 48)
  else if (65 <=? c) && (c <=? 70) then Some (c - 55)
  else if (97 <=? c) && (c <=? 102) then Some (c - 87)
  else None.
Definition max_rune : N := 1114111.  (* 10FFFF *)
(* digits up to ';' (at least one): the value (saturated just above 10FFFF) and the number of digits *)
Fixpoint read_num (hex : bool) (s : str) (acc : N) (n : nat) : option (N * nat) :=
  match s with
  | [] => None
  | c :: r =>
    if c =? 59 then match n with O => None | S _ => Some (acc, n) end
    else match (if hex then hex_val c else dec_val c) with
         | Some d =>
           let v := acc * (if hex then 16 else 10) + d in
           read_num hex r (if max_rune <? v then max_rune + 1 else v) (S n)
         | None => None
         end
  end.
(* UTF-8 of a code point; none for 0, the surrogates and everything above 10FFFF *)
Definition utf8_enc (n : N) : option str :=
  if n =? 0 then None
  else if n <? 128 then Some [n]
  else if n <? 2048 then Some [192 + n / 64; 128 + n mod 64]
  else if n <? 65536 then
    if (55296 <=? n) && (n <=? 57343) then None
    else Some [224 + n / 4096; 128 + (n / 64) mod 64; 128 + n mod 64]
  else if n <=? max_rune then Some [240 + n / 262144; 128 + (n / 4096) mod 64; 128 + (n / 64) mod 64; 128 + n mod 64]
  else None.

(* the reference after an ampersand: the bytes it denotes and the number of input bytes it takes *)
Definition entity2 (s : str) : option (str * nat) :=
  if has_prefix [97;109;112;59] s then Some ([38], 4%nat)             (* amp; *)
  else if has_prefix [108;116;59] s then Some ([60], 3%nat)           (* lt; *)
  else if has_prefix [103;116;59] s then Some ([62], 3%nat)           (* gt; *)
  else if has_prefix [113;117;111;116;59] s then Some ([34], 5%nat)   (* quot; *)
  else if has_prefix [97;112;111;115;59] s then Some ([39], 5%nat)    (* apos; *)
  else match s with
       | c1 :: r1 =>
         if c1 =? 35 then                                              (* # *)
           match r1 with
           | c2 :: r2 =>
             if c2 =? 120 then                                         (* x *)
               match read_num true r2 0 0 with
               | Some (v, n) => match utf8_enc v with Some b => Some (b, (3 + n)%nat) | None => None end
               | None => None
               end
             else
               match read_num false r1 0 0 with
               | Some (v, n) => match utf8_enc v with Some b => Some (b, (2 + n)%nat) | None => None end
               | None => None
               end
           | [] => None
           end
         else None
       | [] => None
       end.

(* ---- character data ([m] = None; ends before '<') and attribute values ([m] = Some quote; ends before the
   closing quote, '<' is an error).  [skip] = bytes still belonging to a reference decoded already;
   [b0 b1] = the two preceding raw bytes were ']' (the sequence ]]> is an error, as in Decoder.text).
   Result: the decoded run and the input from the stop byte on (or [] at the end of the input). ---- *)
Fixpoint unesc2_aux (m : option byte) (skip : nat) (b0 b1 : bool) (s : str) : option (str * str) :=
  match s with
  | [] => match skip with O => Some ([], []) | S _ => None end
  | c :: r =>
    match skip with
    | S k => unesc2_aux m k b0 b1 r
    | O =>
      if c =? 13 then None
      else if match m with None => c =? 60 | Some q => c =? q end then Some ([], s)
      else if c =? 60 then None
      else if c =? 38 then
        match entity2 r with
        | Some (b, k) => match unesc2_aux m k false false r with Some (t, rest) => Some (b ++ t, rest) | None => None end
        | None => None
        end
      else if b0 && b1 && (c =? 62) then None
      else match unesc2_aux m 0 b1 (c =? 93) r with Some (t, rest) => Some (c :: t, rest) | None => None end
    end
  end.
Definition unesc2 (m : option byte) (s : str) : option (str * str) := unesc2_aux m 0 false false s.

(* ---- comments and processing instructions ---- *)
(* after "<!--": up to and including "-->"; "--" not followed by '>' is an error ([b0 b1]: the two
   preceding bytes were '-'), as in Decoder.rawToken *)
Fixpoint skip_comment_aux (b0 b1 : bool) (s : str) : option str :=
  match s with
  | [] => None
  | c :: r =>
    if c =? 13 then None
    else if b0 && b1 then (if c =? 62 then Some r else None)
    else skip_comment_aux b1 (c =? 45) r
  end.
Definition skip_comment (s : str) : option str := skip_comment_aux false false s.
(* after "<?": up to and including "?>" ([b0]: the preceding byte was '?') *)
Fixpoint skip_pi_aux (b0 : bool) (s : str) : option str :=
  match s with
  | [] => None
  | c :: r =>
    if c =? 13 then None
    else if b0 && (c =? 62) then Some r
    else skip_pi_aux (c =? 63) r
  end.

(* ---- names: up to white space or one of  = > / <  double quote  single quote  & ! ?  (or CR) ---- *)
Definition name_byte2 (c : byte) : bool :=
  negb (is_ws2 c || (c =? 13) || (c =? 61) || (c =? 62) || (c =? 47) || (c =? 60) || (c =? 34) || (c =? 39)
        || (c =? 38) || (c =? 33) || (c =? 63)).
(* the target of a processing instruction is a name *)
Definition skip_pi (s : str) : option str :=
  match s with
  | c :: _ => if name_byte2 c then skip_pi_aux false s else None
  | [] => None
  end.

(* Misc*: white space, comments and processing instructions; stops at the first other byte *)
Fixpoint skip_misc (fuel : nat) (s : str) : option str :=
  match fuel with
  | O => None
  | S f =>
    match s with
    | [] => Some []
    | c :: r =>
      if is_ws2 c then skip_misc f r
      else match prefix [60;33;45;45] s with
           | Some r1 => match skip_comment r1 with Some r2 => skip_misc f r2 | None => None end
           | None =>
             match prefix [60;63] s with
             | Some r1 => match skip_pi r1 with Some r2 => skip_misc f r2 | None => None end
             | None => Some s
             end
           end
    end
  end.

(* ---- start tags ---- *)
Definition starts_ws (s : str) : bool := match s with c :: _ => is_ws2 c | [] => false end.
(* after the element name: ( S name S? = S? quote value quote )* S? ( '>' | '/>' );
   result: raw attributes, self-closing?, input after the tag *)
Fixpoint read_attrs2 (fuel : nat) (s : str) : option (list (str * str) * bool * str) :=
  match fuel with
  | O => None
  | S f =>
    let s1 := skip_ws s in
    match s1 with
    | [] => None
    | c :: r =>
      if c =? 62 then Some ([], false, r)
      else if c =? 47 then
        match r with
        | c2 :: r2 => if c2 =? 62 then Some ([], true, r2) else None
        | [] => None
        end
      else if starts_ws s then
        let '(raw, r1) := span name_byte2 s1 in
        if xp_null raw then None
        else match skip_ws r1 with
             | c3 :: r2 =>
               if c3 =? 61 then
                 match skip_ws r2 with
                 | q :: r3 =>
                   if (q =? 34) || (q =? 39) then
                     match unesc2 (Some q) r3 with
                     | Some (v, r4) =>
                       match r4 with
                       | _ :: r5 =>    (* the closing quote *)
                         match read_attrs2 f r5 with
                         | Some (al, sc, r6) => Some ((raw, v) :: al, sc, r6)
                         | None => None
                         end
                       | [] => None
                       end
                     | None => None
                     end
                   else None
                 | [] => None
                 end
               else None
             | [] => None
             end
      else None
    end
  end.

(* [s] = the input after '<'; [fuel] > the number of attributes *)
Definition start_tag2 (fuel : nat) (env : nsenv) (s : str) : option (stag * bool) :=
  let '(raw, s2) := span name_byte2 s in
  match read_attrs2 fuel s2 with
  | Some (ral, sc, s3) =>
    match qsplit raw, qsplit_all ral with
    | Some (p, l), Some qal =>
      let env' := ext_env env qal in
      Some (mkStag raw (translate env' true p l)
                   (map (fun a => (translate env' false (fst (fst a)) (snd (fst a)), snd a)) qal) env' s3, sc)
    | _, _ => None
    end
  | None => None
  end.

(* ---- content ---- *)
(* adjacent character data is one node; no empty text node *)
Fixpoint merge_texts (l : list xnode) : list xnode :=
  match l with
  | [] => []
  | XText s :: r =>
    match merge_texts r with
    | XText t :: r' => XText (s ++ t) :: r'
    | r' => if xp_null s then r' else XText s :: r'
    end
  | e :: r => e :: merge_texts r
  end.

(* one element; [s1] = the input after its '<'; [pk] parses its content up to the end tag *)
Definition parse_elem_with (pk : nsenv -> str -> option (list xnode * str)) (fuel : nat) (env : nsenv) (s1 : str)
  : option (xnode * str) :=
  match start_tag2 fuel env s1 with
  | Some (st, true) => Some (XElem (st_name st) (st_attrs st) [], st_rest st)
  | Some (st, false) =>
    match pk (st_env st) (st_rest st) with
    | Some (kids, s4) =>
      match prefix ([60; 47] ++ st_raw st) s4 with
      | Some s5 =>
        match skip_ws s5 with
        | c :: s6 => if c =? 62 then Some (XElem (st_name st) (st_attrs st) (merge_texts kids), s6) else None
        | [] => None
        end
      | None => None
      end
    | None => None
    end
  | None => None
  end.

(* the nodes up to the next unmatched end tag (not consumed) or the end of the input; comments skipped *)
Fixpoint parse_kids2 (fuel : nat) (env : nsenv) (s : str) : option (list xnode * str) :=
  match fuel with
  | O => None
  | S f =>
    match s with
    | [] => Some ([], [])
    | c :: s1 =>
      if c =? 60 then
        match s1 with
        | [] => None
        | c2 :: s2 =>
          if c2 =? 47 then Some ([], s)
          else if c2 =? 33 then
            match prefix [45; 45] s2 with
            | Some s3 => match skip_comment s3 with Some s4 => parse_kids2 f env s4 | None => None end
            | None => None
            end
          else
            match parse_elem_with (parse_kids2 f) f env s1 with
            | Some (e, s6) =>
              match parse_kids2 f env s6 with
              | Some (sibs, s7) => Some (e :: sibs, s7)
              | None => None
              end
            | None => None
            end
        end
      else
        match unesc2 None s with
        | Some (t, s2) =>
          match parse_kids2 f env s2 with
          | Some (sibs, s3) => Some (XText t :: sibs, s3)
          | None => None
          end
        | None => None
        end
    end
  end.

(* the document: Misc* element Misc* *)
Definition xml_parse2 (s : str) : option xnode :=
  let fuel := S (length s) in
  match skip_misc fuel s with
  | Some (c :: s1) =>
    if c =? 60 then
      match parse_elem_with (parse_kids2 fuel) fuel [] s1 with
      | Some (e, s2) => match skip_misc fuel s2 with Some [] => Some e | _ => None end
      | None => None
      end
    else None
  | _ => None
  end.
