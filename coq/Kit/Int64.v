(* Go's int64 (time.Duration) arithmetic: two's-complement wrap-around on +, -, *; / and % truncate toward zero
   (Z.quot, Z.rem).  Definitions only. *)
From Coq Require Import ZArith Bool.
Open Scope Z_scope.

Definition i64_min : Z := -9223372036854775808.
Definition i64_max : Z := 9223372036854775807.
Definition in_i64 (z : Z) : Prop := i64_min <= z <= i64_max.
Definition in_i64b (z : Z) : bool := (i64_min <=? z) && (z <=? i64_max).
(* the value an int64 holds after an operation whose mathematical result is z *)
Definition wrap_i64 (z : Z) : Z := (z + 9223372036854775808) mod 18446744073709551616 - 9223372036854775808.
Definition add_i64 (a b : Z) : Z := wrap_i64 (a + b).
Definition sub_i64 (a b : Z) : Z := wrap_i64 (a - b).
Definition mul_i64 (a b : Z) : Z := wrap_i64 (a * b).
(* a / b and a % b (b <> 0): only MinInt64 / -1 leaves the range (and wraps to MinInt64) *)
Definition quot_i64 (a b : Z) : Z := wrap_i64 (Z.quot a b).
Definition rem_i64 (a b : Z) : Z := Z.rem a b.
