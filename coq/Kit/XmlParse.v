(* A byte-level parser for the XML subset that xml.Encoder emits for the TTML writer: one root element,
   start tags with attributes  name="value"  separated by one blank, explicit end tags, character data,
   the eight entity references of EscapeText, and name-space resolution as encoding/xml's Decoder does it
   (xmlns / xmlns:p attributes of a start tag are processed before its names are translated).
   Anything else is rejected ([None]).  Executable definitions only (fuel / structural recursion). *)
From Coq Require Import List NArith Bool.
From Astisub Require Import Kit.Base Kit.Str Kit.Xml.
Import ListNotations.
Open Scope N_scope.

Definition xp_null {A} (l : list A) : bool := match l with [] => true | _ => false end.

(* ---- character data and attribute values: entity references decoded ---- *)
(* the reference after an ampersand: the byte it denotes and the number of bytes it takes *)
Definition entity (s : str) : option (byte * nat) :=
  if has_prefix [97;109;112;59] s then Some (38, 4%nat)          (* amp; *)
  else if has_prefix [108;116;59] s then Some (60, 3%nat)        (* lt; *)
  else if has_prefix [103;116;59] s then Some (62, 3%nat)        (* gt; *)
  else if has_prefix [35;51;52;59] s then Some (34, 4%nat)       (* #34; *)
  else if has_prefix [35;51;57;59] s then Some (39, 4%nat)       (* #39; *)
  else if has_prefix [35;120;57;59] s then Some (9, 4%nat)       (* #x9; *)
  else if has_prefix [35;120;65;59] s then Some (10, 4%nat)      (* #xA; *)
  else if has_prefix [35;120;68;59] s then Some (13, 4%nat)      (* #xD; *)
  else None.
(* a run ends before '<', and inside quotes ([q]) before the closing quote (byte 34) *)
Definition is_stop (q : bool) (c : byte) : bool := (c =? 60) || (q && (c =? 34)).
(* [skip] = bytes still belonging to a reference that has been decoded already.
   Result: the decoded run and the input from the stop byte on (or [] at the end of the input). *)
Fixpoint unesc_aux (q : bool) (skip : nat) (s : str) : option (str * str) :=
  match s with
  | [] => match skip with O => Some ([], []) | S _ => None end
  | c :: r =>
    match skip with
    | S k => unesc_aux q k r
    | O =>
      if is_stop q c then Some ([], s)
      else if c =? 38 then
        match entity r with
        | Some (b, k) => match unesc_aux q k r with Some (t, rest) => Some (b :: t, rest) | None => None end
        | None => None
        end
      else match unesc_aux q 0 r with Some (t, rest) => Some (c :: t, rest) | None => None end
    end
  end.
Definition unesc (q : bool) (s : str) : option (str * str) := unesc_aux q 0 s.

(* ---- names ---- *)
Definition name_byte (c : byte) : bool :=
  negb ((c =? 32) || (c =? 61) || (c =? 62) || (c =? 47) || (c =? 60) || (c =? 34)).
Definition not_colon (c : byte) : bool := negb (c =? 58).
Fixpoint span (p : byte -> bool) (s : str) : str * str :=
  match s with
  | c :: r => if p c then let '(a, b) := span p r in (c :: a, b) else ([], s)
  | [] => ([], [])
  end.
(* prefix:local -> (prefix, local); local -> ([], local); split at the first colon *)
Definition qsplit (raw : str) : option (str * str) :=
  let '(a, b) := span not_colon raw in
  match b with
  | [] => if xp_null a then None else Some ([], a)
  | _ :: l => if xp_null a || xp_null l then None else Some (a, l)
  end.

Definition xp_xmlns : str := [120;109;108;110;115].
Definition xp_xml : str := [120;109;108].
Definition xp_xml_url : str :=
  [104;116;116;112;58;47;47;119;119;119;46;119;51;46;111;114;103;47;88;77;76;47;49;57;57;56;47;110;97;109;101;115;112;97;99;101].

(* the bindings in scope, innermost first; the key [] holds the default name space *)
Definition nsenv : Type := list (str * str).
Fixpoint ns_lookup (p : str) (env : nsenv) : option str :=
  match env with
  | [] => None
  | (k, v) :: r => if str_eqb p k then Some v else ns_lookup p r
  end.
(* Decoder.translate *)
Definition translate (env : nsenv) (is_el : bool) (p l : str) : xname :=
  if str_eqb p xp_xmlns then mkName p l
  else if xp_null p && negb is_el then mkName [] l
  else if str_eqb p xp_xml then mkName xp_xml_url l
  else if xp_null p && str_eqb l xp_xmlns then mkName [] l
  else match ns_lookup p env with Some u => mkName u l | None => mkName p l end.
(* the name-space attributes of a start tag, in document order *)
Fixpoint ext_env (env : nsenv) (al : list (str * str * str)) : nsenv :=
  match al with
  | [] => env
  | (p, l, v) :: r =>
    if str_eqb p xp_xmlns then ext_env ((l, v) :: env) r
    else if xp_null p && str_eqb l xp_xmlns then ext_env (([], v) :: env) r
    else ext_env env r
  end.
Fixpoint qsplit_all (al : list (str * str)) : option (list (str * str * str)) :=
  match al with
  | [] => Some []
  | (raw, v) :: r =>
    match qsplit raw, qsplit_all r with
    | Some (p, l), Some t => Some ((p, l, v) :: t)
    | _, _ => None
    end
  end.

(* ---- start tags ---- *)
(* after the element name: ( blank name = quote value quote )* '>' ; result: raw attributes, input after '>' *)
Fixpoint read_attrs (fuel : nat) (s : str) : option (list (str * str) * str) :=
  match fuel with
  | O => None
  | S f =>
    match s with
    | [] => None
    | c :: r =>
      if c =? 62 then Some ([], r)
      else if c =? 32 then
        let '(raw, r1) := span name_byte r in
        if xp_null raw then None
        else match prefix [61; 34] r1 with
             | Some r2 =>
               match unesc true r2 with
               | Some (v, r3) =>
                 match prefix [34] r3 with
                 | Some r4 => match read_attrs f r4 with
                              | Some (al, r5) => Some ((raw, v) :: al, r5)
                              | None => None
                              end
                 | None => None
                 end
               | None => None
               end
             | None => None
             end
      else None
    end
  end.

Record stag := mkStag { st_raw : str; st_name : xname; st_attrs : list xattr; st_env : nsenv; st_rest : str }.
(* [s] = the input after '<'; [fuel] > the number of attributes *)
Definition start_tag (fuel : nat) (env : nsenv) (s : str) : option stag :=
  let '(raw, s2) := span name_byte s in
  match read_attrs fuel s2 with
  | Some (ral, s3) =>
    match qsplit raw, qsplit_all ral with
    | Some (p, l), Some qal =>
      let env' := ext_env env qal in
      Some (mkStag raw (translate env' true p l)
                   (map (fun a => (translate env' false (fst (fst a)) (snd (fst a)), snd a)) qal) env' s3)
    | _, _ => None
    end
  | None => None
  end.

(* ---- content ---- *)
(* the nodes up to the next unmatched end tag (not consumed) or the end of the input *)
Fixpoint parse_kids (fuel : nat) (env : nsenv) (s : str) : option (list xnode * str) :=
  match fuel with
  | O => None
  | S f =>
    match s with
    | [] => Some ([], [])
    | c :: s1 =>
      if c =? 60 then
        match s1 with
        | [] => None
        | c2 :: _ =>
          if c2 =? 47 then Some ([], s)
          else
            match start_tag f env s1 with
            | Some st =>
              match parse_kids f (st_env st) (st_rest st) with
              | Some (kids, s4) =>
                match prefix ([60; 47] ++ st_raw st ++ [62]) s4 with
                | Some s5 =>
                  match parse_kids f env s5 with
                  | Some (sibs, s6) => Some (XElem (st_name st) (st_attrs st) kids :: sibs, s6)
                  | None => None
                  end
                | None => None
                end
              | None => None
              end
            | None => None
            end
        end
      else
        match unesc false s with
        | Some (t, s2) =>
          match parse_kids f env s2 with
          | Some (sibs, s3) => Some (XText t :: sibs, s3)
          | None => None
          end
        | None => None
        end
    end
  end.

(* the document: exactly one element and nothing else *)
Definition xml_parse (s : str) : option xnode :=
  match parse_kids (S (length s)) [] s with
  | Some ([XElem n a k], []) => Some (XElem n a k)
  | _ => None
  end.
