(* Destinations of writers: a writer is modelled by the list of Write calls it issues; a destination
   either accepts everything or accepts [k] bytes and then fails (short count + error). *)
From Coq Require Import List NArith Bool Arith Lia.
From Astisub Require Import Kit.Base.
Import ListNotations.

Inductive dest := ok_dest | fail_at (k : nat).

(* every writer checks the error of each Write and returns it *)
Fixpoint run_writes (ws : list str) (d : dest) (written : nat) : res nat :=
  match ws with
  | [] => Ok written
  | w :: r =>
    match d with
    | ok_dest => run_writes r d (written + length w)
    | fail_at k => if Nat.leb (written + length w) k then run_writes r d (written + length w) else Err EIO
    end
  end.

Definition total (ws : list str) : nat := length (concat ws).

Lemma run_writes_ok ws n : run_writes ws ok_dest n = Ok (n + total ws).
Proof.
  revert n. induction ws as [|w r IH]; intros n; cbn [run_writes]; unfold total in *; cbn [concat].
  - cbn. f_equal. lia.
  - rewrite IH, app_length. f_equal. lia.
Qed.

Lemma run_writes_fail ws k n : k < n + total ws -> n <= k -> run_writes ws (fail_at k) n = Err EIO.
Proof.
  revert n. induction ws as [|w r IH]; intros n H Hn; cbn [run_writes]; unfold total in *; cbn [concat] in *.
  - cbn in H. lia.
  - rewrite app_length in H. destruct (Nat.leb (n + length w) k) eqn:E; [|reflexivity].
    apply Nat.leb_le in E. apply IH; lia.
Qed.

(* a destination that fails before the end of the document makes the writer fail *)
Theorem writes_fault ws k : k < total ws -> run_writes ws (fail_at k) 0 = Err EIO.
Proof. intros H. apply run_writes_fail; lia. Qed.
(* without a fault, success means every byte was handed to the destination *)
Theorem writes_complete ws : run_writes ws ok_dest 0 = Ok (total ws).
Proof. rewrite run_writes_ok. reflexivity. Qed.

(* whatever the destination (one that would fail only beyond the end of the document included): a successful return means
   the complete document was handed over *)
Lemma run_writes_ok_any ws d : forall n m, run_writes ws d n = Ok m -> m = n + total ws.
Proof.
  induction ws as [|w r IH]; intros n m H; cbn [run_writes] in H; unfold total in *; cbn [concat].
  - inversion H. cbn. lia.
  - rewrite app_length. destruct d as [|k].
    + apply IH in H. lia.
    + destruct (Nat.leb (n + length w) k); [apply IH in H; lia | discriminate].
Qed.
Theorem writes_ok_complete ws d m : run_writes ws d 0 = Ok m -> m = total ws.
Proof. intros H. apply run_writes_ok_any in H. exact H. Qed.
