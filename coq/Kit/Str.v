(* Go-semantics kit: the string functions the library calls, over byte lists.
   Definitions and their characterising lemmas (models importing this file use only the interface). *)
From Coq Require Import List ZArith NArith Bool Lia.
From Coq Require Decimal DecimalN.
From Astisub Require Import Kit.Base.
Import ListNotations.
Open Scope N_scope.

(* ---- basic ---- *)
Fixpoint prefix (p s : str) : option str :=
  match p, s with
  | [], _ => Some s
  | a :: p', b :: s' => if a =? b then prefix p' s' else None
  | _ :: _, [] => None
  end.
Definition has_prefix (p s : str) : bool := match prefix p s with Some _ => true | None => false end.
Definition trim_prefix (p s : str) : str := match prefix p s with Some r => r | None => s end.
Definition has_suffix (p s : str) : bool := has_prefix (rev p) (rev s).

Lemma prefix_app p r : prefix p (p ++ r) = Some r.
Proof. induction p as [|a p IH]; cbn [prefix app]; [reflexivity|]. rewrite N.eqb_refl. exact IH. Qed.
Lemma prefix_Some p s r : prefix p s = Some r -> s = p ++ r.
Proof.
  revert s. induction p as [|a p IH]; intros s H; cbn [prefix] in H.
  - inversion H. reflexivity.
  - destruct s as [|b s]; [discriminate|]. destruct (a =? b) eqn:E; [|discriminate].
    apply N.eqb_eq in E. subst b. cbn [app]. f_equal. apply IH. exact H.
Qed.

(* strings.Index / Contains / Cut for a non-empty separator *)
Fixpoint cut_fuel (fuel : nat) (sep s : str) : option (str * str) :=
  match fuel with
  | O => None
  | S f =>
    match prefix sep s with
    | Some r => Some ([], r)
    | None => match s with
              | [] => None
              | c :: t => match cut_fuel f sep t with
                          | Some (a, b) => Some (c :: a, b)
                          | None => None
                          end
              end
    end
  end.
(* [cut sep s] = Some (before, after) at the first occurrence of [sep] *)
Definition cut (sep s : str) : option (str * str) := cut_fuel (S (length s)) sep s.
Definition contains (sep s : str) : bool := match cut sep s with Some _ => true | None => false end.

(* strings.Split for a non-empty separator *)
Fixpoint split_fuel (fuel : nat) (sep s : str) : list str :=
  match fuel with
  | O => [s]
  | S f => match cut sep s with
           | Some (a, b) => a :: split_fuel f sep b
           | None => [s]
           end
  end.
Definition split (sep s : str) : list str := split_fuel (S (length s)) sep s.

(* single-byte separator: structural, used where the separator is one byte *)
Fixpoint split_byte (c : byte) (s : str) : list str :=
  match s with
  | [] => [[]]
  | x :: r => match split_byte c r with
              | [] => [[x]]   (* unreachable *)
              | h :: t => if x =? c then [] :: h :: t else (x :: h) :: t
              end
  end.

Fixpoint join (sep : str) (l : list str) : str :=
  match l with
  | [] => []
  | [x] => x
  | x :: r => x ++ sep ++ join sep r
  end.

Lemma split_byte_nonnil c s : split_byte c s <> [].
Proof. induction s as [|x r IH]; cbn [split_byte]; [discriminate|]. destruct (split_byte c r); [discriminate|]. destruct (x =? c); discriminate. Qed.

Lemma split_byte_none c s : ~ In c s -> split_byte c s = [s].
Proof.
  induction s as [|x r IH]; intros H; [reflexivity|]. cbn [split_byte]. rewrite IH by (intros Hc; apply H; right; exact Hc).
  destruct (x =? c) eqn:E; [apply N.eqb_eq in E; subst; exfalso; apply H; left; reflexivity | reflexivity].
Qed.

Lemma split_byte_app c a b : ~ In c a -> split_byte c (a ++ c :: b) = a :: split_byte c b.
Proof.
  induction a as [|x r IH]; intros H; cbn [app split_byte].
  - rewrite N.eqb_refl. destruct (split_byte c b) eqn:E; [exfalso; exact (split_byte_nonnil c b E) | reflexivity].
  - rewrite IH by (intros Hc; apply H; right; exact Hc).
    destruct (x =? c) eqn:E; [apply N.eqb_eq in E; subst; exfalso; apply H; left; reflexivity | reflexivity].
Qed.

(* ---- white space (unicode.IsSpace over UTF-8) ---- *)
Definition is_ascii_space (c : byte) : bool :=
  (c =? 32) || ((9 <=? c) && (c <=? 13)).
(* the multi-byte white-space characters: U+0085, U+00A0, U+1680, U+2000-U+200A, U+2028, U+2029, U+202F, U+205F, U+3000 *)
Definition space_seqs : list str :=
  [[194;133]; [194;160]; [225;154;128];
   [226;128;128]; [226;128;129]; [226;128;130]; [226;128;131]; [226;128;132]; [226;128;133];
   [226;128;134]; [226;128;135]; [226;128;136]; [226;128;137]; [226;128;138];
   [226;128;168]; [226;128;169]; [226;128;175]; [226;129;159]; [227;128;128]].
Fixpoint strip_any (seqs : list str) (s : str) : option str :=
  match seqs with
  | [] => None
  | q :: r => match prefix q s with Some rest => Some rest | None => strip_any r s end
  end.
(* one leading white-space character removed, if any *)
Definition strip_space1 (s : str) : option str :=
  match s with
  | [] => None
  | c :: r => if is_ascii_space c then Some r else if c <? 128 then None else strip_any space_seqs s
  end.
Fixpoint trim_left_fuel (fuel : nat) (s : str) : str :=
  match fuel with
  | O => s
  | S f => match strip_space1 s with Some r => trim_left_fuel f r | None => s end
  end.
Definition trim_left (s : str) : str := trim_left_fuel (length s) s.
(* trailing side: same on the reversed string with reversed sequences *)
Definition strip_space1_rev (s : str) : option str :=
  match s with
  | [] => None
  | c :: r => if is_ascii_space c then Some r else if c <? 128 then None else strip_any (map (@rev byte) space_seqs) s
  end.
Fixpoint trim_right_fuel (fuel : nat) (s : str) : str :=
  match fuel with
  | O => s
  | S f => match strip_space1_rev s with Some r => trim_right_fuel f r | None => s end
  end.
Definition trim_right (s : str) : str := rev (trim_right_fuel (length s) (rev s)).
Definition trim_space (s : str) : str := trim_right (trim_left s).

Definition plain_byte (c : byte) : bool := negb (is_ascii_space c) && (c <? 128).

Lemma trim_left_plain c r : plain_byte c = true -> trim_left (c :: r) = c :: r.
Proof.
  unfold plain_byte, trim_left. intros H. apply andb_true_iff in H. destruct H as [H1 H2]. apply negb_true_iff in H1.
  cbn [length trim_left_fuel strip_space1]. rewrite H1, H2. reflexivity.
Qed.
Lemma trim_left_nil : trim_left [] = []. Proof. reflexivity. Qed.

Lemma trim_right_plain s c : plain_byte c = true -> trim_right (s ++ [c]) = s ++ [c].
Proof.
  unfold plain_byte, trim_right. intros H. apply andb_true_iff in H. destruct H as [H1 H2]. apply negb_true_iff in H1.
  rewrite rev_app_distr. cbn [rev app]. rewrite app_length. cbn [length].
  replace (length s + 1)%nat with (S (length s)) by lia.
  cbn [trim_right_fuel strip_space1_rev]. rewrite H1, H2. cbn [rev]. rewrite rev_involutive. reflexivity.
Qed.

(* a non-empty string whose first and last bytes are plain ASCII non-space is not changed *)
Lemma trim_space_plain s : s <> [] ->
  plain_byte (hd 0 s) = true -> plain_byte (last s 0) = true -> trim_space s = s.
Proof.
  intros Hne Hh Hl. unfold trim_space. destruct s as [|c r]; [contradiction|]. cbn [hd] in Hh.
  rewrite (trim_left_plain c r Hh).
  destruct (@exists_last _ (c :: r) Hne) as (s' & z & E). rewrite E in *. rewrite last_last in Hl.
  apply trim_right_plain. exact Hl.
Qed.

(* ---- decimal ---- *)
Fixpoint uint_to_str (u : Decimal.uint) : str :=
  match u with
  | Decimal.Nil => []
  | Decimal.D0 u => 48 :: uint_to_str u | Decimal.D1 u => 49 :: uint_to_str u | Decimal.D2 u => 50 :: uint_to_str u
  | Decimal.D3 u => 51 :: uint_to_str u | Decimal.D4 u => 52 :: uint_to_str u | Decimal.D5 u => 53 :: uint_to_str u
  | Decimal.D6 u => 54 :: uint_to_str u | Decimal.D7 u => 55 :: uint_to_str u | Decimal.D8 u => 56 :: uint_to_str u
  | Decimal.D9 u => 57 :: uint_to_str u
  end.
Definition digit_cons (c : byte) (u : Decimal.uint) : option Decimal.uint :=
  if c =? 48 then Some (Decimal.D0 u) else if c =? 49 then Some (Decimal.D1 u) else if c =? 50 then Some (Decimal.D2 u)
  else if c =? 51 then Some (Decimal.D3 u) else if c =? 52 then Some (Decimal.D4 u) else if c =? 53 then Some (Decimal.D5 u)
  else if c =? 54 then Some (Decimal.D6 u) else if c =? 55 then Some (Decimal.D7 u) else if c =? 56 then Some (Decimal.D8 u)
  else if c =? 57 then Some (Decimal.D9 u) else None.
Fixpoint str_to_uint (s : str) : option Decimal.uint :=
  match s with
  | [] => Some Decimal.Nil
  | c :: r => match str_to_uint r with Some u => digit_cons c u | None => None end
  end.

Lemma str_to_uint_to_str u : str_to_uint (uint_to_str u) = Some u.
Proof. induction u; cbn [uint_to_str str_to_uint]; try reflexivity; rewrite IHu; reflexivity. Qed.

Definition is_digit (c : byte) : bool := (48 <=? c) && (c <=? 57).
Lemma uint_to_str_digits u : forallb is_digit (uint_to_str u) = true.
Proof. induction u; cbn [uint_to_str forallb]; try reflexivity; rewrite IHu; reflexivity. Qed.

(* strconv.Itoa for non-negative values; strconv.Atoi (sign, digits only, int64 range) *)
Definition itoa (n : N) : str := uint_to_str (N.to_uint n).
Definition itoa_z (z : Z) : str := match z with Zneg p => 45 :: itoa (Npos p) | _ => itoa (Z.to_N z) end.
Definition max_int64 : Z := 9223372036854775807%Z.
Definition atoi_digits (ds : str) : option N :=
  match ds with
  | [] => None
  | _ => match str_to_uint ds with Some u => Some (N.of_uint u) | None => None end
  end.
Definition atoi (s : str) : option Z :=
  let '(neg, ds) := match s with
                    | 45 :: r => (true, r)
                    | 43 :: r => (false, r)
                    | _ => (false, s)
                    end in
  match atoi_digits ds with
  | None => None
  | Some n =>
    let v := if neg then (- Z.of_N n)%Z else Z.of_N n in
    if ((v <? - max_int64 - 1) || (max_int64 <? v))%Z then None else Some v
  end.

Lemma uint_to_str_nil u : uint_to_str u = [] -> u = Decimal.Nil.
Proof. destruct u; cbn [uint_to_str]; intros H; [reflexivity | discriminate ..]. Qed.

Lemma itoa_nonnil n : itoa n <> [].
Proof.
  unfold itoa. intros H. apply uint_to_str_nil in H.
  pose proof (DecimalN.Unsigned.of_to n) as E. rewrite H in E. cbn in E.
  destruct n as [|p]; [cbn in H; discriminate | discriminate].
Qed.

Lemma itoa_digits n : forallb is_digit (itoa n) = true.
Proof. apply uint_to_str_digits. Qed.

Lemma atoi_digits_itoa n : atoi_digits (itoa n) = Some n.
Proof.
  unfold atoi_digits. pose proof (itoa_nonnil n) as H. destruct (itoa n) eqn:E; [contradiction|]. rewrite <- E.
  unfold itoa. rewrite str_to_uint_to_str. f_equal. apply DecimalN.Unsigned.of_to.
Qed.

Lemma digit_head_not_sign s : forallb is_digit s = true -> s <> [] ->
  match s with 45 :: _ => False | 43 :: _ => False | _ => True end.
Proof.
  destruct s as [|c r]; [contradiction|]. intros H _. cbn [forallb] in H. apply andb_true_iff in H. destruct H as [H _].
  unfold is_digit in H. apply andb_true_iff in H. destruct H as [H1 H2]. apply N.leb_le in H1. apply N.leb_le in H2.
  destruct c as [|p]; [exact I|]. do 8 (destruct p as [p|p|]; try exact I; try lia).
Qed.

Lemma atoi_itoa n : (Z.of_N n <= max_int64)%Z -> atoi (itoa n) = Some (Z.of_N n).
Proof.
  intros Hr. unfold atoi.
  pose proof (digit_head_not_sign (itoa n) (itoa_digits n) (itoa_nonnil n)) as Hs.
  assert (E : (let '(neg, ds) := match itoa n with 45 :: r => (true, r) | 43 :: r => (false, r) | _ => (false, itoa n) end in (neg, ds)) = (false, itoa n)).
  { destruct (itoa n) as [|c r]; [reflexivity|]. destruct c as [|p]; [reflexivity|].
    do 8 (destruct p as [p|p|]; try reflexivity; try contradiction). }
  destruct (itoa n) as [|c r] eqn:E0.
  - exfalso. exact (itoa_nonnil n E0).
  - assert (Hc : match c with 45 => False | 43 => False | _ => True end) by exact Hs.
    assert (Hm : match c :: r with 45 :: r0 => (true, r0) | 43 :: r0 => (false, r0) | _ => (false, c :: r) end = (false, c :: r)).
    { destruct c as [|p]; [reflexivity|]. do 8 (destruct p as [p|p|]; try reflexivity; try contradiction). }
    rewrite Hm. rewrite <- E0, atoi_digits_itoa.
    destruct ((Z.of_N n <? - max_int64 - 1)%Z || (max_int64 <? Z.of_N n)%Z) eqn:B; [|reflexivity].
    apply orb_true_iff in B. unfold max_int64 in *. destruct B as [B|B]; [apply Z.ltb_lt in B | apply Z.ltb_lt in B]; lia.
Qed.

(* leading zeros do not change the value *)
Lemma atoi_digits_zero s : s <> [] -> atoi_digits (48 :: s) = atoi_digits s.
Proof.
  intros Hne. unfold atoi_digits. destruct s as [|c r]; [contradiction|].
  cbn [str_to_uint]. destruct (str_to_uint r) as [u|]; [|reflexivity].
  destruct (digit_cons c u) as [u'|]; [|reflexivity]. cbn. reflexivity.
Qed.

(* astikit.StrPad / BytesPad (PadLeft or PadRight, optionally cutting) *)
Definition pad_left (c : byte) (len : nat) (s : str) : str := repeat c (len - length s) ++ s.
Definition pad_right (c : byte) (len : nat) (s : str) : str := s ++ repeat c (len - length s).
Definition pad_right_cut (c : byte) (len : nat) (s : str) : str := firstn len (pad_right c len s).
Definition pad_left_cut (c : byte) (len : nat) (s : str) : str := if Nat.ltb len (length s) then firstn len s else pad_left c len s.

Lemma atoi_digits_pad_left len s : s <> [] -> atoi_digits (pad_left 48 len s) = atoi_digits s.
Proof.
  intros Hne. unfold pad_left. induction (len - length s)%nat as [|k IH]; [reflexivity|].
  cbn [repeat app]. rewrite atoi_digits_zero; [exact IH|]. destruct (repeat 48 k); cbn; [exact Hne | discriminate].
Qed.

(* ToLower on ASCII letters (the codecs only compare ASCII keywords) *)
Definition to_lower_byte (c : byte) : byte := if (65 <=? c) && (c <=? 90) then c + 32 else c.
Definition to_lower (s : str) : str := map to_lower_byte s.

(* strings.Fields: split around runs of white space (unicode.IsSpace over UTF-8) *)
Fixpoint fields_fuel (fuel : nat) (cur : str) (s : str) : list str :=
  match fuel with
  | O => match cur with [] => [] | _ => [rev cur] end
  | S f =>
    match s with
    | [] => match cur with [] => [] | _ => [rev cur] end
    | c :: r =>
      match strip_space1 s with
      | Some rest => match cur with [] => fields_fuel f [] rest | _ => rev cur :: fields_fuel f [] rest end
      | None => fields_fuel f (c :: cur) r
      end
    end
  end.
Definition fields (s : str) : list str := fields_fuel (S (length s)) [] s.

(* strconv.Atoi as used with its error ignored: 0 on a syntax error, the clamped value on a range error *)
Definition atoi_val (s : str) : Z :=
  let '(neg, ds) := match s with
                    | 45 :: r => (true, r)
                    | 43 :: r => (false, r)
                    | _ => (false, s)
                    end in
  match atoi_digits ds with
  | None => 0%Z
  | Some n =>
    let v := if neg then (- Z.of_N n)%Z else Z.of_N n in
    if (v <? - max_int64 - 1)%Z then (- max_int64 - 1)%Z else if (max_int64 <? v)%Z then max_int64 else v
  end.
