(* binary64 helpers for the TTML time expressions: math.Round followed by the conversion to an integer,
   and strconv.ParseFloat on the decimal forms digits[.digits] inside its exact fast path.
   Executable (extracts).  Definitions only. *)
From Coq Require Import ZArith NArith List Bool.
From Flocq Require Import Core BinarySingleNaN.
From Astisub Require Import Kit.Base Kit.Str Kit.Float64.
Import ListNotations.
Open Scope Z_scope.

(* int64(math.Round(x)): nearest integer, halves away from zero; computed exactly from the float's
   mantissa and exponent (x = +-m * 2^e).  Values out of the int64 range are outside every domain used. *)
Definition round_mag (m : positive) (e : Z) : Z :=
  if 0 <=? e then Zpos m * 2 ^ e
  else let d := 2 ^ (- e) in
       let q := Zpos m / d in
       let r := Zpos m mod d in
       if d <=? 2 * r then q + 1 else q.
Definition round_Z (x : f64) : Z :=
  match x with
  | B754_finite s m e _ => if s then - round_mag m e else round_mag m e
  | _ => 0
  end.

(* strconv.ParseFloat(ip[.fp], 64) for digit strings: the decimal mantissa n = digits of ip ++ fp and the
   exponent -|fp|.  Go's exact path (mantissa < 2^53, exponent >= -22): float64(n) / 10^|fp|, one correctly
   rounded division of two exactly represented numbers.  [dec_simple] is the domain on which this
   transcription is ParseFloat (15 digits: n < 10^15 < 2^53). *)
Definition dec_simple (ip fp : str) : bool := Nat.leb (length ip + length fp) 15.
Definition dec_mant (ip fp : str) : Z :=
  match atoi_digits (ip ++ fp) with Some n => Z.of_N n | None => 0 end.
Definition parse_dec (ip fp : str) : f64 :=
  fdiv (of_Z (dec_mant ip fp)) (of_Z (10 ^ Z.of_nat (length fp))).

(* x > 0 on binary64 (false for zeros, NaN, negatives) *)
Definition fzero : f64 := of_Z 0.
Definition fpos (x : f64) : bool :=
  match @Bcompare prec emax x fzero with Some Gt => true | _ => false end.
