(* The line scanner WITH the buffer limit of bufio.Scanner.  Definitions only.

   subtitles.go:newScanner calls bufio.NewScanner and never scanner.Buffer, so the scanner keeps its default
   maxTokenSize = bufio.MaxScanTokenSize = 64*1024 = 65536 (go1.23 bufio/scan.go; the buffer starts at 4096 bytes and
   doubles up to that size).  bufio.Scanner.Scan, reduced to what the result depends on:

     loop: if there are unconsumed bytes (or an error/EOF was seen) call split(unconsumed, atEOF);
             a token -> deliver it, advance;
           no token: if EOF/error was seen -> stop;
                     compact the buffer (unconsumed bytes to the front); if the unconsumed bytes fill a buffer that
                     already has maxTokenSize bytes -> stop with ErrTooLong ("token too long");
                     otherwise (grow and) Read into the free space.

   So ErrTooLong is raised exactly when the split function asks for more data while [max] unconsumed bytes are held
   and end-of-file has not been SEEN.  End-of-file is seen when a Read returns it: with the last bytes (allowed by
   io.Reader) or, as bytes.Reader, strings.Reader and os.File do, by a separate Read returning (0, io.EOF).

   [scan_lim_abs]: [buf] = unconsumed bytes held (never more than [max]), [rest] = bytes not delivered yet, [counts] =
   sizes of the successive Reads (0 allowed), each capped by the room left ([max - length buf]; the real cap, the free
   space of the current buffer, is never larger, so every real execution is one of these schedules); when [counts] is
   exhausted the reader delivers all it can per Read and reports end-of-file together with the last bytes.  A
   separate end-of-file Read is a final count 0.  Not modelled (as in Kit/Scan.v): io.ErrNoProgress after 100 empty
   Reads; a Read error other than EOF is Kit/Scan.v's [scan_fail]. *)
From Coq Require Import List NArith Bool Arith.
From Astisub Require Import Kit.Base Kit.Scan.
Import ListNotations.

(* result: tokens delivered, and whether scanning stopped with ErrTooLong *)
Fixpoint scan_lim_abs (fuel : nat) (max : nat) (buf rest : str) (counts : list nat) : list str * bool :=
  match fuel with
  | O => ([], false)
  | S f =>
    match split buf false with
    | Some (tok, b') => let (ts, e) := scan_lim_abs f max b' rest counts in (tok :: ts, e)
    | None =>
      if Nat.leb max (length buf) then ([], true)
      else
        let room := (max - length buf)%nat in
        match counts with
        | [] =>
          if Nat.leb (length rest) room then (lines (buf ++ rest), false)
          else scan_lim_abs f max (buf ++ firstn room rest) (skipn room rest) []
        | k :: cs =>
          let k' := Nat.min k room in
          scan_lim_abs f max (buf ++ firstn k' rest) (skipn k' rest) cs
        end
    end
  end.
Definition scan_lim (max : nat) (data : str) (counts : list nat) : list str * bool :=
  scan_lim_abs (S (S (2 * length data + length counts))) max [] data counts.

(* bufio.MaxScanTokenSize *)
Definition max_scan_token : nat := N.to_nat 65536.

(* how many bytes, counted from the start of a line, the split function must hold to deliver that line before
   end-of-file is seen: the line and its LF; the line, its CR and the byte after it (the look-ahead that tells CR LF
   from a lone CR); None: the line ends with the data (no terminator, or a final CR) and only end-of-file releases it *)
Definition split_need (s : str) : option nat :=
  let (tok, rest) := span_nobrk s in
  match rest with
  | [] => None
  | c :: r => if N.eqb c LF then Some (length tok + 1)%nat
              else match r with [] => None | _ :: _ => Some (length tok + 2)%nat end
  end.
