(* Go-semantics kit: UTF-8 encoding of code points and decoding of *valid* UTF-8 (None on any invalid
   sequence: the models that use it put invalid text outside their faithful domain).  Definitions only. *)
From Coq Require Import List NArith Bool.
From Astisub Require Import Kit.Base.
Import ListNotations.
Open Scope N_scope.

Definition utf8_cont (c : N) : bool := (128 <=? c) && (c <? 192).

(* utf8.EncodeRune / string(rune) for a valid code point *)
Definition utf8_encode_rune (r : N) : str :=
  if r <? 128 then [r]
  else if r <? 2048 then [192 + r / 64; 128 + r mod 64]
  else if r <? 65536 then [224 + r / 4096; 128 + (r / 64) mod 64; 128 + r mod 64]
  else [240 + r / 262144; 128 + (r / 4096) mod 64; 128 + (r / 64) mod 64; 128 + r mod 64].
Definition utf8_encode (rs : list N) : str := flat_map utf8_encode_rune rs.

Definition ocons (a : N) (o : option (list N)) : option (list N) :=
  match o with Some l => Some (a :: l) | None => None end.

(* shortest-form, no surrogates, at most U+10FFFF: exactly the sequences Go's range loop decodes without U+FFFD *)
Fixpoint utf8_decode (s : str) : option (list N) :=
  match s with
  | [] => Some []
  | a :: r =>
    if a <? 128 then ocons a (utf8_decode r)
    else if (194 <=? a) && (a <? 224) then
      match r with
      | b :: r1 => if utf8_cont b then ocons ((a - 192) * 64 + (b - 128)) (utf8_decode r1) else None
      | _ => None
      end
    else if (224 <=? a) && (a <? 240) then
      match r with
      | b :: c :: r2 =>
        if utf8_cont b && utf8_cont c && (negb (a =? 224) || (160 <=? b)) && (negb (a =? 237) || (b <? 160))
        then ocons ((a - 224) * 4096 + (b - 128) * 64 + (c - 128)) (utf8_decode r2) else None
      | _ => None
      end
    else if (240 <=? a) && (a <? 245) then
      match r with
      | b :: c :: d :: r3 =>
        if utf8_cont b && utf8_cont c && utf8_cont d && (negb (a =? 240) || (144 <=? b)) && (negb (a =? 244) || (b <? 144))
        then ocons ((a - 240) * 262144 + (b - 128) * 4096 + (c - 128) * 64 + (d - 128)) (utf8_decode r3) else None
      | _ => None
      end
    else None
  end.
