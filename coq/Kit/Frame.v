(* A small interleaving semantics for C20: threads with private state over a shared store that no step
   writes.  Whatever the interleaving, every thread ends in the state it reaches when run alone. *)
From Coq Require Import List Arith.
Import ListNotations.

Section Frame.
  Variables (Sh L : Type).
  Variable step : Sh -> L -> L.        (* one step of a thread: reads the shared store, updates its own state *)

  Definition upd (ls : nat -> L) (t : nat) (v : L) : nat -> L := fun u => if Nat.eqb u t then v else ls u.

  (* a schedule is the sequence of thread identifiers that take a step *)
  Fixpoint run (sched : list nat) (sh : Sh) (ls : nat -> L) : nat -> L :=
    match sched with
    | [] => ls
    | t :: r => run r sh (upd ls t (step sh (ls t)))
    end.

  Fixpoint iter (n : nat) (sh : Sh) (l : L) : L := match n with O => l | S k => iter k sh (step sh l) end.

  Theorem frame : forall sched sh ls t, run sched sh ls t = iter (count_occ Nat.eq_dec sched t) sh (ls t).
  Proof.
    induction sched as [|u r IH]; intros sh ls t; cbn [run count_occ]; [reflexivity|].
    rewrite IH. unfold upd. destruct (Nat.eq_dec u t) as [->|Hne].
    - rewrite Nat.eqb_refl. reflexivity.
    - destruct (Nat.eqb t u) eqn:E; [apply Nat.eqb_eq in E; congruence | reflexivity].
  Qed.

  (* two schedules in which thread t takes the same number of steps leave it in the same state *)
  Corollary interleaving_independent : forall s1 s2 sh ls t,
    count_occ Nat.eq_dec s1 t = count_occ Nat.eq_dec s2 t -> run s1 sh ls t = run s2 sh ls t.
  Proof. intros s1 s2 sh ls t H. rewrite !frame, H. reflexivity. Qed.
End Frame.
