(* The line scanner of subtitles.go (newScanner's split function under bufio.Scanner) and the block
   reader of stl.go (readNBytes), over abstract delivery schedules.  Definitions only. *)
From Coq Require Import List NArith Bool Arith.
From Astisub Require Import Kit.Base.
Import ListNotations.
Open Scope N_scope.

Definition CR : byte := 13.
Definition LF : byte := 10.
Definition is_brk (c : byte) : bool := (c =? CR) || (c =? LF).

(* bytes.IndexAny(data, "\r\n"): (bytes before the first break, rest starting at the break) *)
Fixpoint span_nobrk (s : str) : str * str :=
  match s with
  | [] => ([], [])
  | c :: t => if is_brk c then ([], s) else let (a, b) := span_nobrk t in (c :: a, b)
  end.

(* the split function: None = "request more data" (or nothing left at EOF);
   Some (token, remaining) = token delivered, [remaining] is the data after the advance *)
Definition split (data : str) (atEOF : bool) : option (str * str) :=
  match data with
  | [] => None
  | _ =>
    let (tok, rest) := span_nobrk data in
    match rest with
    | [] => if atEOF then Some (tok, []) else None
    | c :: r =>
      if c =? LF then Some (tok, r)
      else (* CR *)
        match r with
        | [] => if atEOF then Some (tok, []) else None   (* CR is the last buffered byte: a LF may follow *)
        | c2 :: r2 => if c2 =? LF then Some (tok, r2) else Some (tok, r)
        end
    end
  end.

(* specification: the lines of a byte string (LF, CRLF, CR each one break; final unterminated line kept) *)
Fixpoint lines_fuel (n : nat) (s : str) : list str :=
  match n with
  | O => []
  | S n' =>
    match split s true with
    | Some (tok, rest) => tok :: lines_fuel n' rest
    | None => []
    end
  end.
Definition lines (s : str) : list str := lines_fuel (S (length s)) s.

(* abstract bufio.Scanner: [buf] = unconsumed buffered bytes, [rest] = bytes not yet delivered,
   [counts] = sizes of the successive reads (0 allowed); when [counts] is exhausted the remaining bytes
   arrive and end-of-file is seen.  Buffer capacity (bufio.MaxScanTokenSize, ErrTooLong) is not modelled: the reader
   models take the scanner's final error as an input flag and the harness exercises over-long lines directly. *)
Fixpoint scan_abs (fuel : nat) (buf rest : str) (counts : list nat) : list str :=
  match fuel with
  | O => []
  | S f =>
    match counts with
    | [] =>
        match split (buf ++ rest) true with
        | Some (tok, b') => tok :: scan_abs f b' [] []
        | None => []
        end
    | k :: cs =>
        match split buf false with
        | Some (tok, b') => tok :: scan_abs f b' rest counts
        | None => scan_abs f (buf ++ firstn k rest) (skipn k rest) cs
        end
    end
  end.
Definition scan (data : str) (counts : list nat) : list str :=
  scan_abs (S (length data + length counts)) [] data counts.

(* a read error after [k] bytes: the scanner delivers the buffered partial line as a token (atEOF is
   "any error seen"), then stops; Err() = the error.  Tokens = lines of the delivered prefix. *)
Definition scan_fail (data : str) (k : nat) (counts : list nat) : list str * bool :=
  (scan (firstn k data) counts, true).

(* how the underlying stream ends: at end-of-file after all the data, or with an error after [k] bytes *)
Inductive stream_end := SEof | SFail (k : nat).
Definition scan_stream (data : str) (e : stream_end) (counts : list nat) : list str * bool :=
  match e with
  | SEof => (scan data counts, false)
  | SFail k => scan_fail data k counts
  end.

(* bufio.MaxScanTokenSize (65536): ErrTooLong is a behaviour of the library's buffer, not of this code; the reader
   models take the scanner's final error as an input and the harness exercises over-long lines directly. *)

(* ---- stl.go readNBytes over a schedule (io.ReadFull semantics) ---- *)
Inductive rn_result := RnOk (block rest : str) (counts : list nat) | RnEOF | RnShort.
Fixpoint read_n_fuel (fuel : nat) (n : nat) (acc : str) (data : str) (counts : list nat) : rn_result :=
  match fuel with
  | O => RnShort
  | S f =>
    if Nat.leb n (length acc) then RnOk acc data counts
    else match counts with
         | [] => (* remaining bytes arrive, then EOF *)
           let got := firstn (n - length acc) data in
           let acc' := acc ++ got in
           if Nat.leb n (length acc') then RnOk acc' (skipn (n - length acc) data) []
           else match acc' with [] => RnEOF | _ => RnShort end
         | k :: cs =>
           let k' := Nat.min k (n - length acc) in
           read_n_fuel f n (acc ++ firstn k' data) (skipn k' data) cs
         end
  end.
Definition read_n (n : nat) (data : str) (counts : list nat) : rn_result :=
  read_n_fuel (S (length counts)) n [] data counts.

(* all blocks of an STL stream: one block of [g] bytes, then blocks of [t] bytes until EOF *)
Fixpoint read_blocks_fuel (fuel : nat) (t : nat) (data : str) (counts : list nat) : option (list str) :=
  match fuel with
  | O => None
  | S f => match read_n t data counts with
           | RnOk b rest cs => match read_blocks_fuel f t rest cs with Some bs => Some (b :: bs) | None => None end
           | RnEOF => Some []
           | RnShort => None
           end
  end.

(* The buffer limit (bufio.MaxScanTokenSize, ErrTooLong) is modelled separately in Kit/ScanLim.v ([scan_lim]); within the
   bound stated there [scan_lim] delivers exactly [scan]'s tokens (Proofs/ScanLimProofs.v). *)
